"""Per-property check procedures.  Each one follows DESIGN.md section 6:
MC (design-level model checking) -> A (TLC enumerates inputs / behaviours,
replayed into the real code, judged by TLC) -> B (seeded random executions
of the real code recorded and validated by TLC)."""
import json
import os

import vlib
from vlib import ToolError, log  # noqa: F401

REGISTRY = {}
COMPONENT = {}   # property -> (harness component, trace module) for --replay of single cases


def prop(pid, component=None, trace=None):
    def deco(fn):
        REGISTRY[pid] = fn
        if component:
            COMPONENT[pid] = (component, trace)
        return fn
    return deco


def replay(ctx, path):
    """Re-execute a replay file (a failing case) and judge it again."""
    with open(path) as f:
        rp = json.load(f)
    comp = rp.get("component")
    if comp == "pipe":
        return replay_pipe(ctx, rp, path)
    if comp == "ws":
        cpath = ctx.path("replay-cases.ndjson")
        vlib.write_ndjson(cpath, [rp["case"]])
        ws_judge(ctx, cpath, "replay", ctx.pid)
        ctx.rule = "replay of " + path
        return vlib.finish(ctx)
    if comp == "tok":
        tok_replay(ctx, rp, {ctx.pid})
        ctx.rule = "replay of " + path
        return vlib.finish(ctx)
    if rp.get("kind") != "case" or comp is None:
        raise ToolError("replay kind %r is handled by its own check" % rp.get("kind"))
    trace = COMPONENT[ctx.pid][1] if ctx.pid in COMPONENT else None
    for p, (c, t) in COMPONENT.items():
        if c == comp and p == ctx.pid:
            trace = t
    cases = ctx.path("replay-cases.ndjson")
    vlib.write_ndjson(cases, [rp["case"]])
    vlib.exec_and_judge(ctx, comp, cases, trace, "replay")
    ctx.rule = "replay of " + path
    return vlib.finish(ctx)


# ---------------------------------------------------------------------------
@prop("C12", "edit", "Trace_EditDist")
def c12(ctx):
    q = ctx.quick()
    ctx.rule = ("MC: Align machine for all text pairs up to length 3 over {ws,x,y} x flags; "
                "A: all pairs up to length %d over 3 slots x flags, 6 concretisations each (ASCII, multi-byte, clusters in both modes, characters sharing their first code point, two different whitespace characters); "
                "B: random pairs up to 14 characters. non-trivial = both texts non-empty and different"
                % (3 if q else 4))
    ctx.assumptions = ["unicode-segmentation / char::is_whitespace define the view (trusted)",
                       "floats compared to exact rationals within 1e-6"]
    vlib.mc(ctx, "MC_EditDist", "MC_EditDist.cfg")
    cases, n = vlib.tlc_generate(ctx, "Gen_EditDist", "Gen_EditDist_q.cfg" if q else "Gen_EditDist_t.cfg", "cases-a.ndjson")
    vlib.exec_and_judge(ctx, "edit", cases, "Trace_EditDist", "A", sample_keys=["as", "bs", "g", "swap", "sid", "d", "nd", "ops"])
    ctx.exhaustive = True
    rnd = ctx.path("cases-b.ndjson")
    vlib.harness(["gen", "edit", ctx.seed, 2000 if q else 30000, rnd])
    vlib.exec_and_judge(ctx, "edit", rnd, "Trace_EditDist", "B", sample_keys=["as", "bs", "g", "swap", "sid", "d", "nd", "ops"])


# ---------------------------------------------------------------------------
# C05 / C09: the threaded pipeline

C05_CLAUSES = {"upstream_sequential", "in_order", "processed_at_most_once", "complete_at_end",
               "nothing_after_end", "iteration_ends", "progress"}
C09_CLAUSES = {"bounded_lookahead", "bounded_pulls_after_drop", "threads_exit", "progress",
               "terminates_on_panic", "panic_ends_the_process", "buffered_lookahead", "buffered_pulls_after_drop",
               "buffered_producer_exits", "buffered_in_order", "buffered_complete"}
TIMING_CLAUSES = {"progress", "iteration_ends", "threads_exit", "buffered_producer_exits"}
PIPE_INVS = "TypeOK InOrder AtMostOnce Complete LookAhead AfterDrop TurnInv IndInvHere"


def pipe_cfg(W, N, lens, fail="{}", hook="TRUE", drop="TRUE", cap=None, invs=PIPE_INVS, props="", spec="SPECIFICATION Spec", late="FALSE",
             fragile="FALSE"):
    cap = W if cap is None else cap
    return ("CONSTANTS W = %d N = %d Lens = %s Cap = %d Fail = %s HookOn = %s HookLate = %s HookFragile = %s AllowDrop = %s\n%s\n"
            "INVARIANTS %s\n%s\nCHECK_DEADLOCK FALSE\n"
            % (W, N, lens, cap, fail, hook, late, fragile, drop, spec, invs, ("PROPERTIES " + props) if props else ""))


def pipe_paths(ctx, W, N, drop, label):
    """Model-check Pipe for (W, all lengths 0..N), dump the state graph and derive an
    edge-covering set of schedules for the real code."""
    import graph
    dot = ctx.path("pipe-%s.dot" % label)
    lens = "{" + ",".join(str(k) for k in range(N + 1)) + "}"
    cfg = pipe_cfg(W, N, lens, drop="TRUE" if drop else "FALSE",
                   props="StopsAfterDrop Terminates" if drop else "Terminates")
    r = vlib.tlc(ctx, "Pipe", cfg, workers=4, name="Pipe-" + label, coverage=True,
                 extra=["-dump", "dot,actionlabels", dot[:-4]])
    if not r["ok"]:
        raise ToolError("Pipe model checking failed:\n" + "\n".join(r["out"].splitlines()[-40:]))
    cov = vlib.action_coverage(r["out"])
    ctx.mc.append({"module": "Pipe", "config": "W=%d N<=%d drop=%s" % (W, N, drop), "distinct_states": r["states"],
                   "states_generated": r["generated"], "depth": r["depth"], "actions": cov,
                   "properties": "invariants %s; liveness %s" % (PIPE_INVS, "StopsAfterDrop Terminates" if drop else "Terminates")})
    ctx.states += r["states"]
    ctx.transitions += r["generated"]
    nodes, edges, inits = graph.parse_dot(dot)
    os.remove(dot)
    paths, ncov = graph.edge_cover_paths(edges, inits)
    import re
    cases = []
    for root, labels in paths:
        n = int(re.search(r"len = (\d+)", nodes[root]).group(1))
        sched = []
        for lab in labels:
            m = re.match(r"\w+\((\d+)\)", lab)
            sched.append("w" + m.group(1) if m else ("x" if lab == "Drop" else "c"))
        cases.append({"mode": "controlled", "W": W, "N": n, "sched": sched, "path": labels,
                      "blocking": False, "drain": True})
    log("[paths] Pipe W=%d N<=%d drop=%s: %d states, %d edges, %d covering schedules (%d steps)"
        % (W, N, drop, len(nodes), len(edges), len(cases), sum(len(c["sched"]) for c in cases)))
    ctx.extra.setdefault("graph_edges_covered", 0)
    ctx.extra["graph_edges_covered"] += ncov
    return cases


def pipe_judge(ctx, cases, label, clauses, mech=True):
    """Run schedules / free runs on the real Pipe, judge the logs with the observable
    monitor (property layer) and the mechanism trace spec (conformance)."""
    cpath = ctx.path("cases-%s.ndjson" % label)
    vlib.write_ndjson(cpath, cases)
    obs_path = ctx.path("obs-%s.ndjson" % label)
    vlib.harness(["exec", "pipe", cpath, obs_path, 60000])
    obs = vlib.read_ndjson(obs_path)
    fails, drifts, st = vlib.judge(ctx, "Trace_PipeObs", obs_path, len(obs), name="Trace_PipeObs-" + label)
    ctx.traces += len(obs)
    ctx.evaluations += len(obs)
    ctx.nontrivial += st["nt"]
    for idx, why in fails:
        rec = obs[idx - 1]
        mine = [w for w in why if w in clauses or w.startswith("harness") or w in ("hang", "process_exit")]
        if not mine:
            continue
        if set(mine) <= TIMING_CLAUSES:
            # a time-out decided this: re-run once in isolation before reporting
            again = pipe_rerun(ctx, rec["case"])
            if not (set(again) & set(mine)):
                ctx.extra["timing_retries"] = ctx.extra.get("timing_retries", 0) + 1
                continue
            # a controlled schedule that cannot be driven says something about the controller's picture of the schedule
            # points first: a wedge or a lost item of the code itself also shows when the same configuration runs freely
            # (the controller then only records).  Without that confirmation the finding is DRIFT, not a violation.
            if rec["case"].get("mode") == "controlled" and not pipe_confirm_free(ctx, rec["case"], clauses):
                ctx.drift.append("%s run %d: controlled schedule could not be driven (%s), free-running runs of the same "
                                 "configuration show no violation" % (label, idx, ",".join(mine)))
                continue
        slim = dict(rec)
        vlib.report(ctx, mine, slim, component="pipe", case=rec["case"], kind="schedule")
    for idx, why in drifts:
        ctx.drift.append("%s run %d: %s" % (label, idx, why))
    if mech:
        pipe_mechanism(ctx, obs, obs_path, label)
    okobs = [r for r in obs if r.get("st") == "ok"]
    if okobs and len(ctx.samples) < 6:
        r = okobs[len(okobs) // 3]
        ctx.samples.append({"source": label, "W": r["W"], "N": r["N"], "mode": r["mode"],
                            "schedule": r.get("sched", [])[:60],
                            "events": ["%s(%s,%s)" % (e["e"], e["w"], e["x"]) for e in r["ev"][:60]]})
    return obs


def pipe_induction(ctx):
    """Apalache: the inductive invariant of the pipe protocol (spec/apalache/PipeInd.tla) for an arbitrary upstream length and
    2, 3, 4 workers: Init => IndInv, IndInv /\\ Next => IndInv', IndInv => Safety; negative controls: a false bound is refuted
    from IndInit (the invariant is satisfiable), a protocol without the turn check breaks the invariant."""
    for ci in ("ConstInit2Any", "ConstInit3Any", "ConstInit4Any"):      # arbitrary channel capacity as well
        vlib.apalache(ctx, "PipeInd", ci, "Init", "IndInv", 0)
        vlib.apalache(ctx, "PipeInd", ci, "IndInit", "IndInv", 1)
        vlib.apalache(ctx, "PipeInd", ci, "IndInit", "Safety", 0)
    vlib.apalache(ctx, "PipeIndNeg", "ConstInit2", "IndInit", "FalseInv", 0, expect_error=True)
    vlib.apalache(ctx, "PipeIndNeg", "ConstInit2", "IndInit", "IndInv", 1, nxt="BadNext", expect_error=True)


def buffered_induction(ctx):
    """Apalache: inductive invariant of the Buffered protocol (spec/apalache/BufferedInd.tla) for an arbitrary upstream length
    and an arbitrary buffer size (and for the rendezvous channel, capacity 0, on its own); negative controls: the producer that
    ignores the failed send (the defect D5 of the pinned commit) breaks the invariant, a false bound is refuted."""
    for ci in ("ConstInitAny", "ConstInit0"):
        vlib.apalache(ctx, "BufferedInd", ci, "Init", "IndInv", 0)
        vlib.apalache(ctx, "BufferedInd", ci, "IndInit", "IndInv", 1)
        vlib.apalache(ctx, "BufferedInd", ci, "IndInit", "Safety", 0)
    vlib.apalache(ctx, "BufferedInd", "ConstInit1", "IndInit", "IndInv", 1, nxt="BadNext", expect_error=True)
    vlib.apalache(ctx, "BufferedInd", "ConstInit1", "IndInit", "FalseInv", 0, expect_error=True)


def pipe_confirm_free(ctx, case, clauses):
    """Free-running runs with the configuration of a controlled schedule (same W, N, drop position), several seeds and
    consumer speeds.  True if any of them violates a clause of this property."""
    sched = case.get("sched", [])
    drop_after = sched[:sched.index("x")].count("c") if "x" in sched else None
    cases = []
    for k in range(8):
        c = {"mode": "free", "W": case["W"], "N": case["N"], "seed": 1000 + 7 * k, "slow": [0.0, 0.1, 0.8][k % 3]}
        if drop_after is not None:
            c["drop_after"] = min(drop_after, case["N"])
        cases.append(c)
    cpath = ctx.path("confirm.ndjson")
    vlib.write_ndjson(cpath, cases)
    opath = ctx.path("confirm-obs.ndjson")
    vlib.harness(["exec", "pipe", cpath, opath, 60000])
    f, _, _ = vlib.judge(ctx, "Trace_PipeObs", opath, len(cases), name="Trace_PipeObs-confirm", workers=2)
    hit = [w for (_, why) in f for w in why if w in clauses or w in ("hang", "process_exit")]
    ctx.extra["free_confirmations"] = ctx.extra.get("free_confirmations", 0) + 1
    return bool(hit)


def pipe_rerun(ctx, case):
    cpath = ctx.path("rerun.ndjson")
    vlib.write_ndjson(cpath, [case])
    opath = ctx.path("rerun-obs.ndjson")
    vlib.harness(["exec", "pipe", cpath, opath, 60000])
    n = len(vlib.read_ndjson(opath))          # a multi-pipe case yields one record per pipe
    f, _, _ = vlib.judge(ctx, "Trace_PipeObs", opath, n, name="Trace_PipeObs-rerun", workers=1)
    return sorted({w for (_, why) in f for w in why})


def pipe_mechanism(ctx, obs, obs_path, label):
    """Trace_Pipe: every run must be a behaviour of Pipe.tla (lazy silent steps); DRIFT otherwise.
    Pipe's invariants are evaluated on every reconstructed state."""
    import re
    for W in sorted({r["W"] for r in obs if r.get("st") == "ok" and r["W"] >= 1}):
        runs = [r for r in obs if r.get("st") == "ok" and r["W"] == W]
        nmax = max(r["N"] for r in runs)
        cfg = pipe_cfg(W, nmax, "{}", spec="INIT TInit\nNEXT TNext")
        r = vlib.tlc(ctx, "Trace_Pipe", cfg, env={"OBS": obs_path}, workers=4 if ctx.quick() else 8,
                     name="Trace_Pipe-%s-W%d" % (label, W))
        if not r["ok"]:
            m = re.search(r"Invariant (\w+) is violated", r["out"])
            if m:
                k = re.findall(r"/\\ run = (\d+)", r["out"])
                idx = int(k[-1]) if k else 0
                inv = m.group(1)
                # LookAhead / AfterDrop of Pipe.tla are the exact bounds of the mechanism as written (channel capacity W):
                # the property only asks for a constant of thread count and buffer size, so they are DRIFT here
                prop_inv = {"InOrder": "in_order", "AtMostOnce": "processed_at_most_once", "Complete": "complete_at_end"}
                if inv in prop_inv and idx:
                    why = prop_inv[inv]
                    cl = C05_CLAUSES if ctx.pid == "C05" else C09_CLAUSES
                    if why in cl:
                        vlib.report(ctx, ["trace_state_" + why], obs[idx - 1], component="pipe",
                                    case=obs[idx - 1]["case"], kind="schedule")
                    continue
                ctx.drift.append("%s W=%d: mechanism invariant %s fails on reconstructed state of run %d" % (label, W, inv, idx))
                continue
            if "The error occurred when TLC was evaluating" in r["out"] or "Attempted to" in r["out"]:
                # a recorded event that Pipe.tla cannot even evaluate (e.g. a worker number outside 1..W): the run is not a
                # behaviour of the mechanism model; the property-layer verdict on the same runs is Trace_PipeObs's
                k = re.findall(r"/\\ run = (\d+)", r["out"])
                ctx.drift.append("%s W=%d: Trace_Pipe cannot evaluate the events of run %s against Pipe.tla; the later runs of "
                                 "this group were not validated" % (label, W, k[-1] if k else "?"))
                continue
            raise ToolError("Trace_Pipe run failed:\n" + "\n".join(r["out"].splitlines()[-40:]))
        acc = sum(1 for p in r["prints"] if p[0] == "STAT")
        dr = [p for p in r["prints"] if p[0] == "DRIFT"]
        if acc != len(runs):
            raise ToolError("Trace_Pipe consumed %d of %d runs (W=%d)" % (acc, len(runs), W))
        ctx.states += r["states"]
        ctx.transitions += r["generated"]
        ctx.extra["mechanism_runs_accepted"] = ctx.extra.get("mechanism_runs_accepted", 0) + acc - len(dr)
        for p in dr:
            ctx.drift.append("%s W=%d run %d not a behaviour of Pipe.tla at %s" % (label, W, p[1], p[2]))
        log("[trace] Trace_Pipe %s W=%d: %d runs, %d accepted, %d events/states, %.1fs"
            % (label, W, len(runs), acc - len(dr), r["states"], r["wall"]))


def replay_pipe(ctx, rp, path):
    clauses = C05_CLAUSES if ctx.pid == "C05" else C09_CLAUSES
    case = rp["case"]
    if case.get("mode") == "free":
        # a free-running execution is not reproducible; its recorded log is the evidence
        opath = ctx.path("replay-obs.ndjson")
        vlib.write_ndjson(opath, [rp["observation"]])
        fails, _, _ = vlib.judge(ctx, "Trace_PipeObs", opath, 1, workers=1)
        ctx.traces += 1
        for idx, why in fails:
            mine = [w for w in why if w in clauses]
            if mine:
                vlib.report(ctx, mine, rp["observation"], component="pipe", case=case, kind="schedule")
    elif case.get("mode") == "buffered":
        buffered_judge(ctx, [case], "replay", clauses)
    else:
        pipe_judge(ctx, [case], "replay", clauses)
    ctx.rule = "replay of " + path
    return vlib.finish(ctx)


@prop("C05")
def c05(ctx):
    q = ctx.quick()
    ctx.rule = ("MC: Pipe.tla for the listed (W, N) with all upstream lengths 0..N, every interleaving; "
                "A: an edge cover of each state graph replayed as controlled schedules on the real Pipe "
                "(one granted step per spec action, hooks at the schedule points); B: seeded random actor "
                "schedules (controlled, incl. steps into blocking sends) and free-running recorded runs. "
                "non-trivial = a run in which two workers are simultaneously between processing and turn hand-over")
    ctx.assumptions = ["SeqCst atomics and std::sync::mpsc are linearizable; the hooks serialise threads only at the schedule points",
                       "time-outs (5 s per step) only decide 'no progress'; such a verdict is re-run once and must be confirmed by free-running runs",
                       "thorough tier: the safety clauses are also derived from an inductive invariant checked by Apalache for every "
                       "upstream length and 2-4 workers (spec/apalache/PipeInd.tla, counters instead of sequences)"]
    if not q:
        pipe_induction(ctx)
    cases = []
    for (W, N) in ([(1, 2), (2, 2), (2, 3)] if q else [(1, 3), (2, 3), (3, 3), (2, 4)]):
        cases += pipe_paths(ctx, W, N, False, "nodrop-W%dN%d" % (W, N))
    # larger instances: design only (no replay)
    for (W, N) in ([(3, 3)] if q else [(3, 4), (4, 4)]):
        lens = "{" + ",".join(str(k) for k in range(N + 1)) + "}"
        vlib.mc(ctx, "Pipe", pipe_cfg(W, N, lens, drop="FALSE", props="Terminates"), name="Pipe-W%dN%d" % (W, N),
                disabled_ok=("Drop", "InstallHook"))
    # W = 0: the un-threaded branch is a lazy map
    cases += [{"mode": "controlled", "W": 0, "N": n, "sched": ["c"] * k, "blocking": False, "drain": True}
              for n in range(0, 5) for k in (0, 2)]
    pipe_judge(ctx, cases, "A", C05_CLAUSES)
    ctx.exhaustive = True
    rnd = ctx.path("cases-b.ndjson")
    vlib.harness(["gen", "pipe", ctx.seed, 600 if q else 6000, rnd])
    rc = [c for c in vlib.read_ndjson(rnd)]
    pipe_judge(ctx, rc, "B", C05_CLAUSES)
    # relative processing speed: one very slow item while the consumer waits in next() - the stream must not end early
    # (quick: 6.5 s, thorough: also 21 s; a consumer-side time-out below that is detected)
    slow = [{"mode": "free", "W": w, "N": 4, "seed": 3, "slow": 0.0, "slow_item": 1, "slow_ms": ms}
            for (w, ms) in ([(2, 6500)] if q else [(1, 6500), (2, 6500), (3, 21000)])]
    # ... and every position of a moderately slow item (250 ms, far beyond any spin / back-off) for small W x N:
    # the other workers run ahead, wait for their turn, see the upstream exhausted, while one item is still being processed
    slow += [{"mode": "free", "W": w, "N": n, "seed": 5, "slow": 0.0, "slow_item": k, "slow_ms": 250}
             for w in ((2, 3, 4) if q else (1, 2, 3, 4, 6)) for n in ((2, 4, 5) if q else (1, 2, 3, 4, 5, 7)) for k in range(n)]
    # a processing function that needs 1 MiB of stack (half of the default thread stack): the same map for 0 and more threads
    slow += [{"mode": "free", "W": w, "N": 5, "seed": 9, "slow": 0.0, "deep_kib": 1024} for w in ((0, 2) if q else (0, 1, 2, 4, 8))]
    pipe_judge(ctx, slow, "B-slow-item", C05_CLAUSES)
    # several pipes alive at once in one process (side by side / one feeding the other): each is a sequential map on its own
    multi = [{"mode": "multi", "W": w, "N": n, "pipes": k, "nested": nested, "seed": 40 + w}
             for w in ((1, 3) if q else (1, 2, 3, 4)) for n in ((7,) if q else (1, 7, 30)) for k in ((2,) if q else (2, 3))
             for nested in (False, True)]
    # more worker threads alive at once than the machine has cores (a shared fixed-size thread pool would starve the later pipes)
    multi += [{"mode": "multi", "W": 8, "N": 9, "pipes": 3, "nested": nested, "seed": 77} for nested in (False, True)]
    # ... with enough items that every worker of the earlier pipes is waiting (for its turn or for room in the channel) while
    # the consumer asks the last pipe for its first item: 24 and 40 workers that must all be running at the same time
    multi += [{"mode": "multi", "W": 8, "N": 40, "pipes": k, "nested": nested, "seed": 80 + k}
              for (k, nested) in ((3, False), (5, False), (3, True))]
    pipe_judge(ctx, multi, "B-multi", C05_CLAUSES, mech=False)
    # tens of thousands of items (tickets, turn counter and positions beyond 16 bits), without hooks and event log
    bulk = [{"mode": "bulk", "W": w, "N": n} for (w, n) in (((0, 66000), (3, 70000)) if q else ((0, 66000), (1, 70000), (3, 70000), (8, 140000)))]
    pipe_judge(ctx, bulk, "B-bulk", C05_CLAUSES, mech=False)


def buffered_cfg(N, cap, drain="FALSE", props="StopsAfterDrop"):
    return ("CONSTANTS N = %d Cap = %d DrainOnFail = %s\nSPECIFICATION Spec\n"
            "INVARIANTS InOrder Complete LookAhead AfterDrop\nPROPERTIES %s\nCHECK_DEADLOCK FALSE\n" % (N, cap, drain, props))


def buffered_paths(ctx, N, cap):
    import graph
    label = "buffered-N%dC%d" % (N, cap)
    dot = ctx.path(label + ".dot")
    r = vlib.tlc(ctx, "Buffered", buffered_cfg(N, cap), workers=2, name=label, coverage=True,
                 extra=["-dump", "dot,actionlabels", dot[:-4]])
    if not r["ok"]:
        raise ToolError("Buffered model checking failed:\n" + "\n".join(r["out"].splitlines()[-40:]))
    ctx.mc.append({"module": "Buffered", "config": "N=%d Cap=%d" % (N, cap), "distinct_states": r["states"],
                   "states_generated": r["generated"], "actions": vlib.action_coverage(r["out"])})
    ctx.states += r["states"]
    ctx.transitions += r["generated"]
    nodes, edges, inits = graph.parse_dot(dot)
    os.remove(dot)
    paths, ncov = graph.edge_cover_paths(edges, inits)
    tok = {"Pull": "p", "StartRecv": "c", "Drop": "x"}
    cases = [{"mode": "buffered", "ctl": "controlled", "cap": cap, "N": N,
              "sched": [tok[l] for l in labels if l in tok], "spec_path": labels} for _, labels in paths]
    ctx.extra["graph_edges_covered"] = ctx.extra.get("graph_edges_covered", 0) + ncov
    log("[paths] Buffered N=%d Cap=%d: %d states, %d edges, %d covering schedules" % (N, cap, len(nodes), len(edges), len(cases)))
    return cases


def buffered_mechanism(ctx, obs, obs_path, label, max_groups=12):
    """Trace_Buffered: every controlled run must be a behaviour of Buffered.tla (lazily placed sends and
    pending receives); its invariants are evaluated on every reconstructed state.  DRIFT otherwise."""
    import collections
    runs = [r for r in obs if r.get("st") == "ok" and r.get("ctl") == "controlled"]
    groups = collections.Counter((r["cap"], r["N"]) for r in runs)
    for (cap, n), cnt in groups.most_common(max_groups):
        cfg = ("CONSTANTS N = %d Cap = %d DrainOnFail = FALSE\nINIT TInit\nNEXT TNext\n"
               "INVARIANTS InOrder Complete LookAhead AfterDrop\nCHECK_DEADLOCK FALSE\n" % (n, cap))
        r = vlib.tlc(ctx, "Trace_Buffered", cfg, env={"OBS": obs_path}, workers=2, name="Trace_Buffered-%s-C%dN%d" % (label, cap, n))
        if not r["ok"]:
            import re
            m = re.search(r"Invariant (\w+) is violated", r["out"])
            if m:
                ctx.drift.append("%s Buffered cap=%d N=%d: invariant %s fails on a reconstructed state" % (label, cap, n, m.group(1)))
                continue
            raise ToolError("Trace_Buffered run failed:\n" + "\n".join(r["out"].splitlines()[-30:]))
        acc = sum(1 for p in r["prints"] if p[0] == "STAT")
        dr = [p for p in r["prints"] if p[0] == "DRIFT"]
        if acc != cnt:
            raise ToolError("Trace_Buffered consumed %d of %d runs (cap=%d N=%d)" % (acc, cnt, cap, n))
        ctx.states += r["states"]
        ctx.transitions += r["generated"]
        ctx.extra["mechanism_runs_accepted"] = ctx.extra.get("mechanism_runs_accepted", 0) + acc - len(dr)
        for p in dr:
            ctx.drift.append("%s Buffered cap=%d N=%d run %d not a behaviour of Buffered.tla at %s" % (label, cap, n, p[1], p[2]))
    log("[trace] Trace_Buffered %s: %d groups (cap, N), %d controlled runs" % (label, min(len(groups), max_groups), sum(c for _, c in groups.most_common(max_groups))))


def buffered_judge(ctx, cases, label, clauses, mech=True):
    cpath = ctx.path("cases-%s.ndjson" % label)
    vlib.write_ndjson(cpath, cases)
    obs_path = ctx.path("obs-%s.ndjson" % label)
    vlib.harness(["exec", "buffered", cpath, obs_path, 60000])
    obs = vlib.read_ndjson(obs_path)
    fails, drifts, st = vlib.judge(ctx, "Trace_PipeObs", obs_path, len(obs), name="Trace_PipeObs-" + label)
    ctx.traces += len(obs)
    ctx.evaluations += len(obs)
    ctx.nontrivial += st["nt"]
    for idx, why in fails:
        rec = obs[idx - 1]
        mine = [w for w in why if w in clauses or w.startswith("harness") or w in ("hang", "process_exit")]
        if not mine:
            continue
        if set(mine) <= TIMING_CLAUSES:
            c2 = ctx.path("rerun-b.ndjson")
            o2 = ctx.path("rerun-b-obs.ndjson")
            vlib.write_ndjson(c2, [rec["case"]])
            vlib.harness(["exec", "buffered", c2, o2, 60000])
            f2, _, _ = vlib.judge(ctx, "Trace_PipeObs", o2, 1, name="Trace_PipeObs-rerun", workers=1)
            if not f2 or not (set(f2[0][1]) & set(mine)):
                ctx.extra["timing_retries"] = ctx.extra.get("timing_retries", 0) + 1
                continue
        vlib.report(ctx, mine, rec, component="pipe", case=rec["case"], kind="schedule")
    if mech:
        buffered_mechanism(ctx, obs, obs_path, label)
    okobs = [r for r in obs if r.get("st") == "ok"]
    if okobs and len(ctx.samples) < 6:
        r = okobs[len(okobs) // 3]
        ctx.samples.append({"source": label, "cap": r["cap"], "N": r["N"], "ctl": r["ctl"],
                            "schedule": r.get("sched", [])[:60],
                            "events": ["%s(%s)" % (e["e"], e["x"]) for e in r["ev"][:60]]})
    return obs


def child_panic_runs(ctx, combos):
    """C09 panic clause: real child processes (the library's panic hook calls process::exit)."""
    import subprocess
    vlib.build_harness()
    recs = []
    for combo in combos:
        (W, N, fail) = combo[:3]
        delay, prior = (combo[3], combo[4]) if len(combo) > 3 else (0, 0)
        try:
            p = subprocess.run([vlib.harness_bin(), "child-panic", str(W), str(N), str(fail), str(delay), str(prior)],
                               stdout=subprocess.PIPE, stderr=subprocess.PIPE, text=True, timeout=10)
            ex = "code:%d" % p.returncode
        except subprocess.TimeoutExpired:
            ex = "hang"
        recs.append({"st": "ok", "mode": "child", "W": W, "N": N, "cap": W, "fail": fail, "exit": ex, "ev": [],
                     "acts": [], "path": [], "drained": True,
                     "case": {"mode": "child", "W": W, "N": N, "fail": fail, "delay_ms": delay, "prior": prior}})
    opath = ctx.path("obs-child.ndjson")
    vlib.write_ndjson(opath, recs)
    fails, _, st = vlib.judge(ctx, "Trace_PipeObs", opath, len(recs), name="Trace_PipeObs-child", workers=2)
    ctx.traces += len(recs)
    ctx.evaluations += len(recs)
    ctx.nontrivial += st["nt"]
    for idx, why in fails:
        vlib.report(ctx, why, recs[idx - 1], component="pipe", case=recs[idx - 1]["case"], kind="child-panic")
    ctx.samples.append({"source": "child-panic", "runs": [[r["W"], r["N"], r["fail"], r["exit"]] for r in recs[:8]]})


@prop("C09")
def c09(ctx):
    q = ctx.quick()
    ctx.rule = ("MC: Pipe.tla with Drop at every point and with a panicking item (negative control: no panic hook), "
                "Buffered.tla for capacities 0..2 (negative control: producer ignores the send error); "
                "A: edge covers of the Pipe-with-drop and Buffered state graphs replayed on the real code; "
                "B: random controlled schedules with drops, free-running drop/abandon runs incl. an effectively "
                "unbounded upstream, child processes with a panicking item. non-trivial = drop while a worker is "
                "active / look-ahead bound reached / child run")
    ctx.assumptions = ["exit of background threads is observed through the drop of the upstream iterator",
                       "a hang is declared after 1.5 s (controlled step), 3 s (producer exit) or 10 s (child process) for work of microseconds; timing-only verdicts are re-run once"]
    if not q:
        pipe_induction(ctx)
        buffered_induction(ctx)
    # design: panic with / without the hook
    for (W, N) in ([(2, 3)] if q else [(2, 4), (3, 4)]):
        lens = "{%d}" % N
        vlib.mc(ctx, "Pipe", pipe_cfg(W, N, lens, fail="{1}", hook="TRUE", drop="FALSE", invs="TypeOK InOrder AtMostOnce", props="NoWedge"),
                name="Pipe-panic-hook-W%dN%d" % (W, N), disabled_ok=("Drop", "End", "InstallHook"))
        vlib.mc(ctx, "Pipe", pipe_cfg(W, N, lens, fail="{1}", hook="FALSE", drop="FALSE", invs="TypeOK", props="NoWedge"),
                name="Pipe-panic-nohook-W%dN%d" % (W, N), expect_violation="NoWedge", coverage=False)
        vlib.mc(ctx, "Pipe", pipe_cfg(W, N, lens, fail="{1}", hook="TRUE", drop="FALSE", invs="TypeOK", props="NoWedge", late="TRUE"),
                name="Pipe-panic-latehook-W%dN%d" % (W, N), expect_violation="NoWedge", coverage=False)
    # the hook has to outlive the workers: item N-2 fails while the holder of N-1 waits for its turn and a third worker
    # has already found the upstream exhausted
    for (W, N) in ([(3, 3)] if q else [(3, 3), (3, 4)]):
        lens = "{%d}" % N
        vlib.mc(ctx, "Pipe", pipe_cfg(W, N, lens, fail="{%d}" % (N - 2), hook="TRUE", drop="FALSE", invs="TypeOK", props="NoWedge",
                                      fragile="TRUE"),
                name="Pipe-panic-fragilehook-W%dN%d" % (W, N), expect_violation="NoWedge", coverage=False)
        vlib.mc(ctx, "Pipe", pipe_cfg(W, N, lens, fail="{%d}" % (N - 2), hook="TRUE", drop="FALSE", invs="TypeOK InOrder AtMostOnce",
                                      props="NoWedge"),
                name="Pipe-panic-late-item-W%dN%d" % (W, N), disabled_ok=("Drop", "End", "InstallHook"))
    # look-ahead bound is independent of the upstream length
    for N in ([4, 6] if q else [4, 6, 8]):
        vlib.mc(ctx, "Pipe", pipe_cfg(2, N, "{%d}" % N, props="StopsAfterDrop"), name="Pipe-drop-W2N%d" % N, disabled_ok=("InstallHook",))
    cases = []
    for (W, N) in ([(1, 2), (2, 2)] if q else [(1, 3), (2, 3), (3, 2)]):
        cases += pipe_paths(ctx, W, N, True, "drop-W%dN%d" % (W, N))
    pipe_judge(ctx, cases, "A-pipe", C09_CLAUSES)
    # Buffered
    bcases = []
    for cap in (0, 1, 2):
        vlib.mc(ctx, "Buffered", buffered_cfg(3, cap, drain="TRUE"), name="Buffered-neg-C%d" % cap,
                expect_violation="AfterDrop|LookAhead", coverage=False)
        bcases += buffered_paths(ctx, 3 if q else 5, cap)
    buffered_judge(ctx, bcases, "A-buffered", C09_CLAUSES)
    ctx.exhaustive = True
    rnd = ctx.path("cases-b.ndjson")
    vlib.harness(["gen", "pipe", ctx.seed + 7, 500 if q else 5000, rnd])
    pipe_judge(ctx, vlib.read_ndjson(rnd), "B-pipe", C09_CLAUSES)
    vlib.harness(["gen", "buffered", ctx.seed + 11, 300 if q else 3000, rnd])
    buffered_judge(ctx, vlib.read_ndjson(rnd), "B-buffered", C09_CLAUSES)
    # long upstream, idle consumer: look-ahead that grows with the input length (e.g. an unbounded channel) shows here,
    # whatever the constant of the implementation is
    idle = [{"mode": "free", "W": w, "N": 800, "seed": 21 + w, "slow": 0.0, "drop_after": k, "idle_ms": 80}
            for w in ((1, 4) if q else (1, 2, 3, 4, 8)) for k in ((0, 6) if q else (0, 1, 6, 30))]
    # a consumer that is slower than the workers, over hundreds of items, then idle and gone: the look-ahead stays bounded
    idle += [{"mode": "free", "W": w, "N": 800, "seed": 31 + w, "slow": 1.0, "drop_after": 300, "idle_ms": 40} for w in ((4,) if q else (2, 4, 8))]
    pipe_judge(ctx, idle, "B-idle", C09_CLAUSES, mech=False)
    # many threads: the hook must already be in place when the first worker starts
    combos = [(1, 4, 0), (2, 5, 2), (4, 6, 5), (16, 64, 0), (32, 64, 0), (64, 200, 1)] if q else [(64, 300, 0), (48, 100, 0)] + [(w, n, f) for w in (1, 2, 4) for n in (3, 8) for f in (0, n // 2, n - 1)]
    # (W, N, fail, delay before the panic in ms, prior): the failing item is still being processed while other workers
    # already found the upstream exhausted (last items, fewer items than workers), or an earlier pipe of the same process has
    # run to completion (prior = 1): the hook must still end the process
    # prior = 2: between the earlier pipe and this one train_bpe has installed its own panic hook
    # prior = 4: another pipe is built first and is still alive when the failing one is built; the older one is dropped first
    # (not in the order of a stack), then the failing item is reached
    # prior = 3: the failing pipe is built first and partly consumed, then a one-thread pipe is built and consumed (it re-installs
    # the process-wide hook), then the first pipe is continued up to its failing item
    combos += [(4, 2, 0, 60, 0), (3, 6, 4, 60, 0), (4, 9, 7, 60, 0), (2, 6, 3, 0, 1), (4, 3, 1, 40, 1), (2, 6, 3, 0, 2), (1, 4, 1, 0, 2), (4, 30, 22, 0, 3), (3, 30, 25, 30, 3), (2, 8, 5, 0, 4), (3, 6, 2, 30, 4)] if q else \
        [(w, n, f, d, pr) for w in (1, 2, 3, 4, 8) for n in (2, 5, 9) for f in (0, n - 2, n - 1) for d in (0, 60) for pr in (0, 1, 2)] + \
        [(w, 40, f, d, 3) for w in (2, 3, 4, 8) for f in (30, 39) for d in (0, 30)] + \
        [(w, n, f, d, 4) for w in (1, 2, 4) for n in (3, 9) for f in (0, n - 1) for d in (0, 40)]
    child_panic_runs(ctx, combos)


# ---------------------------------------------------------------------------
def multigen_induction(ctx):
    """Apalache: inductive invariant of MultiGen (spec/apalache/MultiGenInd.tla) for three sources of arbitrary lengths and the
    three strategies: no source is read beyond its end, the stream ends only when every item was handed out, the re-selection
    never hangs; negative controls: the re-selection of the pinned commit breaks it, 'the stream never ends' is refuted."""
    vlib.apalache(ctx, "MultiGenInd", "ConstInit", "Init", "IndInv", 0)
    vlib.apalache(ctx, "MultiGenInd", "ConstInit", "IndInit", "IndInv", 1)
    vlib.apalache(ctx, "MultiGenInd", "ConstInit", "IndInit", "Safety", 0)
    vlib.apalache(ctx, "MultiGenInd", "ConstInit", "IndInit", "IndInv", 1, nxt="BadNext", expect_error=True)
    vlib.apalache(ctx, "MultiGenInd", "ConstInit", "Init", "FalseInv", 8, expect_error=True)


@prop("C07", "multigen", "Trace_MultiGen")
def c07(ctx):
    q = ctx.quick()
    ms, ml = (3, 3) if q else (4, 4)
    ctx.rule = ("MC: MultiGen.tla, all length vectors with <=%d sources and lengths 0..%d, 3 strategies, every "
                "weighted choice; negative control: the re-selection of the pinned commit hangs; thorough tier: inductive invariant checked "
                "with Apalache for three sources of arbitrary lengths (spec/apalache/MultiGenInd.tla). A: every such vector "
                "run through the real generator (in-memory sources), complete iteration under a watchdog, twice per seed; "
                "B: random vectors up to 6 sources x lengths 0..9. non-trivial = >=2 sources with different lengths" % (ms, ml))
    ctx.assumptions = ["a next() call that does not return within the per-case time-out (30 s) is a hang (the work is microseconds)"]
    for st in ("sequential", "interleaved", "weighted"):
        cfg = ('CONSTANTS MaxSrc = %d MaxLen = %d Strategy = "%s" Buggy = FALSE\nSPECIFICATION Spec\n'
               'INVARIANTS OrderInv StrategyInv DoneInv NoHang CompressInv\nPROPERTIES Terminates\nCHECK_DEADLOCK FALSE\n'
               % (ms if st != "weighted" else 3, ml, st))
        vlib.mc(ctx, "MultiGen", cfg, name="MultiGen-" + st)
    neg = ('CONSTANTS MaxSrc = 2 MaxLen = 2 Strategy = "interleaved" Buggy = TRUE\nSPECIFICATION Spec\n'
           'INVARIANTS NoHang\nCHECK_DEADLOCK FALSE\n')
    vlib.mc(ctx, "MultiGen", neg, name="MultiGen-neg", expect_violation="NoHang", coverage=False)
    if not q:
        multigen_induction(ctx)
    gcfg = "CONSTANTS MaxSrc = %d MaxLen = %d\nINIT Init\nNEXT Next\nCHECK_DEADLOCK FALSE\n" % (ms, ml)
    cases, n = vlib.tlc_generate(ctx, "Gen_MultiGen", gcfg, "cases-a.ndjson")
    keys = ["lens", "strategy", "seed", "out", "ended", "st"]
    vlib.exec_and_judge(ctx, "multigen", cases, "Trace_MultiGen", "A", sample_keys=keys)
    ctx.exhaustive = True
    rnd = ctx.path("cases-b.ndjson")
    vlib.harness(["gen", "multigen", ctx.seed, 1500 if q else 60000, rnd])
    vlib.exec_and_judge(ctx, "multigen", rnd, "Trace_MultiGen", "B", sample_keys=keys)


# ---------------------------------------------------------------------------
@prop("C06", "batched", "Trace_Batched")
def c06(ctx):
    q = ctx.quick()
    mn = 4 if q else 5
    ctx.rule = ("MC: Batched.tla, all size sequences up to length 4 over {0,1,2,4} x limit 1..5 x prefetch 1..2 x 2 limit types "
                "x 4 modes, every permutation / window choice of the shuffled modes; A: the same space (length <=%d, raw limit "
                "and prefetch from 0) and all window-search inputs replayed on the real iterator, twice per seed; B: random "
                "runs up to 40 items. non-trivial = >=2 batches, one with >1 item" % mn)
    ctx.assumptions = ["the shuffle buffer is a bag in the spec (the code re-shuffles it on every call)"]
    cfg = ("CONSTANTS SizeSet = {0,1,2,4} MaxN = 4 MaxLimit = 5 MaxPf = 2\nSPECIFICATION Spec\n"
           "INVARIANTS NoLoss LimitInv PlainInv DoneInv SubseqInv\nPROPERTIES Terminates\nCHECK_DEADLOCK FALSE\n")
    vlib.mc(ctx, "Batched", cfg, name="Batched", workers=8)
    gcfg = "CONSTANTS SizeSet = {0,1,2,4} MaxN = %d MaxLimit = 5 MaxPf = 2\nINIT Init\nNEXT Next\nCHECK_DEADLOCK FALSE\n" % mn
    cases, n = vlib.tlc_generate(ctx, "Gen_Batched", gcfg, "cases-a.ndjson")
    keys = ["kind", "sizes", "sort", "shuffle", "pf", "limit", "ltype", "batches", "windows"]
    vlib.exec_and_judge(ctx, "batched", cases, "Trace_Batched", "A", sample_keys=keys)
    ctx.exhaustive = True
    rnd = ctx.path("cases-b.ndjson")
    vlib.harness(["gen", "batched", ctx.seed, 3000 if q else 30000, rnd])
    vlib.exec_and_judge(ctx, "batched", rnd, "Trace_Batched", "B", sample_keys=keys)


# ---------------------------------------------------------------------------
# C01 / C02 / C03 / C04 / C17: tokenizers (one harness component, one trace spec; every
# clause name carries its property, a check reports only its own clauses)

def tok_cfg(maxlen, nb, maxtab, maxtoks, padtos):
    return ("CONSTANTS MaxLen = %d NB = %d MaxTab = %d MaxEntry = 4 MaxToks = %d PadTos = %s\n"
            "INIT Init\nNEXT Next\nCHECK_DEADLOCK FALSE\n" % (maxlen, nb, maxtab, maxtoks, padtos))


def tok_judge(ctx, cases_path, label, prefixes, keep=lambda c: True, extra_case=None, judge_timeout=1500):
    """cases -> real tokenizers -> Trace_Tok; report the clauses of this property only."""
    cases = [c for c in vlib.read_ndjson(cases_path) if keep(c)]
    if extra_case:
        for c in cases:
            c.update(extra_case)
    cpath = ctx.path("cases-%s.ndjson" % label)
    vlib.write_ndjson(cpath, cases)
    obs_path = ctx.path("obs-%s.ndjson" % label)
    vlib.harness(["exec", "tok", cpath, obs_path, 60000])
    obs = vlib.read_ndjson(obs_path)
    fails, drifts, st = vlib.judge(ctx, "Trace_Tok", obs_path, len(obs), name="Trace_Tok-" + label, timeout=judge_timeout)
    ntexts = sum(len(o.get("texts", [])) for o in obs)
    ctx.traces += len(obs)
    ctx.evaluations += ntexts + len(obs)
    ctx.nontrivial += st["nt"]
    ctx.skipped += st["skip"]
    for idx, why in fails:
        rec = obs[idx - 1]
        mine = [w for w in why if w.split(":")[0] in prefixes or ":" not in w or w.split(":")[0] in ("panic", "err", "hang", "harness_panic", "process_exit", "notrun", "history_dependent")]
        if mine:
            slim = {k: v for k, v in rec.items() if k not in ("vocab", "i2t", "t2i", "utf8", "dec1", "extras", "texts")}
            slim["texts"] = rec.get("texts", [])[:3]
            vlib.report(ctx, mine, slim, component="tok", case=rec["case"])
    for idx, why in drifts:
        ctx.drift.append("%s record %d: %s" % (label, idx, why))
    if obs and len(ctx.samples) < 6:
        o = obs[len(obs) // 2]
        t = o.get("texts", [{}])
        t = t[len(t) // 2] if t else {}
        ctx.samples.append({"source": label, "kind": o.get("kind"), "special": o["case"].get("special"),
                            "text": t.get("s"), "ids": t.get("ids"), "vocab_size": o.get("vs")})
    return obs


def tok_replay(ctx, rp, prefixes):
    cpath = ctx.path("replay-cases.ndjson")
    vlib.write_ndjson(cpath, [rp["case"]])
    tok_judge(ctx, cpath, "replay", prefixes)


TOK_ASSUME = ["unicode-segmentation (grapheme boundaries), char::is_whitespace and UTF-8 encoding define the view (trusted)",
              "special-token sets are prefix-free and spelled in ASCII brackets; texts in which two spellings match at one place are skipped and counted",
              "cluster boundaries inside a regular segment = whole-string boundaries plus the segment start"]


@prop("C01", "tok", "Trace_Tok")
def c01(ctx):
    q = ctx.quick()
    ml = 3 if q else 4
    ctx.rule = ("A: TLC enumerates all texts up to length %d over the 8 slots {a, a-umlaut, e+combining acute, space, <, p, >, emoji} "
                "(every near miss of <p> occurs) x byte configs (graphemes, groups, pad_to, 4 prefix/suffix shapes) and char configs; "
                "B: random real strings (CRLF, ZWJ emoji, flags, combining marks, NBSP, special tokens and their fragments). "
                "non-trivial = a text with a special-token occurrence or a multi-byte character. MC: the scanner and encoders are "
                "functional specs (Tok.tla); their design-level check is the exhaustive replay itself" % ml)
    ctx.assumptions = TOK_ASSUME
    cases, n = vlib.tlc_generate(ctx, "Gen_Tok", tok_cfg(ml, 2, 1, 3, "{0}"), "gen-text.ndjson", env={"FAMILY": "text"})
    tok_judge(ctx, cases, "A", {"C01"})
    tok_long(ctx, {"C01"})
    ctx.exhaustive = True
    rnd = ctx.path("rnd.ndjson")
    vlib.harness(["gen", "tok", ctx.seed, 240 if q else 3000, rnd])
    tok_judge(ctx, rnd, "B", {"C01"}, keep=lambda c: c["kind"] in ("byte", "char"))


@prop("C17", "tok", "Trace_Tok")
def c17(ctx):
    q = ctx.quick()
    ml = 3 if q else 4
    ctx.rule = ("A: byte-tokenizer configs x all texts up to length %d over the 8 tokenizer slots: token groups compared with "
                "Tok!ByteGroups; batches of enumerated groupings through token_groups_to_sparse_coo_matrix and padding (Trace_Coo); "
                "B: random real strings and random batches. non-trivial = multi-byte / special-token text, batch with >=2 items" % ml)
    ctx.assumptions = TOK_ASSUME
    cases, n = vlib.tlc_generate(ctx, "Gen_Tok", tok_cfg(ml, 2, 1, 3, "{0}"), "gen-text.ndjson", env={"FAMILY": "text"})
    tok_judge(ctx, cases, "A", {"C17"}, keep=lambda c: c["kind"] == "byte")
    ctx.exhaustive = True
    rnd = ctx.path("rnd.ndjson")
    vlib.harness(["gen", "tok", ctx.seed + 3, 240 if q else 3000, rnd])
    tok_judge(ctx, rnd, "B", {"C17"}, keep=lambda c: c["kind"] == "byte")
    # one group per character also on texts of more than 65 535 bytes (CR LF across byte 65536)
    tok_long(ctx, {"C17"})
    coo_runs(ctx)


def bpe_design(ctx):
    q = ctx.quick()
    cfg = ("CONSTANTS NB = 2 MaxTab = 3 MaxWord = %d MaxEntry = 4\nSPECIFICATION Spec\n"
           "INVARIANTS Lossless TokensKnown FixedPoint SingleIsEntry\nPROPERTY Terminates\nCHECK_DEADLOCK FALSE\n" % (5 if q else 6))
    vlib.mc(ctx, "MC_Bpe", cfg, name="MC_Bpe")


def bpe_runs(ctx, prefixes):
    q = ctx.quick()
    # (all tables <= 3 entries over 2 byte slots) x (all texts up to length 4 over {ws, slot 1, slot 2}); a longer text bound
    # multiplies the judged encodings (3368 configurations x 364 texts at length 5) beyond a useful run time
    cases, n = vlib.tlc_generate(ctx, "Gen_Tok", tok_cfg(3 if q else 4, 2, 3, 3, "{0}"), "gen-bpe.ndjson", env={"FAMILY": "bpe"})
    tok_judge(ctx, cases, "A-ab", prefixes)
    # tables made of substrings of one word: consistent merge histories and competing ones (4 entries, 5 bytes)
    sub, n = vlib.tlc_generate(ctx, "Gen_Tok", tok_cfg(4, 2, 4 if q else 5, 3, "{0}"), "gen-bpesub.ndjson", env={"FAMILY": "bpesub"})
    tok_judge(ctx, sub, "A-sub", prefixes)
    if not q:
        cases3, n = vlib.tlc_generate(ctx, "Gen_Tok", tok_cfg(3, 3, 2, 3, "{0}"), "gen-bpe3.ndjson", env={"FAMILY": "bpe"})
        tok_judge(ctx, cases3, "A-umlaut", prefixes, extra_case={"balpha": "umlaut"})
    ctx.exhaustive = True
    tok_long(ctx, prefixes)
    rnd = ctx.path("rnd.ndjson")
    vlib.harness(["gen", "tok", ctx.seed + 5, 600 if q else 6000, rnd])
    tok_judge(ctx, rnd, "B", prefixes, keep=lambda c: c["kind"] == "bpe")


def tok_long(ctx, prefixes):
    """Inputs longer than 65 535 bytes (positions that do not fit into 16 bits), with and without whitespace (runs of two
    whitespace characters, CR LF, blank lines; never at the end of the text, where BPE drops it by design)."""
    tab = ["ab", "ac", "gt", "ta", "cg", "acgt"]
    cases = [{"kind": "long", "pattern": pat, "repeat": rep, "tab": tab}
             for (pat, rep) in (("ba", 35000), ("cgta", 17500), ("\t ab  cg\r\nta \n\nacgt", 3500), ("\r\na", 25000), ("tacg", 17500), ("ab cg ta", 9000), ("ä", 33000))]
    # ("\r\na": CR LF lies across byte 65536 - one character, one group)
    # a chain of merges up to 128 bytes (token lengths beyond 63): a^2, a^4, ..., a^128 on words of 64-200 letters
    chain = ["a" * (2 ** k) for k in range(1, 8)]
    cases.insert(0, {"kind": "long", "pattern": " " + "a" * 64 + " " + "a" * 200 + " " + "a" * 128, "repeat": 3, "tab": chain})
    cpath = ctx.path("cases-long.ndjson")
    vlib.write_ndjson(cpath, cases if not ctx.quick() else cases[:5])
    tok_judge(ctx, cpath, "long", prefixes)


BPE_RULE = ("MC: the merge machine (one MergeStep per transition) for all well-formed tables <=3 entries over 2 byte symbols x all "
            "words up to 5/6 bytes: lossless in every state, terminates, fixed point = MergeFix; A: the same tables x all texts up "
            "to length 3/4 over {ws, a, b}, and for 5 words of 4-5 bytes every well-formed table of up to 4/5 entries made of substrings "
            "of the word (consistent merge histories and competing ones) applied to w, ' ' w and ww (thorough: 3 byte slots C3 A4 61, valid UTF-8 only, so merges cross character boundaries) "
            "x max_vocab_size truncations x prefix/suffix; B: random well-formed tables of depth >=2 with up to 40 competing entries "
            "x random texts with whitespace structure. non-trivial = a text on which at least two merges apply")


@prop("C02", "tok", "Trace_Tok")
def c02(ctx):
    ctx.rule = BPE_RULE
    ctx.assumptions = TOK_ASSUME + ["tables that are not well-formed after truncation are skipped and counted"]
    bpe_design(ctx)
    bpe_runs(ctx, {"C02"})


@prop("C03", "tok", "Trace_Tok")
def c03(ctx):
    ctx.rule = BPE_RULE
    ctx.assumptions = TOK_ASSUME + ["the code's heap with lazy deletion is modelled as 'pop the minimum valid candidate' (named deviation)"]
    bpe_design(ctx)
    bpe_runs(ctx, {"C03"})


@prop("C04", "tok", "Trace_Tok")
def c04(ctx):
    q = ctx.quick()
    ctx.rule = ("A: TLC enumerates special-token lists (length <=%d, duplicates, every position of <pad>) x prefix/suffix x "
                "pad_to_multiple_of in %s for byte and char tokenizers, and all well-formed merge tables <=3 entries x every "
                "max_vocab_size truncation for BPE; the real tokenizer is interrogated on every id in [0, vocab_size+16) and every "
                "UTF-8 token; B: random configurations. non-trivial = configuration with duplicates / padding tokens / merges"
                % ((3, "{0,2,128}") if q else (4, "{0,2,128,512}")))
    ctx.assumptions = TOK_ASSUME + ["single-id decoding is only demanded for tokens that are valid UTF-8 (the API returns a String)"]
    cases, n = vlib.tlc_generate(ctx, "Gen_Tok", tok_cfg(2, 2, 1, 3 if q else 4, "{0, 2, 128}" if q else "{0, 2, 128, 512}"),
                                 "gen-vocab.ndjson", env={"FAMILY": "vocab"})
    tok_judge(ctx, cases, "A-vocab", {"C04"})
    casesb, n = vlib.tlc_generate(ctx, "Gen_Tok", tok_cfg(2, 2, 3, 3, "{0}"), "gen-bpe.ndjson", env={"FAMILY": "bpe", "LOWMV": "1"})
    tok_judge(ctx, casesb, "A-bpe", {"C04"})
    ctx.exhaustive = True
    rnd = ctx.path("rnd.ndjson")
    vlib.harness(["gen", "tok", ctx.seed + 9, 300 if q else 3000, rnd])
    tok_judge(ctx, rnd, "B", {"C04"})


def coo_runs(ctx):
    q = ctx.quick()
    gcfg = "CONSTANTS MaxLen = %d MaxBatch = %d\nINIT Init\nNEXT Next\nCHECK_DEADLOCK FALSE\n" % ((1, 2) if q else (2, 2))
    cases, n = vlib.tlc_generate(ctx, "Gen_Coo", gcfg, "cases-coo.ndjson")
    keys = ["texts", "lengths", "groups", "coo", "mask"]
    vlib.exec_and_judge(ctx, "coo", cases, "Trace_Coo", "A-coo", sample_keys=keys)
    rnd = ctx.path("cases-coo-b.ndjson")
    vlib.harness(["gen", "coo", ctx.seed, 1500 if q else 20000, rnd])
    vlib.exec_and_judge(ctx, "coo", rnd, "Trace_Coo", "B-coo", sample_keys=keys)


# ---------------------------------------------------------------------------
def count_reduce_mc(ctx, combos):
    for (W, L, cap) in combos:
        cfg = ("CONSTANTS W = %d L = %d Cap = %d\nSPECIFICATION Spec\nINVARIANTS AtMostOnce ExactlyOnceAtEnd\n"
               "PROPERTY Terminates\nCHECK_DEADLOCK FALSE\n" % (W, L, cap))
        vlib.mc(ctx, "CountReduce", cfg, name="CountReduce-W%dL%dC%d" % (W, L, cap), disabled_ok=("Reduce",) if cap == 0 else ())


@prop("C19", "bpetrain", "Trace_BpeTrain")
def c19(ctx):
    q = ctx.quick()
    ctx.rule = ("MC: every behaviour of the greedy machine BpeTrain.tla for corpora of <=3 distinct words from an 8-word pool "
                "(repeats inside words, overlaps, exhaustible) x frequencies 1..2 x 0..5 requested merges (invariants: no duplicate "
                "entry, table well-formed, at most the requested merges; termination; negative control: merging zero-frequency pairs); "
                "CountReduce.tla for the counting threads; A: TLC-enumerated corpora materialised as files, real train_bpe with "
                "num_threads 0/1/3, every written table validated as a behaviour of the spec (tie choice and split searched by TLC), "
                "then loaded into a real BPETokenizer and checked with the C02/C04 clauses; B: random corpora. "
                "non-trivial = >=2 merges or corpus exhausted before the requested number")
    ctx.assumptions = ["corpora use ASCII letters and single spaces, so that clean/NFKC/word splitting are the identity on the view",
                       "pair frequency = number of adjacent positions (overlapping counted) x word count"]
    mcfg = ("CONSTANTS Words <- MCWords MaxDistinct = %d MaxFreqC = 2 MaxMerges = 5 AllowZero = %s\nSPECIFICATION Spec\n"
            "INVARIANTS NoDuplicates WellFormedTable AtMostRequested WordsIntact\nPROPERTY Terminates\nCHECK_DEADLOCK FALSE\n")
    vlib.mc(ctx, "MC_BpeTrain", mcfg % (2 if q else 3, "FALSE"), name="BpeTrain", disabled_ok=("ZeroStep",))
    vlib.mc(ctx, "MC_BpeTrain", mcfg % (2, "TRUE"), name="BpeTrain-neg", expect_violation="NoDuplicates", coverage=False)
    count_reduce_mc(ctx, [(2, 3, 2), (3, 4, 3)] if q else [(2, 4, 2), (3, 4, 3), (4, 5, 4)])
    gcfg = "CONSTANTS MaxDistinct = %d MaxFreqC = 2 MaxMerges = %d\nINIT Init\nNEXT Next\nCHECK_DEADLOCK FALSE\n" % ((2, 4) if q else (3, 5))
    cases, n = vlib.tlc_generate(ctx, "Gen_BpeTrain", gcfg, "cases-a.ndjson")
    keys = ["corpus", "num_merges", "threads", "tab"]
    obs_a, _, _ = vlib.exec_and_judge(ctx, "bpetrain", cases, "Trace_BpeTrain", "A", sample_keys=keys, per_case_timeout_ms=20000)
    ctx.exhaustive = True
    rnd = ctx.path("cases-b.ndjson")
    vlib.harness(["gen", "bpetrain", ctx.seed, 1500 if q else 15000, rnd])
    obs_b, _, _ = vlib.exec_and_judge(ctx, "bpetrain", rnd, "Trace_BpeTrain", "B", sample_keys=keys, per_case_timeout_ms=20000)
    # a tokenizer built from the trained table satisfies the lossless / vocabulary properties
    seen, tcases = set(), []
    for o in obs_a + obs_b:
        if o.get("st") != "ok" or not o["tab"]:
            continue
        key = json.dumps(o["tab"])
        if key in seen:
            continue
        seen.add(key)
        texts = []
        words = [bytes(c["b"]).decode() for c in o["corpus"]]
        texts = words + ["".join(words), " ".join(w.strip() for w in words) + "  ", "", " "]
        tcases.append({"kind": "bpe", "special": {"tokens": ["<pad>", "<b>"], "pad": "<pad>", "prefix": ["<b>"], "suffix": []},
                       "g": False, "unk": "<u>", "max_vocab": 0, "tab": [e["b"] for e in o["tab"]],
                       "tab_ids": [e["id"] for e in o["tab"]], "texts": texts})
        if len(tcases) >= (400 if q else 2000):
            break
    tpath = ctx.path("cases-tok.ndjson")
    vlib.write_ndjson(tpath, tcases)
    tok_judge(ctx, tpath, "trained-tables", {"C02", "C04"}, judge_timeout=1500 if q else 4000)


# ---------------------------------------------------------------------------
# C10 / C11 / C14: whitespace functions (component "ws", Trace_Ws, Gen_Ws)

def ws_judge(ctx, cases_path, label, prefix):
    obs_path = ctx.path("obs-%s.ndjson" % label)
    vlib.harness(["exec", "ws", cases_path, obs_path, 60000])
    obs = vlib.read_ndjson(obs_path)
    fails, drifts, st = vlib.judge(ctx, "Trace_Ws", obs_path, len(obs), name="Trace_Ws-" + label)
    ctx.traces += len(obs)
    ctx.evaluations += len(obs)
    ctx.nontrivial += st["nt"]
    ctx.skipped += st["skip"]
    for idx, why in fails:
        rec = obs[idx - 1]
        mine = [w for w in why if w.split(":")[0] == prefix or w.split(":")[0] in ("panic", "err", "hang", "harness_panic", "process_exit", "notrun", "history_dependent")]
        if mine:
            vlib.report(ctx, mine, rec, component="ws", case=rec["case"])
    for idx, why in drifts:
        ctx.drift.append("%s record %d: %s" % (label, idx, why))
    if obs and len(ctx.samples) < 6:
        o = obs[len(obs) // 2]
        ctx.samples.append({"source": label, "observation": {k: o.get(k) for k in
                            ("kind", "g", "s", "from", "to", "ops", "text", "out", "clean", "wb", "iw", "dw") if k in o}})
    return obs


def ws_gen(ctx, family, maxlen):
    cfg = "CONSTANTS MaxLen = %d\nINIT Init\nNEXT Next\nCHECK_DEADLOCK FALSE\n" % maxlen
    path, n = vlib.tlc_generate(ctx, "Gen_Ws", cfg, "gen-%s.ndjson" % family, env={"FAMILY": family})
    return path


def ws_random(ctx, kinds, n, label, prefix, seed_off=0):
    rnd = ctx.path("rnd-%s.ndjson" % label)
    vlib.harness(["gen", "ws", ctx.seed + seed_off, n, rnd])
    cases = [c for c in vlib.read_ndjson(rnd) if c["kind"] in kinds]
    vlib.write_ndjson(rnd, cases)
    return ws_judge(ctx, rnd, label, prefix)


def ws_mc(ctx):
    cfg = ("CONSTANTS MaxLen = %d\nSPECIFICATION Spec\nINVARIANTS CleanIsNormalForm OpsRepairInverse RepairOnlyWhitespace "
           "CorruptionRepairable\nCHECK_DEADLOCK FALSE\n" % (4 if ctx.quick() else 5))
    vlib.mc(ctx, "MC_Ws", cfg, name="MC_Ws", workers=8)


WS_ASSUME = ["unicode-segmentation / char::is_whitespace define the view (trusted)",
             "grapheme mode: texts in which a cluster mixes whitespace and non-whitespace code points are outside the property and skipped (counted)"]


@prop("C10", "ws", "Trace_Ws")
def c10(ctx):
    q = ctx.quick()
    ctx.rule = ("MC: for all texts up to length 4/5 over {space, tab, a, 2-code-point letter} and every clean respacing: Ops/Repair are "
                "inverse in both directions, Repair keeps the non-whitespace content for every op sequence, all-Keep is the identity; "
                "A: all clean pairs with <=%d non-whitespace characters (every spacing of each side, multi-byte and cluster letters, both "
                "modes) and all strings up to length %d over {space, tab, a} x all op sequences; B: random. "
                "non-trivial = from and to differ / an op other than Keep" % ((3, 3) if q else (4, 4)))
    ctx.assumptions = WS_ASSUME
    ws_mc(ctx)
    ws_judge(ctx, ws_gen(ctx, "pair", 3 if q else 4), "A-pairs", "C10")
    ws_judge(ctx, ws_gen(ctx, "repair", 3 if q else 4), "A-repair", "C10")
    ctx.exhaustive = True
    ws_random(ctx, ("pair", "repair"), 4000 if q else 60000, "B", "C10")


@prop("C11", "ws", "Trace_Ws")
def c11(ctx):
    q = ctx.quick()
    ctx.rule = ("MC: Clean is the normal form (clean, content-preserving, idempotent, = words joined), word bounds non-empty, remove/full "
                "shapes, for all texts up to length 4/5; A: all strings up to length %d over 9 slots {space, tab, NBSP, ideographic space, "
                "a, b, ZWSP, e+acute, CRLF} in both modes; B: random strings over 13 White_Space characters, zero-width non-spaces, "
                "clusters. non-trivial = text that is not already clean" % (4 if q else 5))
    ctx.assumptions = WS_ASSUME
    ws_mc(ctx)
    ws_judge(ctx, ws_gen(ctx, "clean", 4 if q else 5), "A", "C11")
    ctx.exhaustive = True
    ws_random(ctx, ("clean", "cleanlong"), 8000 if q else 120000, "B", "C11", 1)


@prop("C14", "ws", "Trace_Ws")
def c14(ctx):
    q = ctx.quick()
    ctx.rule = ("MC: every corruption reachable by some coin vector from a clean text is clean, content-preserving and repaired by "
                "Ops/Repair (all texts up to length 4/5); A: all clean texts up to %d characters over {space, a, e+acute} x 8 probability "
                "pairs over {0, 0.5, 1} x 3 seeds x both modes through the real preprocessing and the real whitespace-correction task; "
                "B: random clean texts. non-trivial = the corruption changed the text" % (5 if q else 7))
    ctx.assumptions = WS_ASSUME + ["probabilities are abstracted to the classes 0 / strictly between / 1 for the reachability (DRIFT) check"]
    ws_mc(ctx)
    ws_judge(ctx, ws_gen(ctx, "corrupt", 5 if q else 7), "A", "C14")
    ctx.exhaustive = True
    ws_random(ctx, ("corrupt", "corruptlong"), 8000 if q else 80000, "B", "C14", 2)


# ---------------------------------------------------------------------------
@prop("C16", "windows", "Trace_Windows")
def c16(ctx):
    q = ctx.quick()
    mn = 3 if q else 4
    ctx.rule = ("MC: the window stepping machine (Windows.tla) for all texts up to 5 characters with byte lengths 1..4 x max 0..9 x "
                "context 0..3 x {char, byte}: partial tiling, context bound, full tiling at the end, failure only if a character is too "
                "wide, termination; A: all texts up to %d characters over 6 slots (1-4 byte letters, an 8-byte flag cluster, e+combining "
                "acute) x max 0..9 x context 0..3 x {char, byte, full} x both modes on the real windows(); B: random real texts up to 60 "
                "characters. non-trivial = >=2 windows or an error" % mn)
    ctx.assumptions = ["unicode-segmentation defines the characters and their byte lengths (trusted)",
                       "the empty text (one empty window) is outside the property and skipped"]
    cfg = ("CONSTANTS MaxN = 5 LenSet = {1,2,3,4} MaxMax = 9 MaxCtx = 3\nSPECIFICATION Spec\n"
           "INVARIANTS PartialTiling ContextInv DoneInv FailOnlyIfTooWide\nPROPERTY Terminates\nCHECK_DEADLOCK FALSE\n")
    vlib.mc(ctx, "Windows", cfg, name="Windows", workers=8)
    gcfg = "CONSTANTS MaxN = %d MaxMax = 9 MaxCtx = 3\nINIT Init\nNEXT Next\nCHECK_DEADLOCK FALSE\n" % mn
    cases, n = vlib.tlc_generate(ctx, "Gen_Windows", gcfg, "cases-a.ndjson")
    keys = ["s", "kind", "g", "max", "ctx", "res", "wins"]
    vlib.exec_and_judge(ctx, "windows", cases, "Trace_Windows", "A", sample_keys=keys)
    ctx.exhaustive = True
    rnd = ctx.path("cases-b.ndjson")
    vlib.harness(["gen", "windows", ctx.seed, 5000 if q else 60000, rnd])
    vlib.exec_and_judge(ctx, "windows", rnd, "Trace_Windows", "B", sample_keys=keys)


# ---------------------------------------------------------------------------
@prop("C15", "editword", "Trace_EditWord")
def c15(ctx):
    q = ctx.quick()
    ml = 3 if q else 4
    ctx.rule = ("MC: chains of up to 3 edit_word calls (returned exclusion set fed back) over words of <=4 distinct symbols x all "
                "exclusion subsets x all kind subsets x 2 table variants: exclusions stay inside the word, excluded symbols survive "
                "(action property), every mechanism step is a property-layer step; A: words up to %d symbols x all exclusion subsets x "
                "10 kind subsets x 2 tables x {ASCII, grapheme clusters} x 6 random streams x chains of 3 on the real edit_word with "
                "the real InsertEdits/ReplaceEdits providers, direct provider calls at index 0 / last / len / beyond, and the chain as the "
                "library runs it (spelling corruption in artificial mode on every word up to %d letters, edit probability 1 and 1/2: the output "
                "is reachable by that many edit_word results, each with the exclusion set of the one before); B: random "
                "words, tables, chains. non-trivial = the word changed / provider call at a word boundary" % (ml, ml + 1))
    ctx.assumptions = ["the harness uses pairwise distinct symbols per word so that identity = value",
                       "tables with two different lists for one context (hash-map overwrite) and results that do not segment back "
                       "into table symbols are skipped and counted"]
    cfg = ("CONSTANTS MaxLen = 4 MaxChain = 3\nSPECIFICATION Spec\nINVARIANTS ExclInside StepsAllowed\n"
           "PROPERTY ExcludedSurvive\nCHECK_DEADLOCK FALSE\n")
    vlib.mc(ctx, "MC_EditWord", cfg, name="MC_EditWord")
    gcfg = "CONSTANTS MaxLen = %d\nINIT Init\nNEXT Next\nCHECK_DEADLOCK FALSE\n" % ml
    cases, n = vlib.tlc_generate(ctx, "Gen_EditWord", gcfg, "cases-a.ndjson", env={"SPELL": "1"})
    keys = ["kind", "ws", "excl", "kinds", "w2s", "excl2", "which", "idx", "some", "w", "out", "pone", "full"]
    vlib.exec_and_judge(ctx, "editword", cases, "Trace_EditWord", "A", sample_keys=keys)
    ctx.exhaustive = True
    rnd = ctx.path("cases-b.ndjson")
    vlib.harness(["gen", "editword", ctx.seed, 1500 if q else 20000, rnd])
    vlib.exec_and_judge(ctx, "editword", rnd, "Trace_EditWord", "B", sample_keys=keys)


# ---------------------------------------------------------------------------
@prop("C18", "match", "Trace_Lcs")
def c18(ctx):
    q = ctx.quick()
    ml = 3 if q else 4
    ctx.rule = ("MC: a machine that grows a common subsequence pair by pair over all word-sequence pairs up to length 3 over {x, X, y} x "
                "ignore_case: the matched count never exceeds the LCS row fold, which satisfies the Bellman conditions (so it is the "
                "maximum); A: all pairs up to length %d x ignore_case x separators (space/tab/newline/double space) on the real "
                "match_words / edited_words; B: random longer texts with repeats and case variants. non-trivial = non-empty matching "
                "that is not the identity pairing" % ml)
    ctx.assumptions = ["words are split on ASCII whitespace (as the code does); to_lowercase defines case folding (view)"]
    vlib.mc(ctx, "MC_Lcs", "CONSTANTS MaxLen = 3\nSPECIFICATION Spec\nINVARIANTS UpperBound Tight Symmetric\nCHECK_DEADLOCK FALSE\n",
            name="MC_Lcs")
    cases, n = vlib.tlc_generate(ctx, "Gen_Lcs", "CONSTANTS MaxLen = %d\nINIT Init\nNEXT Next\nCHECK_DEADLOCK FALSE\n" % ml, "cases-a.ndjson")
    keys = ["as", "bs", "fold", "m", "ea", "eb"]
    vlib.exec_and_judge(ctx, "match", cases, "Trace_Lcs", "A", sample_keys=keys)
    ctx.exhaustive = True
    rnd = ctx.path("cases-b.ndjson")
    vlib.harness(["gen", "match", ctx.seed, 4000 if q else 60000, rnd])
    vlib.exec_and_judge(ctx, "match", rnd, "Trace_Lcs", "B", sample_keys=keys)


# ---------------------------------------------------------------------------
@prop("C13", "metrics", "Trace_Metrics")
def c13(ctx):
    q = ctx.quick()
    ml = 2
    ctx.rule = ("MC: the building blocks are model-checked by MC_Lcs (word matching), MC_Ws (whitespace operations) and MC_EditDist (edit "
                "distance), re-run here at small bounds; A: TLC enumerates all (input, prediction, target) triples of word sequences up to "
                "2 words over {x, y, xy} (changed / merged / split / deleted / added words, empty texts) x beta in {1/2, 1, 2}, all "
                "respacings of every content up to 3 characters x 3 whitespace modes, all boolean vector pairs up to length 3; "
                "B: random lists of up to 5 sequences. Per-sequence spelling counts come from a guarded hook; all values are compared "
                "with exact rationals. non-trivial = some count is non-zero")
    ctx.assumptions = ["texts are over NFKC-stable alphabets (ASCII letters, a-umlaut) so that the functions' clean+NFKC preparation is the identity "
                       "up to whitespace cleaning", "floats are compared with exact rationals within one unit of the 6th decimal per rounding",
                       "whitespace F1 may return Err (not panic) when input, prediction and target do not share their non-whitespace content"]
    vlib.mc(ctx, "MC_Lcs", "CONSTANTS MaxLen = 2\nSPECIFICATION Spec\nINVARIANTS UpperBound Tight Symmetric\nCHECK_DEADLOCK FALSE\n", name="MC_Lcs")
    vlib.mc(ctx, "MC_Ws", "CONSTANTS MaxLen = 3\nSPECIFICATION Spec\nINVARIANTS CleanIsNormalForm OpsRepairInverse RepairOnlyWhitespace "
            "CorruptionRepairable\nCHECK_DEADLOCK FALSE\n", name="MC_Ws")
    keys = ["kind", "input", "pred", "target", "counts", "micro", "seqavg", "mode", "p", "t", "f1", "acc", "a", "b", "med", "mned"]
    for fam in ("spelling", "whitespace", "binary"):
        cases, n = vlib.tlc_generate(ctx, "Gen_Metrics", "CONSTANTS MaxLen = %d\nINIT Init\nNEXT Next\nCHECK_DEADLOCK FALSE\n" % ml,
                                     "cases-%s.ndjson" % fam, env={"FAMILY": fam})
        vlib.exec_and_judge(ctx, "metrics", cases, "Trace_Metrics", "A-" + fam, sample_keys=keys)
    ctx.exhaustive = True
    rnd = ctx.path("cases-b.ndjson")
    vlib.harness(["gen", "metrics", ctx.seed, 4000 if q else 60000, rnd])
    vlib.exec_and_judge(ctx, "metrics", rnd, "Trace_Metrics", "B", sample_keys=keys)


# ---------------------------------------------------------------------------
@prop("C20", "dict", "Trace_Dict")
def c20(ctx):
    q = ctx.quick()
    ml = 2 if q else 3
    ctx.rule = ("MC: CountReduce.tla (W counting workers, bounded / rendezvous channel, reducer) for every schedule: each line counted "
                "exactly once, termination; A: all corpora of up to %d lines from a 9-line pool (hyphenated words, repeats, empty lines) x "
                "max_size in {None, 0, 1, 2, 5} x max_sequences in {None, 0, 1, 2} x {word, char-1, char-3} x num_threads in {0, 1, 2, 4} "
                "on the real Dictionary::create, save+load, get_closest for 4 queries; B: random corpora up to 8 lines. "
                "non-trivial = at least two distinct entries" % ml)
    ctx.assumptions = ["lines are over space, x, y, z, '-', a-umlaut so that cleaning / NFKC / the word-part regex are unambiguous on the view",
                       "thread schedules of the real counting stage are not controlled; the result must be valid for every thread count"]
    count_reduce_mc(ctx, [(1, 3, 0), (2, 3, 2), (3, 4, 3)] if q else [(1, 4, 0), (2, 4, 2), (3, 4, 3), (4, 5, 4)])
    cases, n = vlib.tlc_generate(ctx, "Gen_Dict", "CONSTANTS MaxLines = %d\nINIT Init\nNEXT Next\nCHECK_DEADLOCK FALSE\n" % ml, "cases-a.ndjson")
    keys = ["text", "mode", "threads", "max_size", "max_seq", "items", "freq_sum", "closest"]
    vlib.exec_and_judge(ctx, "dict", cases, "Trace_Dict", "A", sample_keys=keys, per_case_timeout_ms=20000)
    ctx.exhaustive = True
    rnd = ctx.path("cases-b.ndjson")
    vlib.harness(["gen", "dict", ctx.seed, 1200 if q else 15000, rnd])
    vlib.exec_and_judge(ctx, "dict", rnd, "Trace_Dict", "B", sample_keys=keys, per_case_timeout_ms=20000)


# ---------------------------------------------------------------------------
@prop("C08", "loader", "Trace_Loader")
def c08(ctx):
    q = ctx.quick()
    ctx.rule = ("MC: Loader.tla pulls every index of a stream of length <=6 through take/skip/step_by for all ranks of a world <=3 x all "
                "skip, limit, fast-forward values: the adaptor chain equals the closed form, rank streams are disjoint, their union is "
                "the single-process stream restricted by skip and limit, skip=k / limit=k split the data, fast_forward(k) is the stream "
                "after its first k items (world 1; k = m*W for a world of W); termination; thorough tier: the same arithmetic proved with TLAPS "
                "for unbounded stream length / skip / limit / offset and worlds of 1-4 ranks (spec/proofs/LoaderShard.tla). A: TLC-enumerated groups (3 file shapes x 3 "
                "strategies x epochs x pipelines x world 1..3 x skip x limit x fast-forward x shuffle), each with a reference run and "
                "every rank x {0, 2, 4} threads x buffer {1, 0, 4}, on the real TrainLoader (guarded driver hook) over jsonl files written "
                "at run time; B: random groups with all preprocessing variants (whitespace / artificial, realistic and mixed spelling "
                "corruption, switch, chain). non-trivial = some non-reference run yields >= 2 items")
    ctx.assumptions = ["items are identified by their target text (corruptions only touch the input)",
                       "thread schedules of the real pipeline are free-running here (controlled schedules are C05's); equality of batches across "
                       "thread counts / buffer sizes is what is checked"]
    vlib.mc(ctx, "Loader", "CONSTANTS MaxN = %d MaxWorld = 3\nSPECIFICATION Spec\nINVARIANTS ClosedForm Disjoint UnionIsSingle SplitAtK Resume "
            "ResumeWorld\nPROPERTY Terminates\nCHECK_DEADLOCK FALSE\n" % (5 if q else 7), name="Loader", workers=8)
    if not q:
        # the arithmetic core (sharding, train/validation split, resume) for every stream length, skip, limit and offset
        vlib.tlaps(ctx, "LoaderShard")
    pipes = '{"none", "spell"}' if q else '{"none", "ws", "spell", "switch"}'
    gcfg = "CONSTANTS MaxSkip = %d Pipelines = %s\nINIT Init\nNEXT Next\nCHECK_DEADLOCK FALSE\n" % (1 if q else 2, pipes)
    cases, n = vlib.tlc_generate(ctx, "Gen_Loader", gcfg, "cases-a.ndjson")
    keys = ["lens", "strategy", "seed", "epoch", "pipeline"]
    vlib.exec_and_judge(ctx, "loader", cases, "Trace_Loader", "A", sample_keys=keys, per_case_timeout_ms=60000)
    ctx.exhaustive = True
    rnd = ctx.path("cases-b.ndjson")
    vlib.harness(["gen", "loader", ctx.seed, 400 if q else 5000, rnd])
    vlib.exec_and_judge(ctx, "loader", rnd, "Trace_Loader", "B", sample_keys=keys, per_case_timeout_ms=60000)
