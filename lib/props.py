"""Per-property check procedures.  Each one follows DESIGN.md section 6:
MC (design-level model checking) -> A (TLC enumerates inputs / behaviours,
replayed into the real code, judged by TLC) -> B (seeded random executions
of the real code recorded and validated by TLC)."""
import json
import os

import vlib
from vlib import ToolError, log  # noqa: F401

REGISTRY = {}
COMPONENT = {}   # property -> (harness component, trace module) for --replay of single cases


def prop(pid, component=None, trace=None):
    def deco(fn):
        REGISTRY[pid] = fn
        if component:
            COMPONENT[pid] = (component, trace)
        return fn
    return deco


def replay(ctx, path):
    """Re-execute a replay file (a failing case) and judge it again."""
    with open(path) as f:
        rp = json.load(f)
    comp = rp.get("component")
    if rp.get("kind") != "case" or comp is None:
        raise ToolError("replay kind %r is handled by its own check" % rp.get("kind"))
    trace = COMPONENT[ctx.pid][1] if ctx.pid in COMPONENT else None
    for p, (c, t) in COMPONENT.items():
        if c == comp and p == ctx.pid:
            trace = t
    cases = ctx.path("replay-cases.ndjson")
    vlib.write_ndjson(cases, [rp["case"]])
    vlib.exec_and_judge(ctx, comp, cases, trace, "replay")
    ctx.rule = "replay of " + path
    return vlib.finish(ctx)


# ---------------------------------------------------------------------------
@prop("C12", "edit", "Trace_EditDist")
def c12(ctx):
    q = ctx.quick()
    ctx.rule = ("MC: Align machine for all text pairs up to length 3 over {ws,x,y} x flags; "
                "A: all pairs up to length %d over 3 slots x flags, 4 concretisations each; "
                "B: random pairs up to 14 characters. non-trivial = both texts non-empty and different"
                % (3 if q else 4))
    ctx.assumptions = ["unicode-segmentation / char::is_whitespace define the view (trusted)",
                       "floats compared to exact rationals within 1e-6"]
    vlib.mc(ctx, "MC_EditDist", "MC_EditDist.cfg")
    cases, n = vlib.tlc_generate(ctx, "Gen_EditDist", "Gen_EditDist_q.cfg" if q else "Gen_EditDist_t.cfg", "cases-a.ndjson")
    vlib.exec_and_judge(ctx, "edit", cases, "Trace_EditDist", "A", sample_keys=["as", "bs", "g", "swap", "sid", "d", "nd", "ops"])
    ctx.exhaustive = True
    rnd = ctx.path("cases-b.ndjson")
    vlib.harness(["gen", "edit", ctx.seed, 2000 if q else 30000, rnd])
    vlib.exec_and_judge(ctx, "edit", rnd, "Trace_EditDist", "B", sample_keys=["as", "bs", "g", "swap", "sid", "d", "nd", "ops"])
