#!/usr/bin/env python3
"""seedstatus.py <log> ...: reads `lib/mutrun.sh` output (lines `<id>: CAUGHT violations=.. first=<clause>`) and records, in
seeded/<id>/meta.json, which check / clause reported the change (`detected_by`); later logs win.  MISSED / ERROR lines
are printed and leave the meta untouched."""
import json, os, re, sys
HERE = os.path.dirname(os.path.dirname(os.path.abspath(__file__)))
for log in sys.argv[1:]:
    for line in open(log, errors="replace"):
        m = re.match(r"^(C\d\d-\d+): (CAUGHT|MISSED|ERROR\(\d+\)|PATCH-FAILED)(?: violations=(\d+) drift=(\d+) first=(.*))?", line)
        if not m:
            continue
        sid, verdict, nv, nd, first = m.groups()
        mp = os.path.join(HERE, "seeded", sid, "meta.json")
        if not os.path.exists(mp):
            continue
        if verdict != "CAUGHT":
            print("%s: %s in %s" % (sid, verdict, log))
            continue
        meta = json.load(open(mp))
        first = (first or "").strip()
        if len(first) > 90:
            first = first[:90] + "..."
        meta["detected_by"] = "./check %s (quick): %s violation(s), first clause: %s" % (sid[:3], nv, first or "(see replay)")
        json.dump(meta, open(mp, "w"), indent=1, ensure_ascii=False)
