#!/usr/bin/env python3
"""Regenerates /verif/MANIFEST.json from the table below (kept in one place so
that the manifest is always valid and in step with lib/props.py)."""
import json
import os
import sys

VERIF = os.path.dirname(os.path.dirname(os.path.abspath(__file__)))
sys.path.insert(0, os.path.join(VERIF, "lib"))

CLAIMED = {
    "C12": dict(
        text="TLC explores the alignment machine of spec/EditDist.tla for all text pairs up to length 3 over a whitespace and two other symbols and all flag combinations and checks in every state that the row-DP of the mechanism layer is the least alignment cost (Bellman conditions), termination and the range/prefix consequences; the spec is bound to the code by replaying the TLC-enumerated input space (all pairs up to length 3/4 x flags x 4 concretisations incl. multi-byte and grapheme clusters) and seeded random pairs up to 14 characters through distance/distances/prefix_distance/operations and validating every recorded call with Trace_EditDist (exact distance, exact rational for the normalised value, script is an Align behaviour of cost D).",
        note="Bounded: MC up to length 3, replay up to length 4, random up to 14. Trusted: unicode-segmentation and char::is_whitespace for the view; float vs rational tolerance 1e-6; TLC.",
        technique="TLA+ spec (Align machine + DP fold) model-checked with TLC; TLC-enumerated cases replayed into the code; recorded calls validated by a TLC trace spec",
        ref="6 C12"),
}

NOT_YET = "check not finished yet in this round (see DESIGN.md 7.2 for the order); will be claimed once MC and one binding direction run green"


def main():
    props = [json.loads(l) for l in open(os.path.join(VERIF, "properties.jsonl"))]
    checks = []
    na = []
    for p in props:
        pid = p["id"]
        if pid in CLAIMED:
            c = CLAIMED[pid]
            checks.append({
                "property_id": pid,
                "quick_cmd": "./check %s --tier quick" % pid,
                "thorough_cmd": "./check %s --tier thorough" % pid,
                "evidence_file": "/verif/evidence/%s.json" % pid,
                "replay_cmd_template": "./check %s --replay {path}" % pid,
                "engine": "tlc+tuverif",
                "level_claimed": {"category": "model_checking", "text": c["text"], "design_ref": "DESIGN.md section " + c["ref"]},
                "level_note": c["note"],
                "technique": c["technique"],
            })
        else:
            na.append({"property_id": pid, "reason": NOT_YET})
    m = {
        "version": 1,
        "setup_cmd": "./setup.sh",
        "hooks": {
            "guard": "cargo feature `verif` of the text-utils crate (off by default)",
            "enable": "the harness crate /verif/harness depends on text-utils by path with features = [\"verif\"]; `cargo build --offline` in /verif/harness rebuilds /repo's working tree with hooks on",
            "baseline_off_cmd": "cd /repo && cargo test --workspace --no-fail-fast --offline",
            "source_commits": HOOK_COMMITS,
            "add_only": True,
        },
        "engines": [{
            "name": "tlc+tuverif", "path": "/verif/check",
            "serves_properties": [c["property_id"] for c in checks],
            "kind_free_text": "TLA+ specifications under /verif/spec checked with TLC (model checking, case/behaviour generation, trace validation); Rust harness /verif/harness drives and records the real code; python3 orchestrator",
        }],
        "checks": checks,
        "not_applicable": na,
        "notes": "See DESIGN.md. Every check: exit 0 held / exit 1 with VIOLATION line / exit 2 tool error. known_findings.json lists recorded and fixed defects.",
    }
    with open(os.path.join(VERIF, "MANIFEST.json"), "w") as f:
        json.dump(m, f, indent=1)
    print("MANIFEST.json: %d checks, %d not_applicable" % (len(checks), len(na)))


HOOK_COMMITS = ["3613811"]

if __name__ == "__main__":
    main()
