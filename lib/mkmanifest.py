#!/usr/bin/env python3
"""Regenerates /verif/MANIFEST.json from the table below (kept in one place so
that the manifest is always valid and in step with lib/props.py)."""
import json
import os
import sys

VERIF = os.path.dirname(os.path.dirname(os.path.abspath(__file__)))
sys.path.insert(0, os.path.join(VERIF, "lib"))

TOK_NOTE = "Trusted: unicode-segmentation, char::is_whitespace, UTF-8 encoding for the view; special-token sets prefix-free (texts where two spellings match at one place are skipped and counted); TLC. Bounded exhaustive spaces as stated; random part seeded by VERIF_SEED."
CLAIMED = {
    "C01": dict(
        text="spec/Tok.tla specifies the special-token scanner (leftmost, non-overlapping), byte encoding (prefix ids, UTF-8 bytes / special ids, suffix ids), character encoding (one id per code point or grapheme cluster, unk outside the alphabet) and decoding on the abstract text model; TLC enumerates all texts up to length 3/4 over 8 class-complete slots (every near miss of a special-token spelling) x byte and char configurations, the real tokenizers are run on every case and Trace_Tok re-derives ids and decodings from the view and compares exactly; random real Unicode strings the same way.",
        note=TOK_NOTE + " No separate design-level state exploration: the scanner/encoders are functional specifications evaluated by TLC on every enumerated input.",
        technique="TLA+ functional spec of scanner/encoders; TLC-enumerated input space replayed into the code; every recorded call validated by a TLC trace spec",
        ref="6 C01"),
    "C02": dict(
        text="TLC explores the BPE merge machine of spec/Bpe.tla (one MergeStep per transition) for all well-formed tables <=3 entries over 2 byte symbols x all words up to 5/6 bytes: the tokens concatenate to the word in every state (lossless), the machine terminates, decoding the ids returns the bytes; the same tables x all texts up to length 4/5 with whitespace structure x max_vocab_size truncations x prefix/suffix configs are replayed on real BPETokenizers (tables written with the library's own serializer) and Trace_Tok checks id range, token-byte concatenation and decode = text minus trailing whitespace; random tables (depth >= 2, up to 40 entries) likewise.",
        note=TOK_NOTE + " Tables from train_bpe are covered by C19's check.",
        technique="TLA+ merge machine model-checked with TLC; TLC-enumerated tables/texts replayed; recorded encodings validated by a TLC trace spec",
        ref="6 C02/C03"),
    "C03": dict(
        text="Same machinery as C02 with the canonical-merge clause: for every recorded text the real ids must equal Bpe!Encode (repeatedly the lowest merge id, leftmost on ties, among all currently mergeable adjacent pairs, per whitespace-prefixed word); MC_Bpe shows the machine is deterministic and terminating and that a single-token result is the table entry.",
        note=TOK_NOTE + " The code's heap with lazy deletion is modelled as 'pop the minimum valid candidate'.",
        technique="TLA+ merge machine model-checked with TLC; exhaustive and random tables replayed; exact comparison by a TLC trace spec",
        ref="6 C02/C03"),
    "C04": dict(
        text="spec/Tok.tla gives the id layout of byte, char and BPE vocabularies as a function of the configuration (de-duplication, extra padding tokens, unk, truncation); TLC enumerates special-token lists with duplicates x prefix/suffix x pad_to_multiple_of and all well-formed merge tables x every truncation; the real tokenizer is interrogated on every id in [0, vocab_size+16) and every UTF-8 token, and Trace_Tok checks the mutual consistency of vocab_size / get_vocab / id_to_token / token_to_id / pad, prefix, suffix and special ids / single-id decoding (property layer) and equality with the spec layout (mechanism layer, DRIFT).",
        note=TOK_NOTE,
        technique="TLA+ spec of the id layouts; TLC-enumerated configurations replayed; recorded answers validated by a TLC trace spec",
        ref="6 C04"),
    "C05": dict(
        text="TLC explores every interleaving of the worker/consumer actions of spec/Pipe.tla (one action per segment between two shared-memory accesses of the real worker loop) for small thread counts and all upstream lengths and checks order, exactly-once, completeness and termination under fairness; the spec is bound to the code in both directions: an edge cover of each explored state graph is replayed as controlled schedules on the real Pipe through guarded schedule-point hooks, and seeded random controlled schedules and free-running executions are recorded and validated by TLC (property monitor Trace_PipeObs on observables; mechanism conformance Trace_Pipe with lazily placed silent steps, Pipe's invariants checked on every reconstructed state).",
        note="Bounded: MC W<=3,N<=3 quick / W<=4,N<=4 thorough; replayed graphs up to (2,3) quick / (3,3) thorough; random runs W<=4, N<=40. Trusted: SeqCst atomics and std mpsc linearizable, hooks only at schedule points (a race inside one segment is only reachable by the free-running runs), 1.5 s no-progress time-out (re-run once).",
        technique="TLA+ spec of the ticket/turn/channel protocol model-checked with TLC; state-graph edge cover replayed as controlled thread schedules; recorded executions validated by TLC trace specs",
        ref="6 C05"),
    "C06": dict(
        text="TLC explores Batched.tla (one action per next() call and mode: greedy batch_from with the one-slot remainder, refill loop, stable sort, pop-from-back, every permutation of the shuffle buffer, every window of the transcribed find_subsequences_of_max_size_k loop) for all size sequences up to length 4 over {0,1,2,4} x limits x prefetch x limit types x modes; invariants: nothing lost or duplicated in any state, no empty batch, limit respected, plain mode input order and greedy-maximality, partition at the end, window-search postconditions; termination. Binding: the same space (raw limit/prefetch from 0, length <=4/5) and all window-search inputs are replayed on the real iterator twice per seed, plus random runs up to 40 items; every recorded iteration is validated by Trace_Batched: property predicates, and as mechanism conformance the exact batch sequence (plain, sorted) or step-by-step enabledness (shuffled modes).",
        note="Bounded: exhaustive up to 4 (quick) / 5 (thorough) items; random up to 40 items, limits up to 64. The shuffle buffer is a bag in the spec. Seed determinism is checked by two runs per configuration.",
        technique="TLA+ state machine of the four batching modes and the window search model-checked with TLC; TLC-enumerated configurations replayed; recorded iterations validated by a TLC trace spec (property + mechanism layer)",
        ref="6 C06"),
    "C07": dict(
        text="TLC explores MultiGen.tla (cursor, finished flags, the two steps of the loop inside next()) for all source-length vectors up to 3-4 sources x lengths 0..3 and the three strategies incl. every weighted choice; invariants: per-source order and tags, exactly-once at the end, sequential = concatenation, interleaved = round robin over sources that still have items; termination under fairness; negative control: the pinned commit's re-selection hangs. Binding: every enumerated vector and random longer vectors are iterated to the end on the real generator under a watchdog, twice per seed, and each recorded iteration is validated by Trace_MultiGen against the spec's expected sequence (deterministic strategies) or membership predicates and seed reproducibility (weighted).",
        note="Bounded: <=4 sources, lengths <=3 exhaustively; random <=6 sources, lengths <=9. In-memory sources (the jsonl reader is exercised by C08). Hang = next() not returning within 5 s.",
        technique="TLA+ state machine of the generator model-checked with TLC (incl. negative control); TLC-enumerated configurations replayed on the real generator; recorded iterations validated by a TLC trace spec",
        ref="6 C07"),
    "C08": dict(
        text="spec/Loader.tla models the index selection of the train loader (enumerate / take(limit) / skip(skip+ff+rank) / step_by(world), item seed = seed+epoch+global index) as a machine that pulls every index through the adaptor chain for all ranks; TLC checks closed form, disjoint rank streams, union = single-process stream restricted by skip and limit, the skip=k / limit=k split, fast_forward(k) = stream after its first k, termination, for all small parameter values. The rest of the composition is covered by the order-preservation specs (Pipe, Batched, Buffered, MultiGen). Binding: TLC-enumerated and random groups of runs are executed on the real TrainLoader (guarded driver hook; jsonl files, whitespace / spelling / switch / chain preprocessing, byte tokenizer): each group has a reference run defining the global index of every item; Trace_Loader checks that every global index is processed identically in every run, batches are identical for every thread count and buffer size, rank streams are disjoint with the right union, fast-forward yields the rest of the stream (in order without shuffling), no item twice; the exact closed-form selection, MultiGen order and min_items are mechanism-level.",
        note="Bounded: MC stream length <=5/7, world <=3; replayed groups with <=3 files of <=7 lines, world <=3. Real thread schedules are free-running in this check (controlled schedules: C05/C09). Items are identified by their (uncorrupted) target text.",
        technique="TLA+ machine of the index-selection adaptor chain model-checked with TLC; TLC-enumerated run groups executed on the real loader; recorded groups validated by a TLC trace spec",
        ref="6 C08"),
    "C09": dict(
        text="TLC explores Pipe.tla with the consumer's Drop enabled at every point (invariants: look-ahead <= channel capacity + workers independent of the upstream length, at most one further pull per worker after the drop; liveness: every worker exits after a drop) and with a panicking item (with the process-exiting hook the run ends; without it, with a hook installed after the workers started, or with a hook that a finishing worker takes away again TLC finds the wedged consumer - negative controls), and Buffered.tla for capacities 0..2 (negative control: a producer that ignores the failed send violates the bound). Binding: edge covers of both state graphs are replayed on the real Pipe (hooks) and the real Buffered (its upstream iterator is the schedule point); random controlled schedules with drops, free-running abandon runs incl. an effectively unbounded upstream, runs with an upstream of 800 items and a consumer that idles before it drops, and child processes with a panicking item (at once / delayed, fewer items than workers, after an earlier pipe) are recorded and judged by the TLC monitor Trace_PipeObs. The monitor's bound clauses state the property (a constant of thread count and buffer size: 4*(threads+buffer)+8); the exact bounds of the code as written and the validation against the mechanism (Trace_Pipe, Trace_Buffered) are the conformance layer (DRIFT).",
        note="Bounded: graphs W<=2,N<=2 (quick) / W<=3,N<=3 (thorough), Buffered N<=3/5, cap 0..2; random W<=4, caps {0,1,2,3,16}. Thread exit is observed via the drop of the upstream iterator; hang = no exit signal within 5-10 s for microsecond work; a timing-only verdict of a controlled schedule is re-run once and must be confirmed by free-running runs of the same configuration, else it is DRIFT. std mpsc semantics trusted.",
        technique="TLA+ specs of Pipe (drop, panic+hook) and Buffered model-checked with TLC incl. negative controls; graph edge covers replayed as controlled schedules; recorded runs judged by TLC monitor/trace specs",
        ref="6 C09"),
    "C15": dict(
        text="spec/EditWord.tla gives, per edit kind, the exact set of results one edit_word call may return (candidate positions w.r.t. the exclusion set, <bow>/<eow> context lookup, splice, re-indexing) and, separately, the property-layer relation OneEdit (one edit of an enabled kind at a non-excluded position with a table string, exclusions re-indexed and extended). MC_EditWord explores chains of calls and checks exclusions inside the word, survival of excluded symbols (action property) and mechanism => property. Binding: TLC-enumerated (word, exclusion set, kinds, table) cases are run on the real edit_word with the real InsertEdits/ReplaceEdits context tables over 6 random streams and chains of 3, plus direct provider calls at index 0/last/len/beyond; random words/tables/chains; Trace_EditWord checks no panic, OneEdit, exclusions within the word, excluded characters survive; membership in the exact successor set is the mechanism layer.",
        note="Bounded: words <=3/4 symbols exhaustively, random <=7 symbols, tables <=14 contexts. The harness is built with overflow checks (as cargo test), so arithmetic faults surface as panics. Weighted sampling of edit strings is abstracted to 'any listed string'.",
        technique="TLA+ successor relation of edit_word model-checked with TLC; TLC-enumerated cases replayed over several random streams; recorded calls validated by a TLC trace spec",
        ref="6 C15"),
    "C16": dict(
        text="spec/Windows.tla is the window stepping machine (one action per emitted window; CharStep/ByteStep with count_until as folds); TLC explores it for all texts up to 5 characters with byte lengths 1..4 x max 0..9 x context 0..3 x {char, byte} and checks partial tiling in every state, the context bound, full tiling at the end, failure only if a character is wider than the window, termination. Binding: all texts up to 3/4 characters over 6 slots (1-4 byte letters, 8-byte flag cluster, e+combining acute) x the same configurations x {char, byte, full} x both modes are replayed on the real windows(); random real texts up to 60 characters; Trace_Windows checks error/success rules, tiling, context containment and size, byte boundaries = prefix sums of the character boundaries, reported string = context slice, and (mechanism) equality with the stepping machine.",
        note="Bounded as stated; the empty text is skipped. View trusted (unicode-segmentation cluster lengths). A hang is caught by the 5 s per-case watchdog.",
        technique="TLA+ window stepping machine model-checked with TLC; TLC-enumerated texts/configurations replayed; recorded results validated by a TLC trace spec",
        ref="6 C16"),
    "C17": dict(
        text="spec/Tok.tla specifies the token groups of the byte tokenizer (one group per prefix token, character, special token, suffix token; nested code-point groups) on top of the scanner and cluster model; Trace_Coo specifies the sparse aggregation matrix (one entry per token: batch index, group index, token index; weights 1/len resp. nested 1/(k*len) as exact rationals, ones for sum), the declared size, group lengths, the padding mask and padded id/label matrices. Binding: TLC-enumerated texts x byte configurations and batches of texts are tokenized by the real ByteTokenizer, passed through the real token_groups_to_sparse_coo_matrix / padding_mask / Batch<TrainItem>::tensorize (guarded read accessor for SparseCoo), and every record is validated by Trace_Tok (groups) and Trace_Coo (matrix, mask, padding); random real strings and batches likewise.",
        note=TOK_NOTE + " f32 weights compared with exact rationals within 1e-6; per-group weight sums within one unit per token.",
        technique="TLA+ spec of token groups and of the COO matrix / padding; TLC-enumerated texts and batches replayed; recorded outputs validated by TLC trace specs",
        ref="6 C17"),
    "C18": dict(
        text="spec/Lcs.tla defines the LCS length as a row fold and ValidMatching (pairs inside both texts, strictly increasing in both coordinates, equal words - case-folded when requested -, as many pairs as the LCS length); MC_Lcs explores a machine that grows a common subsequence pair by pair for all pairs of word sequences up to length 3 over {x, X, y} and checks that no common subsequence exceeds the fold and that the fold satisfies the Bellman conditions (it is the maximum) and is symmetric. Binding: all pairs up to length 3/4 x ignore_case x separator choices and random longer texts go through the real match_words and edited_words; Trace_Lcs checks ValidMatching, the word counts, and that edited_words is exactly the complement of the case-sensitive matching.",
        note="Bounded as stated; words split on ASCII whitespace (other whitespace is outside 'pairs of word sequences'); case folding via to_lowercase is part of the view.",
        technique="TLA+ LCS fold and matching predicate model-checked with TLC; TLC-enumerated pairs replayed; recorded results validated by a TLC trace spec",
        ref="6 C18"),
    "C19": dict(
        text="TLC explores every behaviour of the greedy training machine spec/BpeTrain.tla (merge any adjacent pair of maximal positive recounted frequency, left-to-right non-overlapping replacement) for small corpora with repeats/overlaps that are exhausted before the requested number of merges; invariants: no duplicate entry, table well-formed, at most the requested merges; termination; negative control (zero-frequency merging) violates NoDuplicates. CountReduce.tla covers the counting threads under every schedule. Binding: TLC-enumerated and random corpora are written to files, the real train_bpe runs with 0/1/3 threads, and each written table is validated by Trace_BpeTrain as a behaviour of the spec (ids 0..n-1, every entry a max-positive pair of the corpus as segmented so far; tie choice and split searched by TLC); the tables are then loaded into real tokenizers and checked with the C02/C04 clauses.",
        note="Bounded: <=3 distinct words (pool of 8, <=4 symbols) exhaustively; random <=6 words of <=7 letters over <=3 letters, <=24 merges. Corpora restricted to ASCII letters and single spaces (clean/NFKC identity). Thread schedules of the real counting stage are not controlled (result must be valid for each thread count).",
        technique="TLA+ greedy training machine model-checked with TLC; corpora replayed through the real trainer; written tables validated as spec behaviours by a TLC trace spec",
        ref="6 C19"),
    "C10": dict(
        text="spec/Ws.tla transcribes the two-pointer alignment of operations() and the fold of repair(); MC_Ws checks over all texts up to length 4/5 (space, tab, letter, 2-code-point letter) and every clean respacing that Ops/Repair are inverse in both directions, that Repair preserves the non-whitespace content for every op sequence and that all-Keep is the identity. Binding: TLC enumerates all clean pairs (every spacing of each side, multi-byte and cluster letters, both modes) and all short strings x all op sequences; random cases; the real operations/repair are called and Trace_Ws validates each record (succeeds, one op per character, repair result = target; only-whitespace clause; length mismatch is Err; mechanism: ops equal the two-pointer machine).",
        note="Bounded: MC length 4/5; replay <=3/4 non-whitespace characters and strings <=3/4 x all op sequences; random up to 16/14 characters. Grapheme-mode texts with mixed clusters are outside the property (skipped, counted). View trusted (unicode-segmentation, char::is_whitespace).",
        technique="TLA+ spec of the alignment machine and repair fold model-checked with TLC; TLC-enumerated cases replayed; recorded calls validated by a TLC trace spec",
        ref="6 C10"),
    "C11": dict(
        text="spec/Ws.tla gives clean() as a scanning machine plus Words / WordBounds / Join / RemoveWs / FullWs; MC_Ws checks that Clean is the whitespace normal form (clean, content preserving, idempotent, equal to the words joined by single spaces) for all texts up to length 4/5. Binding: all strings up to length 4/5 over 9 class-complete slots (space, tab, NBSP, ideographic space, letters, ZWSP, e+acute, CRLF) in both modes and random strings over 13 White_Space characters are run through the real clean/word_boundaries/remove/full and compared code point by code point with the spec by Trace_Ws.",
        note="Bounded as stated. Outputs are compared at code-point level (the view of the input gives each cluster's code points). Mixed clusters in grapheme mode are outside the property (skipped, counted).",
        technique="TLA+ spec of clean/word boundaries model-checked with TLC; TLC-enumerated strings replayed; recorded outputs validated by a TLC trace spec",
        ref="6 C11"),
    "C13": dict(
        text="spec/Metrics.tla gives F-beta from counts as exact rationals (with the max(.,1) conventions), micro and sequence-averaged aggregation as folds, and ties the counts to the other specs: whitespace counts = set comparison of Ws!Ops(input,target) and Ws!Ops(input,prediction) per mode; spelling counts constrained by the LCS word matching (tp+fn = unmatched target words, fp <= changed input words, prediction = target => fp = fn = 0, unchanged prediction of an erroneous input => tp = 0, empty flag); accuracy, binary F1, mean (normalised) edit distance by their formulas (EditDist!Dist). Binding: TLC enumerates all word-sequence triples up to 2 words over {x, y, xy} x beta, all respacings up to 3 characters x modes, all boolean vector pairs; random lists of sequences; the real functions (and a guarded hook for the per-sequence spelling counts) are called and Trace_Metrics checks totality (no panic), finiteness, [0,1], calibration, counts and both aggregations.",
        note="Bounded as stated; NFKC-stable alphabets only (NFKC mappings that introduce whitespace are out of scope); rational comparison within 1e-6 per rounding; whitespace F1 returning Err for texts that do not align is accepted (not a panic). Building-block specs are model-checked (MC_Lcs, MC_Ws, MC_EditDist).",
        technique="TLA+ spec of counts/aggregation on top of Lcs/Ws/EditDist specs; TLC-enumerated inputs replayed; recorded results validated by a TLC trace spec with exact rational arithmetic",
        ref="6 C13"),
    "C14": dict(
        text="spec/Ws.tla models whitespace corruption as one coin per character with probability classes {0, between, 1}; MC_Ws checks that every corruption reachable by some coin vector from a clean text is clean, content preserving and repaired exactly by Ops/Repair. Binding: all clean texts up to 5/7 characters x 8 probability pairs x 3 seeds x both modes and random clean texts go through the real preprocessing(WhitespaceCorruption) and the real whitespace-correction task; Trace_Ws checks target untouched, same non-whitespace characters, output clean, operations/repair recover the text, one label per input character equal to the operations, determinism in (text, seed), probability-0 clauses, and (mechanism) reachability by some coin vector.",
        note="Bounded as stated; probabilities abstracted to three classes for the reachability (DRIFT) check; the task is run with a byte tokenizer with one prefix and one suffix token.",
        technique="TLA+ spec of coin-wise corruption model-checked with TLC; TLC-enumerated texts/probabilities/seeds replayed through the real preprocessing and task; records validated by a TLC trace spec",
        ref="6 C14"),
    "C20": dict(
        text="spec/Dict.tla specifies token extraction per mode (word parts = maximal letter runs inside whitespace words; characters; character 3-grams with <bow>/<eow>), exact counts over the first max_sequences lines, the top-max_size predicate (no kept entry less frequent than an omitted one; negative = unlimited), freq_sum and the closest entry (minimal EditDist!Dist, then most frequent); CountReduce.tla model-checks the counting workers / channel / reducer for every schedule (exactly-once, termination, incl. the rendezvous channel of num_threads = 0). Binding: TLC-enumerated and random small corpora x max_size x max_sequences x modes are run through the real Dictionary::create with 0/1/2/4 threads, saved and loaded, and queried; Trace_Dict validates every record against the spec.",
        note="Bounded: <=2/3 lines from a 9-line pool exhaustively, random <=8 lines of <=12 characters. Restricted alphabet (cleaning / NFKC / regex word parts unambiguous). Schedules of the real counting threads are not controlled (result validated per thread count).",
        technique="TLA+ spec of counts / top-k / closest plus a model-checked worker-reducer protocol; TLC-enumerated corpora replayed with several thread counts; results validated by a TLC trace spec",
        ref="6 C20"),
    "C12": dict(
        text="TLC explores the alignment machine of spec/EditDist.tla for all text pairs up to length 3 over a whitespace and two other symbols and all flag combinations and checks in every state that the row-DP of the mechanism layer is the least alignment cost (Bellman conditions), termination and the range/prefix consequences; the spec is bound to the code by replaying the TLC-enumerated input space (all pairs up to length 3/4 x flags x 4 concretisations incl. multi-byte and grapheme clusters) and seeded random pairs up to 14 characters through distance/distances/prefix_distance/operations and validating every recorded call with Trace_EditDist (exact distance, exact rational for the normalised value, script is an Align behaviour of cost D).",
        note="Bounded: MC up to length 3, replay up to length 4, random up to 14. Trusted: unicode-segmentation and char::is_whitespace for the view; float vs rational tolerance 1e-6; TLC.",
        technique="TLA+ spec (Align machine + DP fold) model-checked with TLC; TLC-enumerated cases replayed into the code; recorded calls validated by a TLC trace spec",
        ref="6 C12"),
}

NOT_YET = "check not finished yet in this round (see DESIGN.md 7.2 for the order); will be claimed once MC and one binding direction run green"


def main():
    props = [json.loads(l) for l in open(os.path.join(VERIF, "properties.jsonl"))]
    checks = []
    na = []
    for p in props:
        pid = p["id"]
        if pid in CLAIMED:
            c = CLAIMED[pid]
            checks.append({
                "property_id": pid,
                "quick_cmd": "./check %s --tier quick" % pid,
                "thorough_cmd": "./check %s --tier thorough" % pid,
                "evidence_file": "/verif/evidence/%s.json" % pid,
                "replay_cmd_template": "./check %s --replay {path}" % pid,
                "engine": "tlc+tuverif",
                "level_claimed": {"category": "model_checking", "text": c["text"], "design_ref": "DESIGN.md section " + c["ref"]},
                "level_note": c["note"],
                "technique": c["technique"],
            })
        else:
            na.append({"property_id": pid, "reason": NOT_YET})
    m = {
        "version": 1,
        "setup_cmd": "./setup.sh",
        "hooks": {
            "guard": "cargo feature `verif` of the text-utils crate (off by default)",
            "enable": "the harness crate /verif/harness depends on text-utils by path with features = [\"verif\", \"benchmark-utils\"] (the second is the repository's own feature: public re-exports of accumulate / run-length coding, used by extension X09 only); `cargo build --offline` in /verif/harness rebuilds /repo's working tree with hooks on",
            "baseline_off_cmd": "cd /repo && cargo test --workspace --no-fail-fast --offline",
            "source_commits": HOOK_COMMITS,
            "add_only": True,
        },
        "engines": [{
            "name": "tlc+tuverif", "path": "/verif/check",
            "serves_properties": [c["property_id"] for c in checks],
            "kind_free_text": "TLA+ specifications under /verif/spec checked with TLC (model checking, case/behaviour generation, trace validation); Rust harness /verif/harness drives and records the real code; python3 orchestrator",
        }],
        "checks": checks,
        "not_applicable": na,
        "notes": "See DESIGN.md (section 13 = what was built). Every check: exit 0 held / exit 1 with VIOLATION line / exit 2 tool error. known_findings.json lists recorded (2) and fixed (11) defects. Beyond the 20 properties the specification covers nine extension components (./check X01..X09, lib/ext.py: CharString index layer, preprocessing pipeline, task inputs and postprocessing, chat template, inference loader, line reader, regex-built text helpers, Unicode normalisation and JSON decoding, the sliding-window finder and run-length coding); they print EXT-VIOLATION, write evidence/ext/ and are not registered here. Hook commits 0328edf and d29d63d serve only those extensions.",
    }
    with open(os.path.join(VERIF, "MANIFEST.json"), "w") as f:
        json.dump(m, f, indent=1)
    print("MANIFEST.json: %d checks, %d not_applicable" % (len(checks), len(na)))


HOOK_COMMITS = ["3613811", "f304319", "2211f72", "6668f70", "0328edf", "d29d63d"]

if __name__ == "__main__":
    main()
