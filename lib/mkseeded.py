#!/usr/bin/env python3
"""Regenerate seeded/README.md from the meta.json files."""
import json, os, glob
base = os.path.join(os.path.dirname(os.path.abspath(__file__)), "..", "seeded")
head = """# Seeded changes

Each sub-directory holds one change to ad-freiburg/text-utils produced by an independent sub-agent that saw only the
text of one property (nothing from /verif): `patch.diff`, the agent's demonstration, `meta.json` (property, what it needs
to manifest, what was run, which check reports it).  None of them is ever committed to /repo; to run a check against one:
`git -C /repo apply seeded/<id>/patch.diff && ./check <property>; git -C /repo checkout -- .`

| id | property | change | needs to manifest | existing tests | caught by |
|---|---|---|---|---|---|
"""
rows = []
for d in sorted(glob.glob(os.path.join(base, "C*-*"))):
    m = json.load(open(os.path.join(d, "meta.json")))
    rows.append("| %s | %s | %s | %s | %s | %s |" % (os.path.basename(d), m["property"], m["change"], m["needs_to_manifest"],
                "pass" if m["existing_tests_pass_with_change"] else "FAIL", m["detected_by"]))
open(os.path.join(base, "README.md"), "w").write(head + "\n".join(rows) + "\n")
print(len(rows), "seeded changes")
