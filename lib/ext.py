"""Extension components: parts of text-utils that are specified and bound to the code in the same way as the
properties (MC -> A -> B, verdict by TLC) but are not among the 20 listed properties.  They are run with
`./check X01` ... or `./check ext` (all); they print EXT-VIOLATION (never VIOLATION property=...) and write
evidence/ext/<id>.json.  They are not registered in MANIFEST.json's checks."""
import vlib
from props import prop

EXT = {}


def ext(pid, component, trace, title):
    def deco(fn):
        EXT[pid] = title
        return prop(pid, component, trace)(fn)
    return deco


@ext("X01", "cstr", "Trace_CharString", "CharString index layer and substring enumerations")
def x01(ctx):
    q = ctx.quick()
    ml = 4 if q else 5
    ctx.rule = ("MC: run_length_encode (one element per step) and the byte_start_end scan (one run per step) for every sequence of "
                "character byte lengths up to 5/6 over {1,2,3,4} and every index: scan = prefix sums, panic exactly for n >= len, "
                "sub / char_range_to_byte_range = clamped prefix-sum ranges for all (a, b), the transcribed window search satisfies the "
                "byte-substring contract for budgets 0..7; A: all texts up to %d characters over 6 slots of 3 alphabets (ASCII, multi-byte, "
                "clusters incl. CRLF) x both segmentation modes: len, get(n) for all n <= len+1, sub(a,b) for all a <= b <= len+2, "
                "get_char_byte_lengths, split, character substrings for every max, byte substrings for budgets 0..12; B: random texts "
                "up to 30 characters. non-trivial = characters of different byte lengths" % ml)
    ctx.assumptions = ["unicode-segmentation defines the characters (trusted view)"]
    cfg = ("CONSTANTS LenSet = {1,2,3,4} MaxN = %d\nSPECIFICATION Spec\nINVARIANTS EncodeInv ScanInv ResultInv DerivedInv ByteSubInv\n"
           "PROPERTY Terminates\nCHECK_DEADLOCK FALSE\n" % (5 if q else 6))
    vlib.mc(ctx, "MC_CharString", cfg, name="MC_CharString", workers=8)
    gcfg = "CONSTANTS MaxLen = %d\nINIT Init\nNEXT Next\nCHECK_DEADLOCK FALSE\n" % ml
    cases, n = vlib.tlc_generate(ctx, "Gen_CharString", gcfg, "cases-a.ndjson")
    keys = ["s", "g", "lens", "gets", "subs"]
    vlib.exec_and_judge(ctx, "cstr", cases, "Trace_CharString", "A", sample_keys=keys)
    ctx.exhaustive = True
    rnd = ctx.path("cases-b.ndjson")
    vlib.harness(["gen", "cstr", ctx.seed, 3000 if q else 40000, rnd])
    vlib.exec_and_judge(ctx, "cstr", rnd, "Trace_CharString", "B", sample_keys=keys)


@ext("X02", "proc", "Trace_Proc", "preprocessing pipeline: combinators, whitespace ops, overwrite/mark/prefix/suffix, substrings")
def x02(ctx):
    q = ctx.quick()
    ctx.rule = ("MC: small-step interpreter (one action per configuration node) for all configuration trees of depth 1/2 over 17 primitives "
                "x all (input, target) pairs of texts up to 2 characters over {a, 2-byte b, space} x 3 switch draws: every reachable state "
                "stays within the denotational semantics Eval, whitespace-only pipelines keep the content and cannot fail, marks only "
                "grow, the substring of a pair that differs only in whitespace is such a pair and is always found; A: ~190 configuration "
                "trees x all respacings of all contents up to %d letters (1-byte, 2-byte, cluster) x both modes x 2 seeds on the real "
                "preprocessing(): the observed (input, target, marks, error) is one of Eval's outcomes; B: random trees of depth <=2 with "
                "random texts. non-trivial = >=2 distinct primitives or a substring function" % (2 if q else 3))
    ctx.assumptions = ["the random generator is not modelled: the switch draw is read back from the seed by the harness, the substring "
                       "window is an arbitrary one of the possible windows", "draws within 1e-6 of a switch threshold are skipped"]
    cfg = ("CONSTANTS MaxText = 2 Depth = %d\nSPECIFICATION Spec\nINVARIANTS Refines WsOnlyKeepsContent MarksGrow SubstringKeepsAlignment\n"
           "PROPERTY Terminates\nCHECK_DEADLOCK FALSE\n" % (1 if q else 2))
    vlib.mc(ctx, "MC_Proc", cfg, name="MC_Proc", workers=8, timeout=3000)
    gcfg = ("CONSTANTS MaxLen = %d Seeds = %d AllTargets = %s\nINIT Init\nNEXT Next\nCHECK_DEADLOCK FALSE\n"
            % ((2, 1, "FALSE") if q else (3, 2, "TRUE")))
    cases, n = vlib.tlc_generate(ctx, "Gen_Proc", gcfg, "cases-a.ndjson")
    keys = ["cfg", "i", "t", "g", "r", "outs"]
    vlib.exec_and_judge(ctx, "proc", cases, "Trace_Proc", "A", sample_keys=keys)
    ctx.exhaustive = True
    rnd = ctx.path("cases-b.ndjson")
    vlib.harness(["gen", "proc", ctx.seed, 4000 if q else 60000, rnd])
    vlib.exec_and_judge(ctx, "proc", rnd, "Trace_Proc", "B", sample_keys=keys)


@ext("X03", "post", "Trace_Post", "task inputs and postprocessing pipeline: label shifting, clip_length, token masking, on_mark / switch_on_mark")
def x03(ctx):
    q = ctx.quick()
    ctx.rule = ("MC: small-step interpreter (one action per configuration node; masking replaces any subset of the maskable positions) for "
                "all trees of depth 1/2 over {none, clip, mask, mask with probability 0} x 4 mark sets x token sequences up to length 5/6 x "
                "clip lengths {0,2,4} x 0..1 prefix and suffix tokens: executed primitives = Flat(cfg), the abstraction (length, maskable "
                "positions, certain panic) used by the trace validator is sound, prefix/suffix tokens are never masked, clip bounds the "
                "length; A: the same trees on the real postprocessing() for generation / conditional generation / sequence classification "
                "/ classification items, and all task-input cases (texts up to 2 characters x masked prefix x separator x 0..2 prefix and "
                "suffix tokens) on the real train_task(); B: random. non-trivial = at least one primitive on >=2 tokens / >=3 tokens")
    ctx.assumptions = ["the random generator is not modelled (switch draw read back from the seed; masking = any subset of maskable positions)",
                       "the byte tokenizer supplies the token sequences of the task functions (it is the subject of C01)"]
    cfg = ("CONSTANTS MaxN = %d Ls = {0, 2, 4} Depth = %d\nSPECIFICATION Spec\nINVARIANTS RefinesFlat AbsSound NeverGrows ClipBounds "
           "PrefixSuffixProtected OnlyMaskToken\nPROPERTY Terminates\nCHECK_DEADLOCK FALSE\n" % ((5, 1) if q else (6, 2)))
    vlib.mc(ctx, "MC_Post", cfg, name="MC_Post", workers=8, timeout=3000)
    gcfg = "CONSTANTS MaxN = %d Depth = %d\nINIT Init\nNEXT Next\nCHECK_DEADLOCK FALSE\n" % ((5, 1) if q else (6, 2))
    keys = ["kind", "cfg", "marks", "n", "L", "pfx", "sfx", "task", "i", "t", "out"]
    for fam in ("post", "task"):
        cases, n = vlib.tlc_generate(ctx, "Gen_Post", gcfg, "cases-a-%s.ndjson" % fam, env={"FAMILY": fam})
        vlib.exec_and_judge(ctx, "post", cases, "Trace_Post", "A-" + fam, sample_keys=keys)
    ctx.exhaustive = True
    rnd = ctx.path("cases-b.ndjson")
    vlib.harness(["gen", "post", ctx.seed, 4000 if q else 60000, rnd])
    vlib.exec_and_judge(ctx, "post", rnd, "Trace_Post", "B", sample_keys=keys)


@ext("X04", "chat", "Trace_Chat", "chat template: new / format / ChatDecode")
def x04(ctx):
    q = ctx.quick()
    mm = 3 if q else 4
    ctx.rule = ("MC: format() as a step machine (one message per step) for all chats up to %d messages over {known role u, known role b, "
                "unknown role} x {empty text, text} x partial: the fold equals the closed form (start, messages, end unless the last "
                "message is partial; unknown role or a partial message that is not the last is an error), errors are sticky; A: the same "
                "chats x 4 templates (without / with start and end; a role template with no and with two {text} patterns, which new() "
                "must reject) on the real ChatTemplate and through the ChatDecode preprocessing (JSON chat, partial member optional); "
                "B: random chats incl. the default template, texts containing the pattern itself, quotes, newlines. "
                "non-trivial = >=2 messages" % mm)
    ctx.assumptions = ["strings are compared by code points"]
    vlib.mc(ctx, "MC_Chat", "CONSTANTS MaxMsgs = %d\nSPECIFICATION Spec\nINVARIANTS FoldIsClosedForm ErrorIsSticky\nPROPERTY Terminates\n"
            "CHECK_DEADLOCK FALSE\n" % mm, name="MC_Chat")
    cases, n = vlib.tlc_generate(ctx, "Gen_Chat", "CONSTANTS MaxMsgs = %d\nINIT Init\nNEXT Next\nCHECK_DEADLOCK FALSE\n" % mm, "cases-a.ndjson")
    keys = ["tpl", "newok", "chat", "out"]
    vlib.exec_and_judge(ctx, "chat", cases, "Trace_Chat", "A", sample_keys=keys)
    ctx.exhaustive = True
    rnd = ctx.path("cases-b.ndjson")
    vlib.harness(["gen", "chat", ctx.seed, 3000 if q else 40000, rnd])
    vlib.exec_and_judge(ctx, "chat", rnd, "Trace_Chat", "B", sample_keys=keys)


@ext("X05", "infer", "Trace_Infer", "inference loader: error slot, source / result scans around the threaded pipe")
def x05(ctx):
    q = ctx.quick()
    ml = 3 if q else 4
    ctx.rule = ("MC: Infer.tla (non-fused source scan, enumerate behind it, W pipe workers that each stop at their own first None, in-order "
                "hand-over, result scan + fused flatten, one-place error slot written by both scans) for all item sequences up to 4 over "
                "{1 window, 2 windows, source error, window error}: for W in {0,1} the first error ends the stream (FirstErrorEndsTheStream) "
                "and exactly then an error is reported; for W = 2 TLC finds the counterexample (recorded finding) while the mechanism "
                "prediction (stream goes on until W source errors were met; indices consecutive) and 'an error that was met is reported' "
                "hold for W <= 3; A: all item sequences up to %d over 5 kinds x 0..3 threads x buffer x batch limit x sort on the real "
                "InferenceLoader (guarded hook): delivered (item, window) pairs = Expected, error reported iff an item failed, batches "
                "non-empty and within the count limit; DRIFT if the stream differs from the mechanism prediction; B: random. "
                "non-trivial = a failing item behind at least one delivered window" % ml)
    ctx.assumptions = ["windows() and the tokenizer supply the per-item window lists (C16 / C01)", "batch composition is the subject of C06"]
    for w in (0, 1):
        vlib.mc(ctx, "MC_Infer", "CONSTANTS W = %d MaxLen = 4 Items <- MCItems\nSPECIFICATION Spec\nINVARIANTS MechanismOutcome "
                "SomeMetErrorIsReported ErrorIsReported FirstErrorEndsTheStream IndexIsPosition\nPROPERTY Terminates\nCHECK_DEADLOCK FALSE\n" % w,
                name="MC_Infer-W%d" % w)
    vlib.mc(ctx, "MC_Infer", "CONSTANTS W = 2 MaxLen = 4 Items <- MCItems\nSPECIFICATION Spec\nINVARIANTS FirstErrorEndsTheStream\n"
            "CHECK_DEADLOCK FALSE\n", name="MC_Infer-W2-finding", expect_violation="FirstErrorEndsTheStream", coverage=False)
    for w in ((2,) if q else (2, 3)):
        vlib.mc(ctx, "MC_Infer", "CONSTANTS W = %d MaxLen = 4 Items <- MCItems\nSPECIFICATION Spec\nINVARIANTS MechanismOutcome "
                "SomeMetErrorIsReported ErrorIsReported\nPROPERTY Terminates\nCHECK_DEADLOCK FALSE\n" % w, name="MC_Infer-W%d" % w, workers=8)
    cases, n = vlib.tlc_generate(ctx, "Gen_Infer", "CONSTANTS MaxLen = %d\nINIT Init\nNEXT Next\nCHECK_DEADLOCK FALSE\n" % ml, "cases-a.ndjson")
    keys = ["items", "threads", "sort", "batches", "err", "err_src"]
    vlib.exec_and_judge(ctx, "infer", cases, "Trace_Infer", "A", sample_keys=keys, per_case_timeout_ms=20000)
    ctx.exhaustive = True
    rnd = ctx.path("cases-b.ndjson")
    vlib.harness(["gen", "infer", ctx.seed, 1500 if q else 20000, rnd])
    vlib.exec_and_judge(ctx, "infer", rnd, "Trace_Infer", "B", sample_keys=keys, per_case_timeout_ms=20000)


@ext("X06", "lines", "Trace_Lines", "line reader (LossyUtf8Reader) and jsonl item layer")
def x06(ctx):
    q = ctx.quick()
    ml, mj = (5, 3) if q else (6, 4)
    ctx.rule = ("MC: the reader as a step machine (one next() per step) for every file up to 6/7 bytes over {LF, CR, a, space}: the lines read "
                "so far re-join (with LF or CR LF, the last one possibly without) to the consumed prefix, the count is #LF + 1 for an "
                "unterminated last line, no line contains LF; A: every file up to %d bytes over {LF, CR, a, 195, 164, 255} written to disk and "
                "read by the real LossyUtf8Reader (lines, count of a second pass; valid lines exactly, invalid bytes become U+FFFD), and every "
                "jsonl file of up to %d lines over 8 line kinds x LF / CRLF x terminated last line through the real "
                "train_data_generator_from_jsonl (one Ok / Err item per line in order, reported length = number of lines); B: random. "
                "non-trivial = at least one terminator / two lines" % (ml, mj))
    ctx.assumptions = ["String::from_utf8_lossy is described only by what it keeps (the valid part) and by the replacement character"]
    vlib.mc(ctx, "MC_Lines", "CONSTANTS MaxLen = %d\nSPECIFICATION Spec\nINVARIANTS PrefixInv DoneInv NoCRLFInside\nPROPERTY Terminates\n"
            "CHECK_DEADLOCK FALSE\n" % (6 if q else 7), name="MC_Lines")
    gcfg = "CONSTANTS MaxLen = %d MaxLines = %d\nINIT Init\nNEXT Next\nCHECK_DEADLOCK FALSE\n" % (ml, mj)
    keys = ["kind", "bytes", "lines", "kinds", "items", "reported"]
    for fam in ("bytes", "jsonl"):
        cases, n = vlib.tlc_generate(ctx, "Gen_Lines", gcfg, "cases-a-%s.ndjson" % fam, env={"FAMILY": fam})
        vlib.exec_and_judge(ctx, "lines", cases, "Trace_Lines", "A-" + fam, sample_keys=keys)
    ctx.exhaustive = True
    rnd = ctx.path("cases-b.ndjson")
    vlib.harness(["gen", "lines", ctx.seed, 3000 if q else 40000, rnd])
    vlib.exec_and_judge(ctx, "lines", rnd, "Trace_Lines", "B", sample_keys=keys)


@ext("X07", "textfn", "Trace_Words", "regex-built text helpers: word counts, word parts, substring search ignoring whitespace, word replacement")
def x07(ctx):
    q = ctx.quick()
    ml = 4 if q else 5
    ctx.rule = ("MC: the three regex scans as step machines (one match attempt per step) for every text up to 3/4 code points over 8 slots "
                "(space, tab, letter, combining mark, '.', CR, LF, digit) and every needle up to 2: the scan result equals the declarative "
                "reading (whitespace-separated words with the run in front of them; word-class runs without \\w neighbours; leftmost match "
                "of the needle up to whitespace, preferring the greedy one), earlier start positions admit no match; A: every text up to "
                "%d/%d code points over per-family slot subsets of a 16-slot alphabet (whitespace kinds incl. NBSP, CR LF, mark, digit, "
                "connector, multi-byte letter, regex meta characters . ( \\ * -) through the real count_words_whitespace (both modes), "
                "split_words, find_substring_ignoring_whitespace (needles up to 2, both segmentation modes) and replace_word; B: random "
                "texts up to 40 code points with needles cut out of the text and re-spaced. non-trivial = two words / a part in a longer "
                "word / a match longer than the needle" % (ml, ml - 1))
    ctx.assumptions = ["the alphabet's grapheme clusters follow the rules written in Words.tla (a mark extends anything but a control, CR LF)"]
    vlib.mc(ctx, "MC_Words", "CONSTANTS MaxLen = %d MaxSub = 2 Slots = {1, 2, 3, 5, 7, 10, 11, 12}\nSPECIFICATION Spec\n"
            "INVARIANTS CountInv PartsInv PartsStepInv FindStepInv FindInv\nPROPERTY Terminates\nCHECK_DEADLOCK FALSE\n" % (3 if q else 4),
            name="MC_Words", workers=8)
    gcfg = "CONSTANTS MaxLen = %d\nINIT Init\nNEXT Next\nCHECK_DEADLOCK FALSE\n" % ml
    keys = ["kind", "t", "sub", "g", "found", "p", "z", "counts", "words"]
    for fam in ("count", "split", "find", "meta", "replace"):
        cases, n = vlib.tlc_generate(ctx, "Gen_Words", gcfg, "cases-a-%s.ndjson" % fam, env={"FAMILY": fam})
        vlib.exec_and_judge(ctx, "textfn", cases, "Trace_Words", "A-" + fam, sample_keys=keys)
    ctx.exhaustive = True
    rnd = ctx.path("cases-b.ndjson")
    vlib.harness(["gen", "textfn", ctx.seed, 4000 if q else 40000, rnd])
    vlib.exec_and_judge(ctx, "textfn", rnd, "Trace_Words", "B", sample_keys=keys)


@ext("X08", "norm", "Trace_Norm", "Unicode normalisation (unicode::normalize, Normalize preprocessing) and the JsonDecode preprocessing")
def x08(ctx):
    q = ctx.quick()
    ml = 3 if q else 4
    ctx.rule = ("MC: the algebra of the four normal forms over every closed text up to 3/4 code points of a 14-slot alphabet (letters, "
                "their precomposed forms, two combining marks of different classes, a ligature, the spacing accent, CR, LF): each form is "
                "idempotent, composing a decomposed form gives the composed form and vice versa, decomposed forms hold no composite, "
                "composed forms no composable pair, marks are in canonical order, normalising cluster by cluster equals normalising "
                "the text; A: every such text x 4 schemes x both modes through the real normalize (twice) and the Normalize "
                "preprocessing (the other part untouched), and every JSON string literal of up to %d pieces (plain, multi-byte, five "
                "escapes, \\u escape, raw line feed, bad escape, stray quote) x opening / closing quote x trailing garbage x part "
                "through the JsonDecode preprocessing; B: random. non-trivial = the normal form differs from the text / a non-empty "
                "decoded string" % (ml - 1))
    ctx.assumptions = ["the decompositions, combining classes and composites of the 14 code points are written into Norm.tla (Unicode data)",
                       "texts with a cedilla behind e / a / i are outside the closed alphabet (their composites are not slots) and skipped"]
    vlib.mc(ctx, "MC_Norm", "CONSTANTS MaxLen = %d\nSPECIFICATION Spec\nINVARIANTS Idempotent Lattice NoComposites NoComposable Ordered "
            "ClusterWise SameLetters\nCHECK_DEADLOCK FALSE\n" % (3 if q else 4), name="MC_Norm", workers=8)
    gcfg = "CONSTANTS MaxLen = %d\nINIT Init\nNEXT Next\nCHECK_DEADLOCK FALSE\n" % ml
    keys = ["kind", "t", "scheme", "g", "out", "lit", "part", "res"]
    for fam in ("norm", "json"):
        cases, n = vlib.tlc_generate(ctx, "Gen_Norm", gcfg, "cases-a-%s.ndjson" % fam, env={"FAMILY": fam})
        vlib.exec_and_judge(ctx, "norm", cases, "Trace_Norm", "A-" + fam, sample_keys=keys)
    ctx.exhaustive = True
    rnd = ctx.path("cases-b.ndjson")
    vlib.harness(["gen", "norm", ctx.seed, 4000 if q else 40000, rnd])
    vlib.exec_and_judge(ctx, "norm", rnd, "Trace_Norm", "B", sample_keys=keys)


@ext("X09", "kwin", "Trace_KWindows", "sliding-window finder (utils::find_subsequences_of_max_size_k), byte / character windows of text.rs, accumulate, run-length coding")
def x09(ctx):
    q = ctx.quick()
    ml = 4 if q else 5
    ctx.rule = ("MC: the finder of src/utils.rs as the state machine of the code, stepped on every sequence of up to %d weights 0-3 x "
                "limits 0-6 x {sum, padded}: no step evaluates an empty window (slice panic), the emitted windows are at every moment a "
                "prefix of the maximal fitting windows by start, at the end all of them, every value that fits on its own is covered, "
                "starts and ends grow strictly, the machine ends (negative control: a non-monotone size function breaks it); run-length coding is the one encoding into non-empty runs with "
                "differing neighbours. A: every sequence up to %d x limit 0-7 x both size functions through the real finder, every text "
                "of up to %d characters of 1-4 bytes x byte limit 0-9 / character limit through possible_byte_substrings / "
                "possible_character_substrings (both cluster modes), every sequence over three values through run_length_encode / "
                "decode / accumulate, every list of <= 3 (value, count 0-2) pairs through run_length_decode; B: random (longer, "
                "larger weights, weights in units of 100 000). non-trivial = two or more windows / a run of two or more" % (ml + 1, ml, ml - 1))
    ctx.assumptions = ["size functions are monotone (sum of weights, largest weight x count): the two the library passes in"]
    vlib.mc(ctx, "MC_KWindows", "CONSTANTS MaxLen = %d MaxW = 3 MaxK = 6 Fs = {\"sum\", \"padded\"}\nSPECIFICATION Spec\nINVARIANTS TypeOK WindowNonEmpty "
            "OutIsPrefix DoneIsAll Covering Increasing RleIsTheEncoding\nPROPERTY Terminates\nCHECK_DEADLOCK FALSE\n" % (ml + 1 if not q else ml),
            name="MC_KWindows", workers=8)
    # negative control: with a size function that is not monotone (the weight of the last value) the emitted windows are not the maximal ones
    vlib.mc(ctx, "MC_KWindows", "CONSTANTS MaxLen = 3 MaxW = 2 MaxK = 2 Fs = {\"last\"}\nSPECIFICATION Spec\nINVARIANTS OutIsPrefix DoneIsAll\n"
            "CHECK_DEADLOCK FALSE\n", name="MC_KWindows-nonmonotone", workers=2, coverage=False, expect_violation="OutIsPrefix|DoneIsAll")
    gcfg = "CONSTANTS MaxLen = %d\nINIT Init\nNEXT Next\nCHECK_DEADLOCK FALSE\n" % ml
    keys = ["kind", "v", "k", "f", "out", "e", "enc"]
    for fam in ("find", "text", "code"):
        cases, n = vlib.tlc_generate(ctx, "Gen_KWindows", gcfg, "cases-a-%s.ndjson" % fam, env={"FAMILY": fam})
        vlib.exec_and_judge(ctx, "kwin", cases, "Trace_KWindows", "A-" + fam, sample_keys=keys)
    ctx.exhaustive = True
    rnd = ctx.path("cases-b.ndjson")
    vlib.harness(["gen", "kwin", ctx.seed, 4000 if q else 40000, rnd])
    vlib.exec_and_judge(ctx, "kwin", rnd, "Trace_KWindows", "B", sample_keys=keys)
