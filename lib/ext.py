"""Extension components: parts of text-utils that are specified and bound to the code in the same way as the
properties (MC -> A -> B, verdict by TLC) but are not among the 20 listed properties.  They are run with
`./check X01` ... or `./check ext` (all); they print EXT-VIOLATION (never VIOLATION property=...) and write
evidence/ext/<id>.json.  They are not registered in MANIFEST.json's checks."""
import vlib
from props import prop

EXT = {}


def ext(pid, component, trace, title):
    def deco(fn):
        EXT[pid] = title
        return prop(pid, component, trace)(fn)
    return deco


@ext("X01", "cstr", "Trace_CharString", "CharString index layer and substring enumerations")
def x01(ctx):
    q = ctx.quick()
    ml = 4 if q else 5
    ctx.rule = ("MC: run_length_encode (one element per step) and the byte_start_end scan (one run per step) for every sequence of "
                "character byte lengths up to 5/6 over {1,2,3,4} and every index: scan = prefix sums, panic exactly for n >= len, "
                "sub / char_range_to_byte_range = clamped prefix-sum ranges for all (a, b), the transcribed window search satisfies the "
                "byte-substring contract for budgets 0..7; A: all texts up to %d characters over 6 slots of 3 alphabets (ASCII, multi-byte, "
                "clusters incl. CRLF) x both segmentation modes: len, get(n) for all n <= len+1, sub(a,b) for all a <= b <= len+2, "
                "get_char_byte_lengths, split, character substrings for every max, byte substrings for budgets 0..12; B: random texts "
                "up to 30 characters. non-trivial = characters of different byte lengths" % ml)
    ctx.assumptions = ["unicode-segmentation defines the characters (trusted view)"]
    cfg = ("CONSTANTS LenSet = {1,2,3,4} MaxN = %d\nSPECIFICATION Spec\nINVARIANTS EncodeInv ScanInv ResultInv DerivedInv ByteSubInv\n"
           "PROPERTY Terminates\nCHECK_DEADLOCK FALSE\n" % (5 if q else 6))
    vlib.mc(ctx, "MC_CharString", cfg, name="MC_CharString", workers=8)
    gcfg = "CONSTANTS MaxLen = %d\nINIT Init\nNEXT Next\nCHECK_DEADLOCK FALSE\n" % ml
    cases, n = vlib.tlc_generate(ctx, "Gen_CharString", gcfg, "cases-a.ndjson")
    keys = ["s", "g", "lens", "gets", "subs"]
    vlib.exec_and_judge(ctx, "cstr", cases, "Trace_CharString", "A", sample_keys=keys)
    ctx.exhaustive = True
    rnd = ctx.path("cases-b.ndjson")
    vlib.harness(["gen", "cstr", ctx.seed, 3000 if q else 40000, rnd])
    vlib.exec_and_judge(ctx, "cstr", rnd, "Trace_CharString", "B", sample_keys=keys)
