"""Shared machinery of the /verif orchestrator (python3 stdlib only).

Everything that decides a property is done by TLC on the TLA+ modules under
/verif/spec.  This file only runs tools, moves files and counts.
"""
import json
import os
import re
import shutil
import subprocess
import sys
import time

VERIF = os.path.dirname(os.path.dirname(os.path.abspath(__file__)))
SPEC = os.path.join(VERIF, "spec")
HARNESS = os.path.join(VERIF, "harness")
REPO = os.environ.get("VERIF_REPO", "/repo")
TLA_JAR = "/opt/veriftools/tla/tla2tools.jar"


class ToolError(Exception):
    """Anything that is not a verdict about the code: exit status 2."""


def log(*a):
    print(*a, flush=True)


class Ctx:
    def __init__(self, pid, tier, seed):
        self.pid = pid
        self.tier = tier
        self.seed = seed
        self.t0 = time.time()
        self.work = os.path.join(VERIF, "work", "%s-%d" % (pid, os.getpid()))
        shutil.rmtree(self.work, ignore_errors=True)
        os.makedirs(self.work)
        self.violations = []      # (why, replay_path)
        self.known = []           # (finding id, text)
        self.drift = []
        self.mc = []              # per TLC model-checking run: dict
        self.states = 0
        self.transitions = 0
        self.traces = 0           # traces / replayed behaviours / judged observations
        self.evaluations = 0
        self.nontrivial = 0
        self.skipped = 0
        self.samples = []
        self.extra = {}
        self.assumptions = []
        self.rule = ""
        self.exhaustive = False

    def quick(self):
        return self.tier == "quick"

    def path(self, name):
        return os.path.join(self.work, name)

    def cleanup(self):
        shutil.rmtree(self.work, ignore_errors=True)


# --------------------------------------------------------------------------
# building and running the harness

_built = False


def build_harness():
    """cargo build of the harness against the current /repo working tree."""
    global _built
    if _built:
        return
    env = dict(os.environ)
    env["CARGO_NET_OFFLINE"] = "true"
    lock = os.path.join(HARNESS, "Cargo.lock")
    if not os.path.exists(lock):
        shutil.copy(os.path.join(REPO, "Cargo.lock"), lock)
    t = time.time()
    p = subprocess.run(["cargo", "build", "--offline"], cwd=HARNESS, env=env,
                       stdout=subprocess.PIPE, stderr=subprocess.STDOUT, text=True)
    if p.returncode != 0:
        tail = "\n".join(p.stdout.splitlines()[-40:])
        raise ToolError("harness build failed:\n" + tail)
    log("[build] harness built in %.1fs" % (time.time() - t))
    _built = True


def harness_bin():
    return os.path.join(HARNESS, "target", "debug", "tuverif")


def harness(args, timeout=1800, ok_codes=(0,), env=None):
    build_harness()
    e = dict(os.environ)
    if env:
        e.update(env)
    args = [str(a) for a in args]
    if args and args[0] == "exec":
        p = _harness_exec(args, timeout, e)
        for _ in range(4):
            if not recheck_hangs(args[1], args[2], args[3], args[4] if len(args) > 4 else "5000", e, timeout):
                break
        return p
    try:
        p = subprocess.run([harness_bin()] + args, stdout=subprocess.PIPE,
                           stderr=subprocess.PIPE, text=True, timeout=timeout, env=e)
    except subprocess.TimeoutExpired:
        raise ToolError("harness timed out: %s" % (args,))
    if p.returncode not in ok_codes:
        raise ToolError("harness %s exited with %d\n%s\n%s" % (args, p.returncode, p.stdout[-2000:], p.stderr[-2000:]))
    return p


def _harness_exec(args, timeout, e, first=0):
    """exec <component> <cases> <obs> [timeout_ms]: the harness appends the observations case by case.  Exit status 1
    is the library's own process-exiting panic hook (Pipe::new installs it) firing inside the code under test: that is
    data, not a tool failure - the case in flight is recorded as `process_exit` and the run resumes behind it."""
    comp, cases_path, obs_path = args[1], args[2], args[3]
    to = args[4] if len(args) > 4 else "5000"
    exits = 0
    ncases = len(read_ndjson(cases_path))
    while True:
        try:
            p = subprocess.run([harness_bin(), "exec", comp, cases_path, obs_path, to, str(first)], stdout=subprocess.PIPE,
                               stderr=subprocess.PIPE, text=True, timeout=timeout, env=e)
        except subprocess.TimeoutExpired:
            raise ToolError("harness timed out: %s" % (args,))
        if p.returncode == 0:
            return p
        # the process was ended by the code under test: exit 1 (the library's hook), or killed by SIGABRT / SIGSEGV / SIGBUS /
        # SIGILL (allocation failure, stack overflow of a library thread, abort): all of these are data about the case in flight
        if p.returncode not in (1, -6, -11, -7, -4, 134, 139):
            raise ToolError("harness %s exited with %d\n%s\n%s" % (args, p.returncode, p.stdout[-2000:], p.stderr[-2000:]))
        try:
            with open(obs_path + ".done") as f:
                done = int(f.read().strip() or 0)
        except (OSError, ValueError):
            raise ToolError("harness %s exited with %d before it started a case\n%s" % (args, p.returncode, p.stderr[-2000:]))
        if done >= ncases:
            return p
        cases = read_ndjson(cases_path)
        exits += 1
        # drop a torn last line, then record the case that ended the process
        with open(obs_path, "rb") as f:
            data = f.read()
        if data and not data.endswith(b"\n"):
            data = data[:data.rfind(b"\n") + 1]
        rest = [{"st": "process_exit", "case": cases[done]}]
        if exits >= 6:
            rest += [{"st": "notrun", "case": c} for c in cases[done + 1:]]
        with open(obs_path, "wb") as f:
            f.write(data)
            for r in rest:
                f.write((json.dumps(r, ensure_ascii=False) + "\n").encode())
        if exits >= 6 or done + 1 >= ncases:
            return p
        first = done + 1


def tlaps(ctx, module, timeout=900, threads=4):
    """Check the TLAPS proofs of spec/proofs/<module>.tla (SMT back end).  A proof that does not go through is reported
    as DRIFT (it says something about the proof script or the prover, not about the code) and recorded in the evidence."""
    d = os.path.join(SPEC, "proofs")
    t = time.time()
    rec = {"module": "proofs/" + module, "tool": "tlapm"}
    try:
        p = subprocess.run(["timeout", str(timeout), "tlapm", "--threads", str(threads), module + ".tla"], cwd=d,
                           stdout=subprocess.PIPE, stderr=subprocess.STDOUT, text=True)
        out = p.stdout
    except OSError as e:
        out = "tlapm not available: %s" % e
    m = re.search(r"All (\d+) obligations proved", out)
    rec["wall_s"] = round(time.time() - t, 1)
    if m:
        rec["obligations_proved"] = int(m.group(1))
        log("[proof] %s: all %s obligations proved, %.1fs" % (module, m.group(1), rec["wall_s"]))
    else:
        f = re.search(r"(\d+)/(\d+) obligations failed", out)
        rec["obligations_failed"] = f.group(0) if f else "tlapm did not finish"
        ctx.drift.append("TLAPS proofs of %s did not go through (%s)" % (module, rec["obligations_failed"]))
    ctx.extra.setdefault("proofs", []).append(rec)
    return rec


def apalache(ctx, module, cinit, init, inv, length, nxt=None, expect_error=False, timeout=1200):
    """One Apalache run on spec/apalache/<module>.tla (symbolic, integers unbounded).  Used for inductive-invariant checks:
    a result other than the expected one is DRIFT (it is about the model / the invariant, not about the code)."""
    d = os.path.join(SPEC, "apalache")
    out_dir = ctx.path("apalache")
    cmd = ["timeout", str(timeout), "apalache-mc", "check", "--cinit=" + cinit, "--init=" + init, "--inv=" + inv,
           "--length=%d" % length, "--out-dir=" + out_dir]
    if nxt:
        cmd.append("--next=" + nxt)
    cmd.append(module + ".tla")
    t = time.time()
    try:
        p = subprocess.run(cmd, cwd=d, stdout=subprocess.PIPE, stderr=subprocess.STDOUT, text=True)
        out = p.stdout
    except OSError as e:
        out = "apalache-mc not available: %s" % e
    shutil.rmtree(out_dir, ignore_errors=True)
    ok = "The outcome is: NoError" in out
    err = "The outcome is: Error" in out
    rec = {"module": "apalache/" + module, "tool": "apalache", "cinit": cinit, "init": init, "next": nxt or "Next", "inv": inv,
           "length": length, "outcome": "NoError" if ok else "Error" if err else "did not finish",
           "expected": "Error" if expect_error else "NoError", "wall_s": round(time.time() - t, 1)}
    good = err if expect_error else ok
    log("[apalache] %s %s init=%s next=%s inv=%s length=%d: %s%s, %.1fs"
        % (module, cinit, init, nxt or "Next", inv, length, rec["outcome"], "" if good else " (UNEXPECTED)", rec["wall_s"]))
    if not good:
        ctx.drift.append("Apalache %s: %s/%s/%s gave %s, expected %s" % (module, cinit, init, inv, rec["outcome"], rec["expected"]))
    ctx.extra.setdefault("symbolic_checks", []).append(rec)
    return rec


def read_ndjson(path):
    out = []
    with open(path) as f:
        for line in f:
            line = line.strip()
            if line:
                out.append(json.loads(line))
    return out


def write_ndjson(path, recs):
    with open(path, "w") as f:
        for r in recs:
            f.write(json.dumps(r, ensure_ascii=False) + "\n")


# --------------------------------------------------------------------------
# TLC

_PRINT_RE = re.compile(r'^<<\s*"(FAIL|DRIFT|STAT|CASES|INFO)"')


def parse_tla_value(s):
    """Parse the subset of TLC's value syntax used in PrintT lines:
    tuples <<..>>, strings, integers, booleans."""
    pos = 0

    def ws():
        nonlocal pos
        while pos < len(s) and s[pos] in " \n\t":
            pos += 1

    def val():
        nonlocal pos
        ws()
        if s.startswith("<<", pos):
            pos += 2
            items = []
            ws()
            if s.startswith(">>", pos):
                pos += 2
                return items
            while True:
                items.append(val())
                ws()
                if s.startswith(">>", pos):
                    pos += 2
                    return items
                if s[pos] == ",":
                    pos += 1
                else:
                    raise ValueError("bad tuple at %d in %r" % (pos, s))
        if s[pos] == '"':
            pos += 1
            out = []
            while s[pos] != '"':
                if s[pos] == "\\":
                    pos += 1
                out.append(s[pos])
                pos += 1
            pos += 1
            return "".join(out)
        m = re.match(r"-?\d+", s[pos:])
        if m:
            pos += m.end()
            return int(m.group(0))
        for lit, v in (("TRUE", True), ("FALSE", False)):
            if s.startswith(lit, pos):
                pos += len(lit)
                return v
        raise ValueError("cannot parse %r at %d" % (s, pos))

    return val()


def tlc(ctx, module, cfg, env=None, workers=4, timeout=1200, xmx="4g", dfs=False,
        extra=(), coverage=False, name=None, simulate=None):
    """Run TLC on spec/<module>.tla with config file `cfg` (path or text).
    Returns dict(out, states, distinct, ok, errors, prints)."""
    name = name or module
    if "\n" in cfg:
        cfgpath = ctx.path(name + ".cfg")
        with open(cfgpath, "w") as f:
            f.write(cfg)
    else:
        cfgpath = cfg if os.path.isabs(cfg) else os.path.join(SPEC, cfg)
    metadir = ctx.path("md-" + name)
    e = dict(os.environ)
    jtmp = ctx.path("jtmp-" + name)
    os.makedirs(jtmp, exist_ok=True)
    jopts = "-Xss1g -XX:+UseParallelGC -Djava.io.tmpdir=" + jtmp
    if dfs:
        jopts += " -Dtlc2.tool.queue.IStateQueue=StateDeque"
    e["JAVA_TOOL_OPTIONS"] = jopts
    if env:
        e.update({k: str(v) for k, v in env.items()})
    cmd = ["timeout", str(timeout), "java", "-Xmx" + xmx, "-cp", TLA_JAR + ":" + _community(),
           "tlc2.TLC", "-workers", str(workers), "-metadir", metadir, "-cleanup",
           "-noGenerateSpecTE", "-config", cfgpath]
    if coverage:
        cmd += ["-coverage", "1"]
    if simulate:
        cmd += ["-simulate", simulate]
    cmd += list(extra) + [module + ".tla"]
    t = time.time()
    p = subprocess.run(cmd, cwd=SPEC, env=e, stdout=subprocess.PIPE, stderr=subprocess.STDOUT, text=True)
    out = p.stdout
    with open(ctx.path(name + ".tlc.log"), "w") as f:
        f.write(out)
    shutil.rmtree(metadir, ignore_errors=True)
    shutil.rmtree(jtmp, ignore_errors=True)
    if p.returncode == 124:
        raise ToolError("TLC timed out after %ss on %s" % (timeout, name))
    res = {"out": out, "rc": p.returncode, "wall": time.time() - t, "name": name}
    m = re.findall(r"(\d+) states generated, (\d+) distinct states found", out)
    if m:
        res["states"] = int(m[-1][1])
        res["generated"] = int(m[-1][0])
    else:
        res["states"] = res["generated"] = 0
    m = re.search(r"The depth of the complete state graph search is (\d+)", out)
    res["depth"] = int(m.group(1)) if m else 0
    res["errors"] = [l for l in out.splitlines() if l.startswith("Error:")]
    res["ok"] = ("Model checking completed. No error has been found." in out) or \
                (simulate is not None and not res["errors"] and p.returncode == 0)
    prints = []
    lines = out.splitlines()
    k = 0
    while k < len(lines):
        line = lines[k]
        if _PRINT_RE.match(line):
            # TLC's pretty printer wraps long values over several lines
            buf = line
            while buf.count("<<") > buf.count(">>") and k + 1 < len(lines):
                k += 1
                buf += " " + lines[k].strip()
            try:
                prints.append(parse_tla_value(buf))
            except Exception:
                raise ToolError("cannot parse TLC output: " + buf[:300])
        k += 1
    res["prints"] = prints
    return res


_comm = None


def _community():
    global _comm
    if _comm is None:
        # the `tlc` wrapper on PATH knows where the CommunityModules jar is
        cands = []
        for root in ("/opt/veriftools/tla",):
            for fn in os.listdir(root):
                if fn.endswith(".jar") and "tla2tools" not in fn:
                    cands.append(os.path.join(root, fn))
        _comm = ":".join(sorted(cands))
    return _comm


def mc(ctx, module, cfg, workers=None, timeout=1500, coverage=True, name=None, env=None, xmx="8g",
       expect_violation=None, disabled_ok=()):
    """Model-check a design-level module; a counter-example on the unchanged
    specification is a specification error (tool error), unless it is a
    negative control that must fail (expect_violation = invariant/property name)."""
    if workers is None:
        workers = 4 if ctx.quick() else 12
    r = tlc(ctx, module, cfg, workers=workers, timeout=timeout, coverage=coverage, name=name, env=env, xmx=xmx)
    entry = {"module": module, "config": os.path.basename(cfg) if "\n" not in cfg else (name or module),
             "distinct_states": r["states"], "states_generated": r["generated"], "depth": r["depth"],
             "wall_s": round(r["wall"], 1)}
    if expect_violation:
        hit = any(re.search(expect_violation, l) for l in r["out"].splitlines() if "violated" in l or "Error:" in l)
        if r["ok"] or not hit:
            raise ToolError("negative control %s/%s did not produce the expected violation of %s"
                            % (module, entry["config"], expect_violation))
        entry["negative_control"] = expect_violation
        ctx.mc.append(entry)
        log("[mc] %s %s: negative control violated %s as expected (%d states, %.1fs)"
            % (module, entry["config"], expect_violation, r["states"], r["wall"]))
        return r
    if not r["ok"]:
        tail = "\n".join(r["out"].splitlines()[-60:])
        raise ToolError("model checking of %s failed (a counter-example on the unchanged "
                        "specification is a specification error):\n%s" % (module, tail))
    if coverage:
        cov = action_coverage(r["out"])
        entry["actions"] = cov
        dead = [a for a, n in cov.items() if n == 0 and a not in disabled_ok]
        if dead:
            raise ToolError("vacuity: actions never taken in %s: %s" % (module, dead))
    ctx.mc.append(entry)
    ctx.states += r["states"]
    ctx.transitions += r["generated"]
    log("[mc] %s %s: %d distinct states, %d generated, depth %d, %.1fs"
        % (module, entry["config"], r["states"], r["generated"], r["depth"], r["wall"]))
    return r


def action_coverage(out):
    """Per-action counts from -coverage 1 (lines '<Action line ..>: distinct:generated')."""
    cov = {}
    for m in re.finditer(r"^<(\w+) line \d+, col \d+ to line \d+, col \d+ of module (\w+)>: (\d+):(\d+)", out, re.M):
        cov[m.group(1)] = max(cov.get(m.group(1), 0), int(m.group(4)))
    return cov


# --------------------------------------------------------------------------
# judging observation logs with a Trace_* module

JUDGE_SPLIT = 60000
JUDGE_SPLIT_BYTES = 48 * 1024 * 1024
JUDGE_PART_BYTES = 40 * 1024 * 1024


def judge(ctx, module, obs_path, n_records, env=None, timeout=1500, name=None, workers=None, xmx="6g"):
    """Validate an observation log with spec/<module>.tla (INSTANCE Stepper).
    Returns (fails, drifts, stats): fails = list of (index, [why..]).  Large logs are validated in
    parts of JUDGE_SPLIT records (bounded TLC heap and run time)."""
    big = n_records > JUDGE_SPLIT or (n_records > 1 and os.path.getsize(obs_path) > JUDGE_SPLIT_BYTES)
    if big:
        # TLC turns a JSON log into value objects ~30x its size: keep every part below ~40 MB / 60 000 records
        fails, drifts = [], []
        tot = {"n": 0, "fail": 0, "skip": 0, "nt": 0, "drift": 0}
        part, k, off = ctx.path("judge-part.ndjson"), 0, 0
        with open(obs_path) as f:
            lines = f.readlines()
        while off < len(lines):
            chunk, size = [], 0
            while off + len(chunk) < len(lines) and len(chunk) < JUDGE_SPLIT and (not chunk or size + len(lines[off + len(chunk)]) <= JUDGE_PART_BYTES):
                size += len(lines[off + len(chunk)])
                chunk.append(lines[off + len(chunk)])
            with open(part, "w") as g:
                g.writelines(chunk)
            k += 1
            f2, d2, t2 = judge(ctx, module, part, len(chunk), env=env, timeout=timeout, name="%s-part%d" % (name or module, k),
                               workers=workers, xmx=xmx)
            fails += [(i + off, w) for (i, w) in f2]
            drifts += [(i + off, w) for (i, w) in d2]
            for key in tot:
                tot[key] += t2[key]
            off += len(chunk)
        os.remove(part)
        return fails, drifts, tot
    if n_records == 0:
        return [], [], {"n": 0, "fail": 0, "skip": 0, "nt": 0, "drift": 0}
    if workers is None:
        workers = 4 if ctx.quick() else 12
    chunks = max(1, min(workers, n_records))
    e = {"OBS": obs_path, "NCHUNKS": chunks}
    if env:
        e.update(env)
    r = tlc(ctx, module, "Trace.cfg", env=e, workers=workers, timeout=timeout, name=name or module, xmx=xmx)
    aborted = False
    if not r["ok"]:
        # TLC could not evaluate the clauses on some observation (an observation of a shape the specification does not
        # expect).  That record is undecided; it must not hide violations on the other records: validate sequentially,
        # step over every record that cannot be evaluated, and give up only if nothing else is found.
        return _judge_stepping_over(ctx, module, obs_path, n_records, env, timeout, name, xmx, r)
    fails, drifts = [], []
    tot = {"n": 0, "fail": 0, "skip": 0, "nt": 0, "drift": 0}
    seen_chunks = 0
    for pr in r["prints"]:
        if pr[0] == "FAIL":
            fails.append((pr[1], pr[2]))
        elif pr[0] == "DRIFT":
            drifts.append((pr[1], pr[2]))
        elif pr[0] == "STAT":
            seen_chunks += 1
            tot["n"] += pr[2]
            tot["fail"] += pr[3]
            tot["skip"] += pr[4]
            tot["nt"] += pr[5]
            tot["drift"] += pr[6]
    if not aborted and (seen_chunks != chunks or tot["n"] != n_records):
        raise ToolError("trace validation of %s consumed %d of %d records (%d/%d chunks)"
                        % (module, tot["n"], n_records, seen_chunks, chunks))
    ctx.states += r["states"]
    ctx.transitions += r["generated"]
    fails.sort()
    drifts.sort()
    log("[judge] %s: %d records, %d failing, %d drift, %d skipped, %d non-trivial, %.1fs"
        % (name or module, n_records, len(fails), len(drifts), tot["skip"], tot["nt"], r["wall"]))
    return fails, drifts, tot


def _judge_stepping_over(ctx, module, obs_path, n_records, env, timeout, name, xmx, first):
    with open(obs_path) as f:
        lines = f.readlines()
    fails, drifts = [], []
    tot = {"n": 0, "fail": 0, "skip": 0, "nt": 0, "drift": 0}
    undecided, off, last = [], 0, first
    part = ctx.path("judge-rest.ndjson")
    while off < len(lines):
        with open(part, "w") as g:
            g.writelines(lines[off:])
        e = {"OBS": part, "NCHUNKS": 1}
        if env:
            e.update(env)
        r = tlc(ctx, module, "Trace.cfg", env=e, workers=1, timeout=timeout, name=(name or module) + "-seq", xmx=xmx)
        last = r
        for pr in r["prints"]:
            if pr[0] == "FAIL":
                fails.append((pr[1] + off, pr[2]))
            elif pr[0] == "DRIFT":
                drifts.append((pr[1] + off, pr[2]))
        if r["ok"]:
            break
        m = re.findall(r"/\\ i = (\d+)", r["out"])
        if not m:
            break
        bad = int(m[-1])                      # 1-based index (within the part) of the record that could not be evaluated
        undecided.append(bad + off)
        off += bad
        if len(undecided) >= 30:
            break
    if os.path.exists(part):
        os.remove(part)
    fails = sorted(set((i, tuple(w) if isinstance(w, (list, tuple)) else w) for (i, w) in fails))
    fails = [(i, list(w) if isinstance(w, tuple) else w) for (i, w) in fails]
    ctx.extra["judge_undecided_records"] = ctx.extra.get("judge_undecided_records", 0) + len(undecided)
    log("[judge] %s: TLC could not evaluate %d record(s) (first: %s); %d failing records found on the others"
        % (name or module, len(undecided), undecided[:5], len(fails)))
    if not fails:
        tail = "\n".join(last["out"].splitlines()[-40:])
        raise ToolError("trace validation run of %s failed on records %s and found no violation elsewhere:\n%s"
                        % (module, undecided[:10], tail))
    tot["n"] = n_records
    tot["fail"] = len(fails)
    tot["drift"] = len(drifts)
    return fails, sorted(drifts), tot


# --------------------------------------------------------------------------
# known findings, violations, evidence

def load_findings():
    """known_findings.json (the listed properties) plus ext_findings.json (extension components, same format)."""
    out = {"findings": [], "fixed": []}
    for name in ("known_findings.json", "ext_findings.json"):
        p = os.path.join(VERIF, name)
        if os.path.exists(p):
            with open(p) as f:
                d = json.load(f)
            out["findings"] += d.get("findings", [])
            out["fixed"] += d.get("fixed", [])
    return out


def _match(cond, rec):
    """A finding matcher: dict of path -> expected value (or {'len': n}); all must hold."""
    for path, want in cond.items():
        cur = rec
        for part in path.split("."):
            if isinstance(cur, dict) and part in cur:
                cur = cur[part]
            else:
                return False
        if isinstance(want, dict) and "len" in want:
            if not hasattr(cur, "__len__") or len(cur) != want["len"]:
                return False
        elif isinstance(want, dict) and "prefix" in want:
            if not (isinstance(cur, str) and cur.startswith(want["prefix"])):
                return False
        elif isinstance(want, dict) and "in" in want:
            if cur not in want["in"]:
                return False
        elif cur != want:
            return False
    return True


def classify(ctx, why, rec):
    """Return the known finding that covers (why, record), or None."""
    for f in load_findings().get("findings", []):
        if f["property"] != ctx.pid:
            continue
        if f.get("why") and not any(re.fullmatch(f["why"], w) for w in ([why] if isinstance(why, str) else why)):
            continue
        if _match(f.get("match", {}), rec):
            return f
    return None


def report(ctx, why, rec, component=None, case=None, kind="case"):
    """Report one failing observation: known finding or violation (with replay file)."""
    whys = why if isinstance(why, list) else [why]
    for w in whys:
        if w == "notrun":
            ctx.skipped += 1
            continue
        if w.startswith("harness_panic"):
            raise ToolError("harness failure on %s: %s" % (json.dumps(case)[:300], w))
        f = classify(ctx, w, rec)
        if f is not None:
            if f["id"] not in [k[0] for k in ctx.known]:
                ctx.known.append((f["id"], f["text"]))
            continue
        if sum(1 for (w2, p2) in ctx.violations if w2 == w and p2) >= 3 or \
                sum(1 for (w2, p2) in ctx.violations if p2) >= 15:
            ctx.violations.append((w, None))
            continue
        d = os.path.join(VERIF, "replays", ctx.pid)
        os.makedirs(d, exist_ok=True)
        path = os.path.join(d, "%s-%s-%d.json" % (ctx.tier, re.sub(r"\W+", "_", w)[:40], len(ctx.violations)))
        with open(path, "w") as fh:
            json.dump({"property": ctx.pid, "kind": kind, "component": component, "why": w,
                       "case": case, "observation": rec}, fh, ensure_ascii=False, indent=1)
        ctx.violations.append((w, path))


def finish(ctx, level="model_checking"):
    """Write the evidence file, print the verdict lines, return the exit status."""
    cov = {
        "states": ctx.states,
        "transitions": ctx.transitions,
        "traces_validated_against_impl": ctx.traces,
        "evaluations": ctx.evaluations,
        "distinct_nontrivial": ctx.nontrivial,
        "rule": ctx.rule,
        "samples": ctx.samples[:6] if ctx.samples else ["(none)"],
        "exhaustive": ctx.exhaustive,
        "model_checking_runs": ctx.mc,
        "skipped_outside_precondition": ctx.skipped,
        "model_conformance": not ctx.drift,
        "drift": ctx.drift[:10],
        "known_findings_seen": [k[0] for k in ctx.known],
    }
    cov.update(ctx.extra)
    if SLOW_CASES:
        # time-outs that did not repeat (see recheck_hangs): judged on the records of the repetition, listed here
        cov["slow_cases"] = SLOW_CASES[:10]
        log("SLOW property=%s %d case(s) ran into the per-case time-out once and returned in every repetition on their own "
            "(judged on the repetition)" % (ctx.pid, len(SLOW_CASES)))
    nviol = len(ctx.violations)
    # records that TLC could not evaluate are undecided: they may be stepped over when the run reports a violation anyway,
    # but a run that would otherwise end "held" has not decided them - that is a tool error, not a pass
    und = ctx.extra.get("judge_undecided_records", 0)
    if und and nviol == 0:
        raise ToolError("%d observation(s) could not be evaluated by TLC and no violation was found elsewhere (see the [judge] lines)" % und)
    ev = {
        "property_id": ctx.pid, "tier": ctx.tier, "seed": ctx.seed, "level": level,
        "coverage": cov, "assumptions": ctx.assumptions,
        "wall_s": round(time.time() - ctx.t0, 1), "violations": nviol,
    }
    # extension components (X..) are not properties of properties.jsonl: separate evidence directory and verdict word
    ext = ctx.pid.startswith("X")
    evdir = os.path.join(VERIF, "evidence", "ext") if ext else os.path.join(VERIF, "evidence")
    os.makedirs(evdir, exist_ok=True)
    with open(os.path.join(evdir, ctx.pid + ".json"), "w") as f:
        json.dump(ev, f, indent=1, ensure_ascii=False)
    for d in ctx.drift[:10]:
        log("DRIFT property=%s %s" % (ctx.pid, d))
    for fid, text in ctx.known:
        log("KNOWN-FINDING: property=%s %s: %s" % (ctx.pid, fid, text))
    shown = 0
    for w, path in ctx.violations:
        if path is None:
            continue
        log(("EXT-VIOLATION component=%s replay=%s  (%s)" if ext else "VIOLATION property=%s replay=%s  (%s)") % (ctx.pid, path, w))
        shown += 1
    if nviol > shown:
        log("... and %d more violations without replay files" % (nviol - shown))
    log("[%s] %s tier=%s seed=%d: %d states, %d judged/replayed, %d non-trivial, %d violations, %.1fs"
        % ("FAIL" if nviol else "ok", ctx.pid, ctx.tier, ctx.seed, ctx.states, ctx.traces, ctx.nontrivial,
           nviol, time.time() - ctx.t0))
    return 1 if nviol else 0


# --------------------------------------------------------------------------
# the common shape of a functional property check

SLOW_CASES = []     # cases that ran into the per-case time-out once and returned in every repetition on their own
_rechecking = False


def recheck_hangs(component, cases_path, obs_path, per_case_timeout_ms, env, timeout=1800):
    """A case that did not return within the per-case time-out was recorded as `hang` by the harness.  A time-out is a
    statement about wall-clock time on a machine that other checks share, not yet one about the code: every such case is
    executed again on its own in a fresh process - once, and if that goes through, as often as fits into 30 s (2 to
    30 times).  If any repetition runs into the time-out again, the `hang` record stands (and is judged a violation);
    if every repetition returns, the records of the first repetition take the place of the `hang` record (the case is
    judged like every other one) and the event is listed in the evidence (`slow_cases`).  The harness stops executing after
    six time-outs (`notrun` records): if none of the time-outs stands, the run is resumed behind them (returns True: the
    resumed part has to be looked at again)."""
    global _rechecking
    if _rechecking or not os.path.exists(obs_path):
        return False
    obs = read_ndjson(obs_path)
    hung = [k for k, r in enumerate(obs) if r.get("st") == "hang" and "case" in r]
    if not hung:
        return False
    _rechecking = True
    try:
        changed = False
        stood = 0
        for n, k in enumerate(hung):
            if stood >= 2:
                break       # two time-outs repeated on their own: the verdict is settled, the other records stand as they are
            case = obs[k]["case"]
            cpath, opath = "%s.hang-%d.ndjson" % (obs_path, n), "%s.hang-%d.obs" % (obs_path, n)

            def rerun(times):
                with open(cpath, "w") as f:
                    for _ in range(times):
                        f.write(json.dumps(case, ensure_ascii=False) + "\n")
                for q in (opath, opath + ".done"):
                    if os.path.exists(q):
                        os.remove(q)
                t = time.time()
                _harness_exec(["exec", component, cpath, opath, str(per_case_timeout_ms)], 1800, env)
                recs = read_ndjson(opath)
                bad = [r for r in recs if r.get("st") in ("hang", "notrun")]
                return recs, bad, (time.time() - t) / times

            recs, bad, per = rerun(1)
            total = 1
            if not bad:
                more = max(2, min(30, int(30.0 / max(per, 0.01))))
                _, bad, _ = rerun(more)
                total += more
            if bad:
                stood += 1
                log("[hang] %s record %d hangs again on its own (%d repetitions): the record stands" % (component, k + 1, total))
                continue
            obs[k] = ("__repl__", recs)
            changed = True
            SLOW_CASES.append({"component": component, "timeout_ms": int(per_case_timeout_ms), "repetitions": total, "case": case})
            log("[hang] %s: a case ran into the per-case time-out (%s ms) once and returned in all of %d repetitions on its own"
                % (component, per_case_timeout_ms, total))
        stands = any(isinstance(r, dict) and r.get("st") == "hang" for r in obs)
        notrun = [k for k, r in enumerate(obs) if isinstance(r, dict) and r.get("st") == "notrun"]
        resume = bool(notrun) and not stands
        if resume:
            obs = obs[:notrun[0]]
        if changed:
            with open(obs_path, "w") as f:
                for r in obs:
                    for x in (r[1] if isinstance(r, tuple) and r[0] == "__repl__" else [r]):
                        f.write(json.dumps(x, ensure_ascii=False) + "\n")
        if resume:
            ncases = len(read_ndjson(cases_path))
            log("[hang] %s: resuming behind %d time-outs that did not repeat (case %d of %d)" % (component, len(hung), ncases - len(notrun), ncases))
            _harness_exec(["exec", component, cases_path, obs_path, str(per_case_timeout_ms)], timeout, env, first=ncases - len(notrun))
        return resume
    finally:
        _rechecking = False


def exec_and_judge(ctx, component, cases_path, trace_module, label, per_case_timeout_ms=30000,
                   env=None, sample_keys=None, judge_timeout=1500):
    """cases -> real code (harness exec) -> observation log -> TLC judge."""
    obs_path = ctx.path("obs-%s.ndjson" % label)
    harness(["exec", component, cases_path, obs_path, per_case_timeout_ms])
    obs = read_ndjson(obs_path)
    fails, drifts, st = judge(ctx, trace_module, obs_path, len(obs), env=env, name="%s-%s" % (trace_module, label),
                              timeout=judge_timeout)
    ctx.traces += len(obs)
    ctx.evaluations += len(obs)
    ctx.nontrivial += st["nt"]
    ctx.skipped += st["skip"]
    for idx, why in fails:
        rec = obs[idx - 1]
        report(ctx, why, rec, component=component, case=rec.get("case", rec))
    for idx, why in drifts:
        ctx.drift.append("%s record %d: %s" % (label, idx, why))
    if obs and len(ctx.samples) < 6:
        s = obs[len(obs) // 2]
        if sample_keys:
            s = {k: s.get(k) for k in sample_keys}
        ctx.samples.append({"source": label, "observation": s})
    return obs, fails, st


def tlc_generate(ctx, module, cfg, out_name, env=None, timeout=900, xmx="6g"):
    """Let TLC enumerate a bounded input space (Gen_* module writes ndjson)."""
    out_path = ctx.path(out_name)
    e = {"OUT": out_path}
    if env:
        e.update(env)
    r = tlc(ctx, module, cfg, env=e, workers=1, timeout=timeout, xmx=xmx)
    if r["errors"] or not os.path.exists(out_path):
        raise ToolError("case generation with %s failed:\n%s" % (module, "\n".join(r["out"].splitlines()[-30:])))
    n = sum(1 for _ in open(out_path))
    log("[gen] %s: %d cases enumerated by TLC in %.1fs" % (module, n, r["wall"]))
    return out_path, n
