"""State-graph utilities: parse TLC's `-dump dot,actionlabels` output and derive
a set of initial-state-rooted paths that covers every edge (transition) of the
explored model; each path becomes one schedule replayed on the real code."""
import re
from collections import deque

_NODE = re.compile(r'^(-?\d+) \[label="((?:[^"\\]|\\.)*)"(,style = filled)?')
_EDGE = re.compile(r'^(-?\d+) -> (-?\d+) \[label="([^"]*)"')


def parse_dot(path):
    nodes, edges, init = {}, [], []
    with open(path) as f:
        for line in f:
            m = _EDGE.match(line)
            if m:
                edges.append((m.group(1), m.group(2), m.group(3)))
                continue
            m = _NODE.match(line)
            if m:
                nodes[m.group(1)] = m.group(2)
                if m.group(3):
                    init.append(m.group(1))
    return nodes, edges, init


def edge_cover_paths(edges, inits, max_len=400):
    """Greedy edge cover: BFS tree to the source of an uncovered edge, then extend
    along uncovered edges.  `inits`: list of initial nodes.  Returns list of
    (init, [labels])."""
    out = {}
    for (u, v, lab) in edges:
        out.setdefault(u, []).append((v, lab))
    parent = {}
    order = []
    dq = deque()
    for i in inits:
        parent[i] = None
        dq.append(i)
    while dq:
        u = dq.popleft()
        order.append(u)
        for (v, lab) in out.get(u, []):
            if v not in parent:
                parent[v] = (u, lab)
                dq.append(v)
    covered = set()
    paths = []

    def tree_path(u):
        labs = []
        root = u
        while parent[root] is not None:
            p, lab = parent[root]
            labs.append((p, root, lab))
            root = p
        labs.reverse()
        return root, labs

    for u in order:
        for (v, lab) in out.get(u, []):
            if (u, v, lab) in covered:
                continue
            root, pre = tree_path(u)
            path = pre + [(u, v, lab)]
            cur = v
            while len(path) < max_len:
                nxt = [(w, l2) for (w, l2) in out.get(cur, []) if (cur, w, l2) not in covered and (cur, w, l2) not in path]
                if not nxt:
                    break
                w, l2 = nxt[0]
                path.append((cur, w, l2))
                cur = w
            for e in path:
                covered.add(e)
            paths.append((root, [e[2] for e in path]))
    return paths, len(covered)
