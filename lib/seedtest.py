#!/usr/bin/env python3
"""seedtest.py <seeded dir or patch file> <property> [<property> ...] [--tier quick]

Applies a seeded change to /repo, runs the listed checks against it and undoes the change
straight afterwards.  Prints per check: CAUGHT (exit 1 + VIOLATION line), MISSED (exit 0) or ERROR."""
import os
import subprocess
import sys

VERIF = os.path.dirname(os.path.dirname(os.path.abspath(__file__)))


def main():
    args = [a for a in sys.argv[1:] if not a.startswith("--")]
    tier = "quick"
    if "--tier" in sys.argv:
        tier = sys.argv[sys.argv.index("--tier") + 1]
        args = [a for a in args if a != tier]
    patch = args[0]
    if os.path.isdir(patch):
        patch = os.path.join(patch, "patch.diff")
    props = args[1:]
    st = subprocess.run(["git", "-C", "/repo", "status", "--porcelain"], capture_output=True, text=True).stdout.strip()
    if st:
        print("refusing: /repo has uncommitted changes:\n" + st)
        return 2
    r = subprocess.run(["git", "-C", "/repo", "apply", os.path.abspath(patch)], capture_output=True, text=True)
    if r.returncode != 0:
        print("patch does not apply: " + r.stderr)
        return 2
    rc = 0
    try:
        for p in props:
            q = subprocess.run([os.path.join(VERIF, "check"), p, "--tier", tier], capture_output=True, text=True, cwd=VERIF)
            viol = [l for l in q.stdout.splitlines() if l.startswith("VIOLATION")]
            drift = [l for l in q.stdout.splitlines() if l.startswith("DRIFT")]
            verdict = "CAUGHT" if (q.returncode == 1 and viol) else ("MISSED" if q.returncode == 0 else "ERROR rc=%d" % q.returncode)
            print("%s %s: %s  (%d violation lines, %d drift lines)" % (os.path.basename(os.path.dirname(os.path.abspath(patch))), p, verdict, len(viol), len(drift)))
            for l in (viol[:3] + drift[:2]):
                print("    " + l[:220])
            if verdict.startswith("ERROR"):
                print(q.stdout[-1500:])
            if verdict != "CAUGHT":
                rc = 1
    finally:
        subprocess.run(["git", "-C", "/repo", "checkout", "--", "."])
        subprocess.run(["git", "-C", "/repo", "clean", "-fdq"], capture_output=True)
    return rc


if __name__ == "__main__":
    sys.exit(main())
