#!/bin/sh
# mutrun.sh [patch ...]: runs every mutant of /verif/mutants (or the given patches) against a scratch copy
# of the repository ($VP_RUN_REPO when started with `vp run --with-repo`, else a fresh worktree), never /repo.
# For each mutant the check named by the file prefix is run (quick tier); prints CAUGHT / MISSED / ERROR.
set -u
HERE="$(cd "$(dirname "$0")/.." && pwd)"
REPO_COPY="${VP_RUN_REPO:-}"
if [ -z "$REPO_COPY" ]; then
  REPO_COPY=/tmp/mutrun-repo-$$
  git -C /repo worktree add -q --detach "$REPO_COPY" HEAD || exit 2
  trap 'git -C /repo worktree remove --force "$REPO_COPY"' EXIT
fi
cd "$HERE"
sed -i "s|path = \"/repo\"|path = \"$REPO_COPY\"|" harness/Cargo.toml
export VERIF_REPO="$REPO_COPY"
[ $# -gt 0 ] || set -- mutants/*.patch
for p in "$@"; do
  case "$p" in
    *:*) prop=${p%%:*}; p=${p#*:}; name=$(basename "$(dirname "$p")");;
    *) name=$(basename "$p" .patch); prop=${name%%-*};;
  esac
  git -C "$REPO_COPY" checkout -q -- . 
  if ! git -C "$REPO_COPY" apply "$HERE/$p" 2>/dev/null && ! git -C "$REPO_COPY" apply "$p"; then echo "$name: PATCH-FAILED"; continue; fi
  out=$(./check "$prop" --tier quick 2>&1); rc=$?
  nv=$(echo "$out" | grep -c '^VIOLATION'); nd=$(echo "$out" | grep -c '^DRIFT')
  first=$(echo "$out" | grep '^VIOLATION' | head -1 | sed 's/.*(\(.*\))/\1/')
  case $rc in 1) v=CAUGHT;; 0) v=MISSED;; *) v="ERROR($rc)";; esac
  echo "$name: $v violations=$nv drift=$nd first=$first"
  [ $rc -ge 2 ] && echo "$out" | tail -5
done
git -C "$REPO_COPY" checkout -q -- .
git -C "$HERE" checkout -q -- harness/Cargo.toml 2>/dev/null || sed -i "s|path = \"$REPO_COPY\"|path = \"/repo\"|" harness/Cargo.toml
