#!/bin/sh
# seedconfirm2.sh <PROP> <n> <subdir> : as seedconfirm.sh, for an agent that left its worktree /tmp/mut/<PROP> unchanged and
# delivered /tmp/mut/<PROP>/<subdir>/{patch.diff,demo.rs,README.md}.  Does not remove the worktree (call with KEEP=0 last).
set -u
P=$1; N=$2; SUB=$3; WT=/tmp/mut/$P; HERE="$(cd "$(dirname "$0")/.." && pwd)"; D=$HERE/seeded/$P-$N
cd "$WT" || exit 2
git checkout -q -- . ; rm -f tests/mutant_demo.rs
git apply "$SUB/patch.diff" || { echo "patch does not apply"; exit 2; }
echo "== suite with change"
timeout 1500 cargo test --workspace --no-fail-fast --offline 2>&1 | grep -E "^test result"
mkdir -p tests; cp "$SUB/demo.rs" tests/mutant_demo.rs
echo "== demo with change"
timeout 1200 cargo test --offline --features verif --test mutant_demo 2>&1 | grep -E "^test result|^error"
git apply -R "$SUB/patch.diff" || exit 2
echo "== demo without change"
timeout 1200 cargo test --offline --features verif --test mutant_demo 2>&1 | grep -E "^test result|^error"
rm -f tests/mutant_demo.rs
mkdir -p "$D"; cp "$SUB/patch.diff" "$D/patch.diff"; cp "$SUB/demo.rs" "$D/demo.rs"; cp "$SUB/README.md" "$D/README.md" 2>/dev/null
cd "$HERE"; git -C /repo apply --check "$D/patch.diff" && echo "patch applies to /repo HEAD"
[ "${KEEP:-1}" = "0" ] && git -C /repo worktree remove --force "$WT"
exit 0
