#!/bin/sh
# seedconfirm.sh <PROP> <n> : confirm the sub-agent change in /tmp/mut/<PROP> (suite passes with it, demo fails with / passes
# without it), store it as seeded/<PROP>-<n>/ and remove the scratch worktree.
set -u
P=$1; N=$2; WT=/tmp/mut/$P; HERE="$(cd "$(dirname "$0")/.." && pwd)"; D=$HERE/seeded/$P-$N
cd "$WT" || exit 2
[ -f tests/mutant_demo.rs ] || cp mutant/demo.rs tests/mutant_demo.rs
git diff -- src > /tmp/mut/$P.patch
echo "== suite with change (lib tests only: the demo is excluded)"
mv tests/mutant_demo.rs /tmp/mut/$P.demo.rs
timeout 1200 cargo test --workspace --no-fail-fast --offline 2>&1 | grep -E "^test result" 
mkdir -p tests; cp /tmp/mut/$P.demo.rs tests/mutant_demo.rs
echo "== demo with change"
timeout 1200 cargo test --offline --test mutant_demo 2>&1 | grep -E "^test result|^error"
git apply -R /tmp/mut/$P.patch || exit 2
echo "== demo without change"
timeout 1200 cargo test --offline --test mutant_demo 2>&1 | grep -E "^test result|^error"
mkdir -p "$D"; cp /tmp/mut/$P.patch "$D/patch.diff"; cp /tmp/mut/$P.demo.rs "$D/demo.rs"; cp mutant/README.md "$D/README.md" 2>/dev/null
cd "$HERE"; git -C /repo apply --check "$D/patch.diff" && echo "patch applies to /repo HEAD"
git -C /repo worktree remove --force "$WT"; rm -f /tmp/mut/$P.patch /tmp/mut/$P.demo.rs
