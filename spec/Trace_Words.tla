------------------------------ MODULE Trace_Words ------------------------------
(* Validates recorded calls of count_words_whitespace, split_words, find_substring_ignoring_whitespace and             *)
(* replace_word against Words.tla.  All texts are slot sequences; offsets are 0-based code-point offsets.             *)
(* count  : t, lead, counts = <<key, n>> pairs                                                                         *)
(* split  : t, words = [w, has, parts = <<offset in w, code points>>]                                                  *)
(* find   : t, sub, g, found, p, z (match = code points p .. z-1)                                                      *)
(* replace: word, keys, repl (every key maps to repl), res                                                             *)
EXTENDS Words, TLC, Json, IOUtils
Rec == ndJsonDeserialize(IOEnv.OBS)
NChunks == atoi(IOEnv.NCHUNKS)
VARIABLES c, i, nfail, nskip, nnt, ndrift
Failing(cl) == LET bad == SelectSeq(cl, LAMBDA x : ~x[2]) IN [k \in 1..Len(bad) |-> bad[k][1]]
AsSet(s) == {s[k] : k \in 1..Len(s)}
JCount(r) ==
    LET got == {<<r.counts[k][1], r.counts[k][2]>> : k \in 1..Len(r.counts)}
        ks == Keys(r.t, r.lead)
        cl == <<
          <<"counts_are_the_word_counts", got = CountsOf(DeclKeys(r.t, r.lead))>>,
          <<"one_entry_per_key", Cardinality({r.counts[k][1] : k \in 1..Len(r.counts)}) = Len(r.counts)>>,
          <<"counts_add_up_to_the_number_of_words", FoldSeq(LAMBDA e, a : a + e[2], 0, r.counts) = Cardinality(WordStartSet(r.t))>>
        >>
    IN [why |-> Failing(cl), drift |-> IF got = CountsOf(ks) THEN <<>> ELSE <<"scan">>, skip |-> FALSE,
        nt |-> Cardinality(WordStartSet(r.t)) >= 2]
JSplit(r) ==
    LET ws == WordsOf(r.t)
        ok(k) == LET ps == Parts(ws[k]) IN
                   /\ r.words[k].w = ws[k]
                   /\ r.words[k].has = (ps # <<>>)
                   /\ Len(r.words[k].parts) = Len(ps)
                   /\ \A j \in 1..Len(ps) : r.words[k].parts[j][1] = ps[j][1] /\ r.words[k].parts[j][2] = ps[j][2]
        cl == <<
          <<"words_are_the_whitespace_separated_words", Len(r.words) = Len(ws) /\ \A k \in 1..Len(ws) : r.words[k].w = ws[k]>>,
          <<"parts_are_the_word_class_runs_between_non_word_characters", Len(r.words) = Len(ws) => \A k \in 1..Len(ws) : ok(k)>>
        >>
    IN [why |-> Failing(cl), drift |-> <<>>, skip |-> FALSE, nt |-> \E k \in 1..Len(ws) : Parts(ws[k]) # <<>> /\ Len(ws[k]) >= 2]
JFind(r) ==
    LET gs == Groups(r.sub, r.g)
        n == Len(r.t)
        want == Find(r.t, r.sub, r.g)
        p == r.p + 1
        z == r.z + 1
        any == \E a \in 1..(n + 1) : \E b \in a..(n + 1) : MatchesAt(r.t, gs, a, b)
        cl == <<
          <<"found_iff_a_match_exists", r.found = any>>,
          <<"match_is_the_needle_up_to_whitespace", r.found => (p >= 1 /\ p <= z /\ z <= n + 1 /\ MatchesAt(r.t, gs, p, z))>>,
          <<"match_is_the_leftmost", r.found => \A a \in 1..(p - 1) : \A b \in a..(n + 1) : ~MatchesAt(r.t, gs, a, b)>>,
          <<"match_takes_the_trailing_whitespace", r.found => (z = n + 1 \/ ~IsWs(r.t[z]))>>,
          <<"non_whitespace_content_is_the_needle", r.found => NoWsCps(SubSeq(r.t, p, z - 1)) = NoWsCps(FlattenSeq(gs))>>
        >>
    IN [why |-> Failing(cl), drift |-> IF (r.found /\ want = <<p, z>>) \/ (~r.found /\ want = NoMatch) THEN <<>> ELSE <<"preferred_match">>,
        skip |-> FALSE, nt |-> r.found /\ gs # <<>> /\ z - p > Len(FlattenSeq(gs))]
JReplace(r) ==
    LET known == \E k \in 1..Len(r.keys) : r.keys[k] = r.word
        cl == <<
          <<"unknown_words_stay", ~known => r.res = r.word>>,
          <<"known_words_get_one_of_their_replacements", known => r.res \in AsSet(r.repl)>>
        >>
    IN [why |-> Failing(cl), drift |-> <<>>, skip |-> FALSE, nt |-> known /\ Len(r.repl) >= 2]
Judge(r) == IF r.st # "ok" THEN [why |-> <<r.st>>, drift |-> <<>>, skip |-> FALSE, nt |-> FALSE]
            ELSE CASE r.kind = "count" -> JCount(r) [] r.kind = "split" -> JSplit(r) [] r.kind = "find" -> JFind(r)
                   [] r.kind = "replace" -> JReplace(r)
INSTANCE Stepper
=============================================================================
