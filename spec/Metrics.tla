------------------------------- MODULE Metrics -------------------------------
(***************************************************************************)
(* Correction metrics (src/metrics.rs, C13): F-beta from counts as exact   *)
(* rationals, micro / sequence-averaged aggregation as a fold over the     *)
(* sequences, whitespace-correction counts as a set comparison of          *)
(* whitespace operations (Ws.tla), spelling-correction counts constrained  *)
(* by the LCS word matching (Lcs.tla), accuracy, binary F1 and mean        *)
(* (normalised) edit distance (EditDist.tla).                              *)
(* Floats are logged as round(x * 10^6); comparisons allow one unit per    *)
(* rounding.                                                               *)
(***************************************************************************)
EXTENDS Naturals, Sequences, FiniteSets, SequencesExt

Max2(x, y) == IF x >= y THEN x ELSE y
Abs(x, y) == IF x >= y THEN x - y ELSE y - x
M == 1000000
\* x6 ~ num / den (den > 0)
Near(x6, num, den) == Abs(x6 * den, num * M) <= den
Fix(num, den) == (num * M) \div den          \* floor of the 6-digit fixed point

\* F-beta with beta = bn / bd, the max(., 1) conventions of the code
PNum(tp, fp) == tp
PDen(tp, fp) == Max2(tp + fp, 1)
RDen(tp, fn) == Max2(tp + fn, 1)
FNum(tp, fp, fn, bn, bd) == (bd * bd + bn * bn) * tp
FDen(tp, fp, fn, bn, bd) == IF tp = 0 THEN 1 ELSE (bd * bd + bn * bn) * tp + bn * bn * fn + bd * bd * fp
\* v = [f, p, r] with fields [t, v] as logged
IsNum(x) == x.t = "num"
Finite3(v) == IsNum(v.f) /\ IsNum(v.p) /\ IsNum(v.r)
InUnit(x) == x.v >= 0 /\ x.v <= M
FBetaOk(v, tp, fp, fn, bn, bd) ==
    /\ Near(v.p.v, tp, PDen(tp, fp))
    /\ Near(v.r.v, tp, RDen(tp, fn))
    /\ Near(v.f.v, FNum(tp, fp, fn, bn, bd), FDen(tp, fp, fn, bn, bd))

\* counts = sequence of [e (empty), tp, fp, fn]
RECURSIVE SumField(_, _, _, _)
SumField(cs, k, acc, which) ==
    IF k > Len(cs) THEN acc
    ELSE SumField(cs, k + 1, acc + (IF which = "tp" THEN cs[k].tp ELSE IF which = "fp" THEN cs[k].fp ELSE cs[k].fn), which)
MicroOk(v, cs, bn, bd) ==
    FBetaOk(v, SumField(cs, 1, 0, "tp"), SumField(cs, 1, 0, "fp"), SumField(cs, 1, 0, "fn"), bn, bd)

\* sequence averaging: mean of the per-sequence values, (1, 1, 1) for empty sequences
SeqFix(cnt, which, bn, bd) ==
    IF cnt.e THEN M
    ELSE IF which = "p" THEN Fix(cnt.tp, PDen(cnt.tp, cnt.fp))
    ELSE IF which = "r" THEN Fix(cnt.tp, RDen(cnt.tp, cnt.fn))
    ELSE Fix(FNum(cnt.tp, cnt.fp, cnt.fn, bn, bd), FDen(cnt.tp, cnt.fp, cnt.fn, bn, bd))
RECURSIVE SumFix(_, _, _, _, _, _)
SumFix(cs, k, acc, which, bn, bd) ==
    IF k > Len(cs) THEN acc ELSE SumFix(cs, k + 1, acc + SeqFix(cs[k], which, bn, bd), which, bn, bd)
MeanNear(x6, cs, which, bn, bd) ==
    LET n == Max2(Len(cs), 1) IN Abs(x6 * n, SumFix(cs, 1, 0, which, bn, bd)) <= 2 * n
SeqAvgOk(v, cs, bn, bd) ==
    /\ MeanNear(v.f.v, cs, "f", bn, bd) /\ MeanNear(v.p.v, cs, "p", bn, bd) /\ MeanNear(v.r.v, cs, "r", bn, bd)
=============================================================================
