--------------------------- MODULE Trace_KWindows ---------------------------
(* Validates recorded calls of utils::find_subsequences_of_max_size_k, text::possible_byte_substrings,                  *)
(* text::possible_character_substrings, utils::accumulate and utils::run_length_encode / decode against KWindows.tla.   *)
(* find:  v, k, f, out (windows)          bytes / chars: v (byte widths), k, out (triples), outg (grapheme mode)        *)
(* rle:   v, enc (pairs), dec             unrle: e (pairs), dec            (rle records carry acc = accumulate(v))      *)
EXTENDS KWindows, TLC, Json, IOUtils
Rec == ndJsonDeserialize(IOEnv.OBS)
NChunks == atoi(IOEnv.NCHUNKS)
VARIABLES c, i, nfail, nskip, nnt, ndrift
Failing(cl) == LET bad == SelectSeq(cl, LAMBDA x : ~x[2]) IN [k \in 1..Len(bad) |-> bad[k][1]]
JFind(r) ==
    LET want == MaximalWindows(r.v, r.k, r.f)
        cl == << <<"windows_are_the_maximal_fitting_ones", r.out = want>>,
                 <<"every_window_fits", \A j \in 1..Len(r.out) : Fits(r.v, r.k, r.f, r.out[j][1], r.out[j][2])>> >>
    IN [why |-> Failing(cl), drift |-> IF r.out = Run(r.v, r.k, r.f) THEN <<>> ELSE <<"the machine of KWindows.tla emits other windows">>,
        skip |-> FALSE, nt |-> Len(want) >= 2]
JText(r) ==
    LET want == IF r.kind = "bytes" THEN ByteWindows(r.v, r.k) ELSE CharWindows(r.v, r.k)
        cl == << <<IF r.kind = "bytes" THEN "byte_windows_are_the_maximal_ones_within_the_limit" ELSE "character_windows_have_the_asked_length", r.out = want>>,
                 <<"grapheme_mode_agrees_on_single_code_point_clusters", r.outg = r.out>> >>
    IN [why |-> Failing(cl), drift |-> <<>>, skip |-> FALSE, nt |-> Len(want) >= 2]
JRle(r) ==
    LET cl == << <<"encoding_is_the_maximal_runs", r.enc = Rle(r.v) /\ IsRleOf(r.enc, r.v)>>,
                 <<"decoding_gives_the_values_back", r.dec = r.v>>,
                 <<"accumulate_is_the_running_total", r.acc = Accumulate(r.v)>> >>
    IN [why |-> Failing(cl), drift |-> <<>>, skip |-> FALSE, nt |-> Len(Rle(r.v)) < Len(r.v)]
JUnrle(r) ==
    LET cl == << <<"decoding_repeats_every_value_count_times", r.dec = Unrle(r.e)>> >>
    IN [why |-> Failing(cl), drift |-> <<>>, skip |-> FALSE, nt |-> Len(Unrle(r.e)) >= 2]
Judge(r) == IF r.st # "ok" THEN [why |-> <<r.st>>, drift |-> <<>>, skip |-> FALSE, nt |-> FALSE]
            ELSE CASE r.kind = "find" -> JFind(r)
                   [] r.kind \in {"bytes", "chars"} -> JText(r)
                   [] r.kind = "rle" -> JRle(r)
                   [] OTHER -> JUnrle(r)
INSTANCE Stepper
=============================================================================
