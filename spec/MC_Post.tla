------------------------------- MODULE MC_Post -------------------------------
(***************************************************************************)
(* Small-step interpreter for the postprocessing pipeline: one action per  *)
(* configuration node (the closures of chain / switch / on_mark /          *)
(* switch_on_mark calling each other) acting on a concrete token sequence, *)
(* with the masking step choosing any set of maskable positions.  Checked  *)
(* against Flat / Run of Post.tla (the abstraction used for trace          *)
(* validation is sound) and against what users rely on.                    *)
(***************************************************************************)
EXTENDS Post, TLC
CONSTANTS MaxN,     \* token sequences 1..n for n <= MaxN (token k at position k, so replaced tokens are visible)
          Ls,       \* maximum lengths for clip
          Depth

MaskId == 99
Leaves == {[op |-> "none"], [op |-> "clip"], [op |-> "mask", pz |-> FALSE], [op |-> "mask", pz |-> TRUE]}
Comb(K) == {[op |-> "chain", kids |-> k] : k \in UNION {[1..n -> K] : n \in {0, 2}}}
           \cup {[op |-> "switch", kids |-> k, cum |-> <<500000, 1000000>>] : k \in [1..2 -> K]}
           \cup {[op |-> "onmark", key |-> "k", val |-> "x", kids |-> <<a>>] : a \in K}
           \cup {[op |-> "swmark", key |-> "k", vals |-> <<"x", "y">>, kids |-> k] : k \in [1..2 -> K]}
Level1 == Leaves \cup Comb(Leaves)
Few == {[op |-> "clip"], [op |-> "mask", pz |-> FALSE],
        [op |-> "onmark", key |-> "k", val |-> "y", kids |-> <<[op |-> "clip"]>>],
        [op |-> "swmark", key |-> "k", vals |-> <<"x", "y">>, kids |-> <<[op |-> "mask", pz |-> FALSE], [op |-> "none"]>>],
        [op |-> "chain", kids |-> <<[op |-> "mask", pz |-> FALSE], [op |-> "clip"]>>]}
Trees == IF Depth = 1 THEN Level1 ELSE Level1 \cup Comb(Few)
MarkSets == {<<>>, [k \in {"k"} |-> "x"], [k \in {"k"} |-> "y"], [k \in {"k"} |-> "z"]}

VARIABLES cfg, marks, r, n0, L, pfx, sfx, stack, ids, bad, trace
vars == <<cfg, marks, r, n0, L, pfx, sfx, stack, ids, bad, trace>>

Init == /\ cfg \in Trees /\ marks \in MarkSets /\ r \in {100000, 900000}
        /\ n0 \in 0..MaxN /\ L \in Ls /\ pfx \in 0..1 /\ sfx \in 0..1
        /\ stack = <<cfg>> /\ ids = [k \in 1..n0 |-> k] /\ bad = FALSE
        /\ trace = <<>>              \* the primitives executed so far (history, for the refinement invariant)

Done == stack = <<>> \/ bad
Top == Head(stack)
Replace(kids) == stack' = kids \o Tail(stack)
Combinator ==
    /\ ~Done /\ Top.op \in {"chain", "switch", "onmark", "swmark", "none"}
    /\ CASE Top.op = "none" -> Replace(<<>>) /\ UNCHANGED <<bad, trace>>
         [] Top.op = "chain" -> Replace(Top.kids) /\ UNCHANGED <<bad, trace>>
         [] Top.op = "switch" -> Replace(<<Top.kids[Pick(Top.cum, r)]>>) /\ UNCHANGED <<bad, trace>>
         [] Top.op = "onmark" -> Replace(IF HasMark(marks, Top.key, Top.val) THEN Top.kids ELSE <<>>) /\ UNCHANGED <<bad, trace>>
         [] Top.op = "swmark" -> IF Top.key \in DOMAIN marks /\ IndexOf(Top.vals, marks[Top.key]) > 0
                                 THEN Replace(<<Top.kids[IndexOf(Top.vals, marks[Top.key])]>>) /\ UNCHANGED <<bad, trace>>
                                 ELSE bad' = TRUE /\ trace' = Append(trace, [p |-> "panic"]) /\ UNCHANGED stack
    /\ UNCHANGED <<cfg, marks, r, n0, L, pfx, sfx, ids>>
Clip == /\ ~Done /\ Top.op = "clip"
        /\ ids' = Cut(ids, L) /\ stack' = Tail(stack) /\ trace' = Append(trace, [p |-> "clip"])
        /\ UNCHANGED <<cfg, marks, r, n0, L, pfx, sfx, bad>>
\* mask_tokens: any subset of the maskable positions may be replaced (runs of bounded length in the code)
Mask == /\ ~Done /\ Top.op = "mask"
        /\ trace' = Append(trace, [p |-> "mask", pz |-> Top.pz])
        /\ IF Len(ids) <= 1 THEN UNCHANGED <<ids, bad>>
           ELSE IF Len(ids) < pfx + sfx THEN bad' = TRUE /\ UNCHANGED ids
           ELSE LET nm == Len(ids) - pfx - sfx
                    can == IF Top.pz \/ nm \div 2 = 0 THEN {} ELSE (pfx + 1)..(Len(ids) - sfx)
                IN /\ \E S \in SUBSET can : ids' = [k \in 1..Len(ids) |-> IF k \in S THEN MaskId ELSE ids[k]]
                   /\ UNCHANGED bad
        /\ stack' = IF bad' THEN stack ELSE Tail(stack)
        /\ UNCHANGED <<cfg, marks, r, n0, L, pfx, sfx>>
Next == Combinator \/ Clip \/ Mask
Spec == Init /\ [][Next]_vars /\ WF_vars(Next)

-----------------------------------------------------------------------------
\* mechanism = denotation: the primitives executed are a prefix of Flat(cfg), all of it at the end (unless a panic cut it)
IsPrefix(s, t) == Len(s) <= Len(t) /\ SubSeq(t, 1, Len(s)) = s
RefinesFlat == /\ IsPrefix(trace, Flat(cfg, marks, r))
               /\ (stack = <<>> /\ ~bad) => trace = Flat(cfg, marks, r)
\* the abstraction used by the trace validator is sound for every reachable token sequence
AbsNow == Run(Abs0(n0), trace, 1, pfx, sfx, L)
AbsSound == /\ AbsNow.bad = bad
            /\ ~bad => TokensOk([k \in 1..n0 |-> k], ids, AbsNow, MaskId)
\* property layer
NeverGrows == Len(ids) <= n0
ClipBounds == (\E k \in 1..Len(trace) : trace[k].p = "clip") => Len(ids) <= L
PrefixSuffixProtected ==   \* without a clip, prefix and suffix tokens are never masked
    (~bad /\ \A k \in 1..Len(trace) : trace[k].p # "clip") =>
        \A k \in 1..Len(ids) : (k <= pfx \/ k > Len(ids) - sfx) => ids[k] = k
OnlyMaskToken == \A k \in 1..Len(ids) : ids[k] \in {k, MaskId}
Terminates == <>Done
=============================================================================
