------------------------------- MODULE MC_Chat -------------------------------
(* format() as a step machine (one message per step) for all chats up to MaxMsgs over two known roles, one       *)
(* unknown role, two texts and the partial flag: the fold equals the closed form FormatOk.                       *)
EXTENDS Chat, TLC
CONSTANTS MaxMsgs
Tpl == [start |-> <<9>>, end |-> <<8, 8>>,
        roles |-> <<[name |-> "u", n |-> 1, pre |-> <<1>>, post |-> <<2>>], [name |-> "b", n |-> 1, pre |-> <<>>, post |-> <<3, 3>>]>>]
Msgs == [role : {"u", "b", "zz"}, text : {<<>>, <<5, 6>>}, partial : BOOLEAN]
VARIABLES chat, k, a
vars == <<chat, k, a>>
Init == /\ chat \in UNION {[1..n -> Msgs] : n \in 0..MaxMsgs}
        /\ k = 1 /\ a = [err |-> FALSE, txt |-> Tpl.start, lastPartial |-> FALSE]
Step == /\ k <= Len(chat) /\ a' = FStep(Tpl, chat, a, k) /\ k' = k + 1 /\ UNCHANGED chat
Spec == Init /\ [][Step]_vars /\ WF_vars(Step)
Result == IF a.err THEN [err |-> TRUE, txt |-> <<>>] ELSE [err |-> FALSE, txt |-> IF a.lastPartial THEN a.txt ELSE a.txt \o Tpl.end]
FoldIsClosedForm == k > Len(chat) => (Result = Format(Tpl, chat) /\ FormatOk(Tpl, chat, Result))
ErrorIsSticky == a.err => \A j \in k..Len(chat) : FStep(Tpl, chat, a, j).err
Terminates == <>(k > Len(chat))
=============================================================================
