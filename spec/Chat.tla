-------------------------------- MODULE Chat --------------------------------
(***************************************************************************)
(* ChatTemplate::new / format of src/data/utils.rs and the ChatDecode      *)
(* preprocessing.  Strings are sequences of code-point ids.  A role        *)
(* template is given by the text in front of and behind its {text}         *)
(* pattern; a template with no or several patterns is rejected by new().   *)
(* A message is [role, text, partial].                                     *)
(***************************************************************************)
EXTENDS Naturals, Sequences, FiniteSets

RoleOf(tpl, name) == IF \E k \in 1..Len(tpl.roles) : tpl.roles[k].name = name
                     THEN tpl.roles[CHOOSE k \in 1..Len(tpl.roles) : tpl.roles[k].name = name] ELSE [name |-> "", n |-> 0]
\* new(): every role template has exactly one pattern
Valid(tpl) == \A k \in 1..Len(tpl.roles) : tpl.roles[k].n = 1

\* format as a fold over the messages: [err, txt, lastPartial]
FStep(tpl, chat, a, k) ==
    IF a.err THEN a
    ELSE LET m == chat[k]
             ro == RoleOf(tpl, m.role)
         IN IF ro.n = 0 THEN [a EXCEPT !.err = TRUE]                                 \* unknown role
            ELSE IF m.partial THEN
                    IF k # Len(chat) THEN [a EXCEPT !.err = TRUE]                    \* only the last message may be partial
                    ELSE [a EXCEPT !.txt = a.txt \o ro.pre \o m.text, !.lastPartial = TRUE]
            ELSE [a EXCEPT !.txt = a.txt \o ro.pre \o m.text \o ro.post]
RECURSIVE FFold(_, _, _, _)
FFold(tpl, chat, a, k) == IF k > Len(chat) THEN a ELSE FFold(tpl, chat, FStep(tpl, chat, a, k), k + 1)
Format(tpl, chat) ==
    LET a == FFold(tpl, chat, [err |-> FALSE, txt |-> tpl.start, lastPartial |-> FALSE], 1)
    IN IF a.err THEN [err |-> TRUE, txt |-> <<>>]
       ELSE [err |-> FALSE, txt |-> IF a.lastPartial THEN a.txt ELSE a.txt \o tpl.end]

\* what users rely on, independent of the fold
FormatOk(tpl, chat, out) ==
    LET known == \A k \in 1..Len(chat) : RoleOf(tpl, chat[k].role).n = 1
        partialOk == \A k \in 1..Len(chat) : chat[k].partial => k = Len(chat)
        lastPartial == chat # <<>> /\ chat[Len(chat)].partial
        Piece(k) == LET ro == RoleOf(tpl, chat[k].role) IN
                    ro.pre \o chat[k].text \o (IF chat[k].partial THEN <<>> ELSE ro.post)
        RECURSIVE Cat(_)
        Cat(k) == IF k > Len(chat) THEN <<>> ELSE Piece(k) \o Cat(k + 1)
    IN IF ~(known /\ partialOk) THEN out.err
       ELSE ~out.err /\ out.txt = tpl.start \o Cat(1) \o (IF lastPartial THEN <<>> ELSE tpl.end)
=============================================================================
