------------------------------ MODULE Windows ------------------------------
(***************************************************************************)
(* Inference windows (src/windows.rs, C16).  A text is the sequence of the *)
(* byte lengths of its characters.  One action per emitted window:         *)
(* CharWin / ByteWin advance `ws` (window start) exactly as the loops of   *)
(* the code do; ByteWin fails when the character at `ws` does not fit.     *)
(* A window is [cs, ws, we, ce] (context start, window start, window end,  *)
(* context end; character positions, half open).                           *)
(***************************************************************************)
EXTENDS Naturals, Sequences, FiniteSets, SequencesExt

Min2(a, b) == IF a <= b THEN a ELSE b
Monus(a, b) == IF a >= b THEN a - b ELSE 0
\* byte offset of character position p (prefix sums)
RECURSIVE OffAcc(_, _, _, _)
OffAcc(lens, p, k, acc) == IF k > p THEN acc ELSE OffAcc(lens, p, k + 1, acc + lens[k])
Off(lens, p) == OffAcc(lens, p, 1, 0)

\* count_until: how many characters from position p (0-based), going right (dir = 1) or
\* left (dir = 0, starting at p - 1), fit into `budget` bytes
RECURSIVE CountRight(_, _, _, _, _)
CountRight(lens, p, budget, cnt, acc) ==
    IF p + cnt >= Len(lens) \/ acc + lens[p + cnt + 1] > budget THEN cnt
    ELSE CountRight(lens, p, budget, cnt + 1, acc + lens[p + cnt + 1])
RECURSIVE CountLeft(_, _, _, _, _)
CountLeft(lens, p, budget, cnt, acc) ==
    IF cnt >= p \/ acc + lens[p - cnt] > budget THEN cnt
    ELSE CountLeft(lens, p, budget, cnt + 1, acc + lens[p - cnt])

WinLen(ws, max, ctx) == max - (IF ws > 0 THEN 2 ELSE 1) * ctx

CharStep(n, ws, max, ctx) ==
    LET wl == WinLen(ws, max, ctx) IN
    [cs |-> Monus(ws, ctx), ws |-> ws, we |-> Min2(n, ws + wl), ce |-> Min2(n, ws + wl + ctx)]

\* "fail" when the character at ws does not fit into the window
ByteStep(lens, ws, max, ctx) ==
    LET wl == WinLen(ws, max, ctx)
        we == ws + CountRight(lens, ws, wl, 0, 0)
    IN IF we <= ws THEN [cs |-> 0, ws |-> ws, we |-> ws, ce |-> 0]
       ELSE [cs |-> ws - CountLeft(lens, ws, ctx, 0, 0), ws |-> ws, we |-> we,
             ce |-> we + CountRight(lens, we, ctx, 0, 0)]

\* result: sequence of windows, with the marker FailW appended when a step fails (a record, so that it can be
\* compared with windows without a type error)
FailW == [fail |-> TRUE]
RECURSIVE AllWindows(_, _, _, _, _, _)
AllWindows(lens, kind, max, ctx, ws, acc) ==
    IF ws >= Len(lens) THEN acc
    ELSE LET w == IF kind = "char" THEN CharStep(Len(lens), ws, max, ctx) ELSE ByteStep(lens, ws, max, ctx) IN
         IF w.we <= w.ws THEN Append(acc, FailW)
         ELSE AllWindows(lens, kind, max, ctx, w.we, Append(acc, w))
Expected(lens, kind, max, ctx) ==
    IF kind = "full" THEN <<[cs |-> 0, ws |-> 0, we |-> Len(lens), ce |-> Len(lens)]>>
    ELSE AllWindows(lens, kind, max, ctx, 0, <<>>)

-----------------------------------------------------------------------------
\* Property layer: predicates on a list of windows ws (records [cs, ws, we, ce]) for text lens
Tiles(wins, n) ==
    /\ wins # <<>> /\ wins[1].ws = 0 /\ wins[Len(wins)].we = n
    /\ \A k \in 1..Len(wins) : wins[k].ws < wins[k].we
    /\ \A k \in 1..(Len(wins) - 1) : wins[k + 1].ws = wins[k].we
ContextOk(wins, lens, kind, max) ==
    \A k \in 1..Len(wins) :
        /\ wins[k].cs <= wins[k].ws /\ wins[k].we <= wins[k].ce /\ wins[k].ce <= Len(lens)
        /\ kind = "char" => wins[k].ce - wins[k].cs <= max
        /\ kind = "byte" => Off(lens, wins[k].ce) - Off(lens, wins[k].cs) <= max
MustFail(kind, max, ctx) == kind # "full" /\ max <= 2 * ctx
MustSucceed(lens, kind, max, ctx) ==
    \/ kind = "full"
    \/ (max > 2 * ctx /\ (kind = "char" \/ \A k \in 1..Len(lens) : lens[k] <= max - 2 * ctx))

-----------------------------------------------------------------------------
\* The stepping machine, for model checking
CONSTANTS MaxN, LenSet, MaxMax, MaxCtx
VARIABLES lens, kind, max, ctx, ws, out, failed
vars == <<lens, kind, max, ctx, ws, out, failed>>
Init == /\ lens \in UNION {[1..n -> LenSet] : n \in 1..MaxN}
        /\ kind \in {"char", "byte"} /\ max \in 0..MaxMax /\ ctx \in 0..MaxCtx
        /\ max > 2 * ctx
        /\ ws = 0 /\ out = <<>> /\ failed = FALSE
Emit == /\ ~failed /\ ws < Len(lens)
        /\ LET w == IF kind = "char" THEN CharStep(Len(lens), ws, max, ctx) ELSE ByteStep(lens, ws, max, ctx) IN
           IF w.we <= w.ws THEN failed' = TRUE /\ UNCHANGED <<ws, out>>
           ELSE failed' = FALSE /\ ws' = w.we /\ out' = Append(out, w)
        /\ UNCHANGED <<lens, kind, max, ctx>>
Next == Emit
Spec == Init /\ [][Next]_vars /\ WF_vars(Next)

PartialTiling == /\ \A k \in 1..Len(out) : out[k].ws < out[k].we
                 /\ \A k \in 1..(Len(out) - 1) : out[k + 1].ws = out[k].we
                 /\ (out # <<>> => out[1].ws = 0 /\ out[Len(out)].we = ws)
ContextInv == ContextOk(out, lens, kind, max)
DoneInv == (ws >= Len(lens)) => Tiles(out, Len(lens))
FailOnlyIfTooWide == failed => ~MustSucceed(lens, kind, max, ctx)
Terminates == <>(ws >= Len(lens) \/ failed)
=============================================================================
