------------------------------ MODULE Trace_Norm ------------------------------
(* Validates recorded calls of unicode::normalize, the Normalize preprocessing and the JsonDecode preprocessing        *)
(* against Norm.tla.                                                                                                    *)
(* norm: t (slots), scheme, g, out (slots of normalize), pre = [ok, input, target] (slots after the preprocessing)      *)
(* json: lit, part, res = [ok, input, target] (code points), src (code points of the literal as written)               *)
EXTENDS Norm, TLC, Json, IOUtils
Rec == ndJsonDeserialize(IOEnv.OBS)
NChunks == atoi(IOEnv.NCHUNKS)
VARIABLES c, i, nfail, nskip, nnt, ndrift
Failing(cl) == LET bad == SelectSeq(cl, LAMBDA x : ~x[2]) IN [k \in 1..Len(bad) |-> bad[k][1]]
JNorm(r) ==
    IF ~Closed(r.t) THEN [why |-> <<>>, drift |-> <<>>, skip |-> TRUE, nt |-> FALSE]
    ELSE LET want == NormalG(r.t, r.scheme, r.g)
             cl == <<
               <<"normalize_is_the_normal_form", r.out = want>>,
               <<"normalize_is_idempotent", r.out2 = r.out>>,
               <<"preprocessing_normalizes_its_part_only", r.pre.ok /\ r.pre.input = want /\ r.pre.target = r.t>>
             >>
         IN [why |-> Failing(cl), drift |-> <<>>, skip |-> FALSE, nt |-> want # r.t]
JJson(r) ==
    LET d == Decode(r.lit)
        cl == <<
          <<"decodes_exactly_the_string_literals", r.res.ok = d.ok>>,
          <<"decoded_text", d.ok => (IF r.part = "input" THEN r.res.input = d.txt /\ r.res.target = r.src
                                                         ELSE r.res.target = d.txt /\ r.res.input = r.src)>>
        >>
    IN [why |-> Failing(cl), drift |-> <<>>, skip |-> FALSE, nt |-> d.ok /\ Len(d.txt) >= 1]
Judge(r) == IF r.st # "ok" THEN [why |-> <<r.st>>, drift |-> <<>>, skip |-> FALSE, nt |-> FALSE]
            ELSE IF r.kind = "norm" THEN JNorm(r) ELSE JJson(r)
INSTANCE Stepper
=============================================================================
