-------------------------------- MODULE Lines --------------------------------
(***************************************************************************)
(* The line reader LossyUtf8Reader::lines of src/data/loading.rs (used for *)
(* count_lines and for every jsonl source) and the jsonl item layer of     *)
(* train_data_generator_from_jsonl.                                        *)
(*                                                                         *)
(* A file is a sequence of bytes.  The reader is a step machine: one       *)
(* next() = read_until(LF), strip the LF and then one CR in front of it.   *)
(* Byte classes used by the lossy decoding part: 195 164 is the only valid *)
(* multi-byte sequence of the model alphabet, a lone 195, 164 or 255 is    *)
(* invalid and becomes U+FFFD (239 191 189).                               *)
(***************************************************************************)
EXTENDS Naturals, Sequences, FiniteSets

LF == 10
CR == 13

\* position of the first LF at or after p (0 if none)
RECURSIVE FindLF(_, _)
FindLF(f, p) == IF p > Len(f) THEN 0 ELSE IF f[p] = LF THEN p ELSE FindLF(f, p + 1)

\* one next(): <<line, new position>>; position Len+1 = exhausted (next() returns None there)
ReadLine(f, p) ==
    LET q == FindLF(f, p) IN
    IF q = 0 THEN <<SubSeq(f, p, Len(f)), Len(f) + 1>>                       \* last line without a newline: kept as it is
    ELSE LET raw == SubSeq(f, p, q - 1)
             line == IF raw # <<>> /\ raw[Len(raw)] = CR THEN SubSeq(raw, 1, Len(raw) - 1) ELSE raw
         IN <<line, q + 1>>

RECURSIVE LinesFrom(_, _)
LinesFrom(f, p) == IF p > Len(f) THEN <<>> ELSE LET r == ReadLine(f, p) IN <<r[1]>> \o LinesFrom(f, r[2])
Lines(f) == LinesFrom(f, 1)

\* property layer -------------------------------------------------------------
NumLF(f) == Cardinality({p \in 1..Len(f) : f[p] = LF})
EndsWithLF(f) == f # <<>> /\ f[Len(f)] = LF
ExpectedCount(f) == NumLF(f) + (IF f # <<>> /\ ~EndsWithLF(f) THEN 1 ELSE 0)
\* the lines, re-joined with some terminator (LF or CR LF; the last one may have none), give back the file
RECURSIVE Rejoins(_, _, _)
Rejoins(ls, k, rest) ==
    IF k > Len(ls) THEN rest = <<>>
    ELSE LET l == ls[k]
             n == Len(l)
             head == Len(rest) >= n /\ SubSeq(rest, 1, n) = l
             after == SubSeq(rest, n + 1, Len(rest))
         IN head /\ \/ (after # <<>> /\ after[1] = LF /\ Rejoins(ls, k + 1, Tail(after)))
                    \/ (Len(after) >= 2 /\ after[1] = CR /\ after[2] = LF /\ Rejoins(ls, k + 1, SubSeq(after, 3, Len(after))))
                    \/ (k = Len(ls) /\ after = <<>>)
LinesOk(f, ls) == /\ Len(ls) = ExpectedCount(f)
                  /\ \A k \in 1..Len(ls) : \A j \in 1..Len(ls[k]) : ls[k][j] # LF
                  /\ Rejoins(ls, 1, f)

\* lossy decoding over the model alphabet: the valid part of a byte string
RECURSIVE ValidPart(_, _)
ValidPart(b, p) ==
    IF p > Len(b) THEN <<>>
    ELSE IF b[p] = 195 /\ p < Len(b) /\ b[p + 1] = 164 THEN <<195, 164>> \o ValidPart(b, p + 2)
    ELSE IF b[p] \in {195, 164, 255} THEN ValidPart(b, p + 1)
    ELSE <<b[p]>> \o ValidPart(b, p + 1)
RECURSIVE StripReplacement(_, _)
StripReplacement(b, p) ==
    IF p > Len(b) THEN <<>>
    ELSE IF p + 2 <= Len(b) /\ b[p] = 239 /\ b[p + 1] = 191 /\ b[p + 2] = 189 THEN StripReplacement(b, p + 3)
    ELSE <<b[p]>> \o StripReplacement(b, p + 1)
LossyOk(raw, decoded) == /\ StripReplacement(decoded, 1) = ValidPart(raw, 1)
                         /\ (decoded = raw) <=> (ValidPart(raw, 1) = raw)

\* jsonl item layer: line kinds -> what next() must return
\*   "io" input only (target = input), "it" input and target, "in" input not a string, "tn" target not a string,
\*   "mi" input missing, "no" not an object, "bad" not JSON, "empty" empty line
ItemOf(kind) == CASE kind = "io" -> "ok_same" [] kind = "it" -> "ok_pair" [] OTHER -> "err"
=============================================================================
