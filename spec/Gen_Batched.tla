----------------------------- MODULE Gen_Batched -----------------------------
(* Enumerates the bounded configuration space of C06 for replay into the code. *)
EXTENDS Naturals, Sequences, FiniteSets, SequencesExt, TLC, Json, IOUtils
CONSTANTS SizeSet, MaxN, MaxLimit, MaxPf
Seqs == UNION {[1..n -> SizeSet] : n \in 0..MaxN}
Cases == {[kind |-> "batched", sizes |-> s, sort |-> so, shuffle |-> sh, pf |-> pf, limit |-> l,
           ltype |-> lt, seed |-> 5] :
             s \in Seqs, so \in BOOLEAN, sh \in BOOLEAN, pf \in 0..MaxPf, l \in 0..MaxLimit,
             lt \in {"count", "padded"}}
SubCases == {[kind |-> "subseq", sizes |-> s, k |-> k, ltype |-> lt] :
             s \in Seqs, k \in 0..(MaxLimit + 3), lt \in {"count", "padded"}}
VARIABLE x
Init == x = 0 /\ ndJsonSerialize(IOEnv.OUT, SetToSeq(Cases) \o SetToSeq(SubCases))
Next == UNCHANGED x
=============================================================================
