--------------------------- MODULE Trace_EditWord ---------------------------
(* Validates recorded edit_word calls and provider calls (C15) against         *)
(* EditWord.tla: property layer = OneEdit / ExclWithin / no panic; mechanism   *)
(* layer = membership in the exact successor set.                              *)
EXTENDS EditWord, TLC, Json, IOUtils
Rec == ndJsonDeserialize(IOEnv.OBS)
NChunks == atoi(IOEnv.NCHUNKS)
VARIABLES c, i, nfail, nskip, nnt, ndrift

ToSetOfSeqs(e) == {e[k] : k \in 1..Len(e)}
Tb(t) == [ins |-> {[p |-> t.ins[k].p, s |-> t.ins[k].s, e |-> ToSetOfSeqs(t.ins[k].e)] : k \in 1..Len(t.ins)},
          rep |-> {[p |-> t.rep[k].p, s |-> t.rep[k].s, n |-> t.rep[k].n, e |-> ToSetOfSeqs(t.rep[k].e)] : k \in 1..Len(t.rep)},
          del |-> {t.del[k] : k \in 1..Len(t.del)}, swp |-> {t.swp[k] : k \in 1..Len(t.swp)},
          fullDelete |-> t.fullDelete]
\* the code keeps one list per context in a hash map: a later duplicate context replaces an earlier one;
\* the drivers never generate duplicate contexts with different lists (checked: skip otherwise)
DupCtx(t) == \/ \E a, b \in 1..Len(t.ins) : a # b /\ t.ins[a].p = t.ins[b].p /\ t.ins[a].s = t.ins[b].s
             \/ \E a, b \in 1..Len(t.rep) : a # b /\ t.rep[a].p = t.rep[b].p /\ t.rep[a].s = t.rep[b].s /\ t.rep[a].n = t.rep[b].n

JEdit(r) ==
    LET tb == Tb(r.tb)
        kinds == {r.kinds[k] : k \in 1..Len(r.kinds)}
        excl == {r.excl[k] : k \in 1..Len(r.excl)}
        excl2 == {r.excl2[k] : k \in 1..Len(r.excl2)}
        cl == <<
          <<"one_edit_of_an_enabled_kind_with_reindexed_exclusions", OneEdit(r.w, excl, kinds, tb, r.w2, excl2)>>,
          <<"exclusions_within_the_new_word", ExclWithin(r.w2, excl2)>>,
          <<"excluded_characters_survive", {r.w[x + 1] : x \in {y \in excl : y < Len(r.w)}} \subseteq {r.w2[x + 1] : x \in {y \in excl2 : y < Len(r.w2)}}>>
        >>
        bad == SelectSeq(cl, LAMBDA x : ~x[2])
    IN [why |-> [k \in 1..Len(bad) |-> bad[k][1]],
        drift |-> IF <<r.w2, excl2>> \in Exact(r.w, excl, kinds, tb) THEN <<>> ELSE <<"result_not_in_exact_successor_set">>,
        skip |-> FALSE, nt |-> r.w2 # r.w]

JProvider(r) ==
    LET tb == Tb(r.tb)
        n == Len(r.w)
        idx == IF r.which = "i" THEN (IF r.idx < n THEN r.idx ELSE n) ELSE (IF r.idx < n - 1 THEN r.idx ELSE n - 1)
        entries == IF r.which = "i"
                   THEN {t \in tb.ins : t.p = Prev(r.w, idx) /\ t.s = At(r.w, idx)}
                   ELSE {t \in tb.rep : t.p = Prev(r.w, idx) /\ t.s = r.w[idx + 1] /\ t.n = At(r.w, idx + 1)}
        want == IF entries = {} THEN {} ELSE (CHOOSE t \in entries : TRUE).e
    IN [why |-> <<>>,
        drift |-> IF (r.some <=> entries # {}) /\ ToSetOfSeqs(r.got) = want THEN <<>> ELSE <<"provider_lookup_differs">>,
        skip |-> FALSE, nt |-> r.idx = 0 \/ r.idx >= n - 1]

\* spelling corruption in artificial mode without a character file: as many edit_word calls as the word has characters
\* (edit probability 1) or between one and that many, deletions and swaps of letters only, every call with the exclusion
\* set the previous one returned: the output is reachable by such a chain (Exact is the set of results of one call)
RECURSIVE ReachK(_, _, _)
ReachK(S, k, tb) == IF k = 0 THEN S ELSE ReachK(UNION {Exact(x[1], x[2], {"d", "s"}, tb) : x \in S}, k - 1, tb)
JSpell(r) ==
    LET tb == [ins |-> {}, rep |-> {}, del |-> {r.case.del[k] : k \in 1..Len(r.case.del)}, swp |-> {r.case.del[k] : k \in 1..Len(r.case.del)},
               fullDelete |-> r.full]
        ends(w, k) == {x[1] : x \in ReachK({<<w, {}>>}, k, tb)}
        possible(w) == IF r.pone THEN ends(w, Len(w)) ELSE UNION {ends(w, k) : k \in 1..Len(w)}
        \* several words: every word is corrupted on its own, starting with nothing protected
        ok == IF r.ws = <<>> THEN r.out \in possible(r.w)
              ELSE Len(r.outs) = Len(r.ws) /\ \A k \in 1..Len(r.ws) : r.outs[k] \in possible(r.ws[k])
    IN [why |-> IF ok THEN <<>> ELSE <<"spelling_corruption_chains_edits_with_the_returned_exclusions">>,
        drift |-> <<>>, skip |-> FALSE, nt |-> Len(r.w) >= 2 \/ Len(r.ws) >= 2]

Judge(r) ==
    IF r.st # "ok" THEN [why |-> <<r.st>>, drift |-> <<>>, skip |-> FALSE, nt |-> TRUE]
    ELSE IF r.kind # "spell" /\ (DupCtx(r.tb) \/ \E k \in 1..Len(r.w) : r.w[k] = 0) THEN [why |-> <<>>, drift |-> <<>>, skip |-> TRUE, nt |-> FALSE]
    ELSE IF r.kind = "spell" THEN JSpell(r)
    ELSE IF r.kind = "edit" THEN JEdit(r) ELSE JProvider(r)

INSTANCE Stepper
=============================================================================
