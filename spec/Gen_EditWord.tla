---------------------------- MODULE Gen_EditWord ----------------------------
(* Enumerates (word, exclusion set, enabled kinds, table) for replay of C15:   *)
(* words of pairwise distinct symbols 1..n, every exclusion subset, every kind *)
(* subset, two table variants (empty edit strings, multi-symbol insertions,    *)
(* <bow>/<eow> contexts); each case is run over several random streams and as  *)
(* a chain of 3 edits by the harness.                                          *)
EXTENDS Naturals, Sequences, FiniteSets, SequencesExt, TLC, Json, IOUtils
CONSTANTS MaxLen
BOW == 9001
EOW == 9002
T1 == [ins |-> <<[p |-> BOW, s |-> 1, e |-> <<<<7>>>>], [p |-> 1, s |-> 2, e |-> <<<<7, 8>>, <<>>>>], [p |-> 2, s |-> EOW, e |-> <<<<9>>>>],
                 [p |-> 3, s |-> EOW, e |-> <<<<9>>>>], [p |-> BOW, s |-> EOW, e |-> <<<<7>>>>], [p |-> 2, s |-> 3, e |-> <<<<8>>>>]>>,
       rep |-> <<[p |-> BOW, s |-> 1, n |-> 2, e |-> <<<<7>>, <<>>>>], [p |-> 1, s |-> 2, n |-> 3, e |-> <<<<7, 8>>>>],
                 [p |-> 2, s |-> 3, n |-> EOW, e |-> <<<<9>>>>], [p |-> BOW, s |-> 1, n |-> EOW, e |-> <<<<7, 8, 9>>>>],
                 [p |-> 3, s |-> 4, n |-> EOW, e |-> <<<<>>>>]>>,
       del |-> <<1, 2, 3, 7>>, fullDelete |-> FALSE, swp |-> <<1, 2, 3, 4, 7, 8, 9>>]
T2 == [T1 EXCEPT !.fullDelete = TRUE, !.swp = <<1, 3>>]
Kinds == {<<>>, <<"i">>, <<"d">>, <<"r">>, <<"s">>, <<"i", "d">>, <<"r", "s">>, <<"i", "d", "r", "s">>, <<"d", "s">>, <<"i", "r">>}
CasesOf(n) == {[w |-> [k \in 1..n |-> k], excl |-> SetToSeq(x), kinds |-> ks, tb |-> t, chain |-> 3, seeds |-> <<1, 2, 3, 4, 5, 6>>,
                g |-> al # "ascii", alpha |-> al, providers |-> TRUE] :
                  x \in SUBSET (0..(n - 1)), ks \in Kinds, t \in {T1, T2}, al \in {"ascii", "cluster", "crlf"}}
\* the chain as the library runs it (spelling corruption, artificial mode, deletions and swaps of letters): every word up to
\* MaxLen + 1 symbols over three letters (repeats allowed) and, with clusters, over two letters and two symbols that are no
\* letters (del = the letters of the alphabet), edit probability 1 and 1/2, full deletion allowed or not, several streams
SpellWords(S, n) == UNION {[1..k -> S] : k \in 1..n}
SpellCases == {[kind |-> "spell", w |-> w, alpha |-> "ascii", del |-> <<1, 2, 3>>, pone |-> po, full |-> fu, seed |-> sd] :
                  w \in SpellWords({1, 2, 3}, MaxLen + 1), po \in BOOLEAN, fu \in BOOLEAN, sd \in 0..5}
              \cup {[kind |-> "spell", w |-> w, alpha |-> "cluster", del |-> <<1, 4>>, pone |-> po, full |-> fu, seed |-> sd] :
                  w \in SpellWords({1, 2, 3, 4}, MaxLen), po \in BOOLEAN, fu \in BOOLEAN, sd \in 0..2}
SpellTexts == {[kind |-> "spell", ws |-> ws, alpha |-> "ascii", del |-> <<1, 2, 3>>, pone |-> po, full |-> FALSE, seed |-> sd] :
                  ws \in {<< <<1, 2>>, <<1, 2>> >>, << <<1, 2>>, <<1, 2>>, <<2, 1, 3>> >>, << <<1>>, <<1, 2, 3>> >>, << <<1, 2, 3>>, <<2>>, <<3, 1>> >>},
                  po \in BOOLEAN, sd \in 0..11}
Cases == UNION {CasesOf(n) : n \in 0..MaxLen} \cup (IF "SPELL" \in DOMAIN IOEnv THEN SpellCases \cup SpellTexts ELSE {})
VARIABLE x
Init == x = 0 /\ ndJsonSerialize(IOEnv.OUT, SetToSeq(Cases))
Next == UNCHANGED x
=============================================================================
