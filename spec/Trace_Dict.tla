------------------------------ MODULE Trace_Dict ------------------------------
(* Validates recorded Dictionary::create / save+load / get_closest runs (C20).  *)
EXTENDS Dict, TLC, Json, IOUtils
Rec == ndJsonDeserialize(IOEnv.OBS)
NChunks == atoi(IOEnv.NCHUNKS)
VARIABLES c, i, nfail, nskip, nnt, ndrift
E == INSTANCE EditDist

Items(s) == {<<s[k].t, s[k].f>> : k \in 1..Len(s)}
Sym(ids) == [k \in 1..Len(ids) |-> [i |-> ids[k], w |-> FALSE]]
D(a, b) == E!Dist(Sym(a), Sym(b), FALSE, FALSE)

ClosestOk(items, cl) ==
    LET q == [k \in 1..Len(cl.q) |-> cl.q[k]] IN
    IF items = {} THEN ~cl.found
    ELSE /\ cl.found /\ <<cl.t, cl.f>> \in items
         /\ \A it \in items : D(q, cl.t) <= D(q, it[1])
         /\ \A it \in items : D(q, it[1]) = D(q, cl.t) => it[2] <= cl.f

JudgeWith(r, toks, items) ==
    LET cl == <<
          <<"counts_exact_and_top_entries_kept", ValidDictionary(items, toks, r.max_size)>>,
          <<"no_duplicate_entries", Cardinality(items) = Len(r.items)>>,
          <<"freq_sum_is_total", r.freq_sum = FreqSum(items)>>,
          <<"save_then_load_reproduces", Items(r.reloaded) = items /\ r.reload_sum = r.freq_sum>>,
          <<"closest_is_min_distance_most_frequent", \A k \in 1..Len(r.closest) : ClosestOk(items, r.closest[k])>>
        >>
        bad == SelectSeq(cl, LAMBDA x : ~x[2])
    IN [why |-> [k \in 1..Len(bad) |-> bad[k][1]], drift |-> <<>>, skip |-> FALSE,
        \* non-trivial: the limit actually cuts the vocabulary, or several lines contribute to one entry
        nt |-> Cardinality(Vocabulary(toks)) >= 2]

Judge(r) ==
    IF r.st # "ok" THEN [why |-> <<r.st>>, drift |-> <<>>, skip |-> FALSE, nt |-> TRUE]
    ELSE CHOOSE y \in {JudgeWith(r, t, Items(r.items)) : t \in {AllTokens(r.lines, r.mode, r.max_seq)}} : TRUE
INSTANCE Stepper
=============================================================================
