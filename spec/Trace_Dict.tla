------------------------------ MODULE Trace_Dict ------------------------------
(* Validates recorded Dictionary::create / save+load / get_closest runs (C20).  *)
EXTENDS Dict, TLC, Json, IOUtils
Rec == ndJsonDeserialize(IOEnv.OBS)
NChunks == atoi(IOEnv.NCHUNKS)
VARIABLES c, i, nfail, nskip, nnt, ndrift
E == INSTANCE EditDist

Items(s) == {<<s[k].t, s[k].f>> : k \in 1..Len(s)}
Sym(ids) == [k \in 1..Len(ids) |-> [i |-> ids[k], w |-> FALSE]]
D(a, b) == E!Dist(Sym(a), Sym(b), FALSE, FALSE)

\* distance of the query to an entry as a rational <<num, den>>: the edit distance, or (cl.norm) divided by the longer length
Max3(x, y, z) == IF x >= y THEN (IF x >= z THEN x ELSE z) ELSE (IF y >= z THEN y ELSE z)
DQ(cl, q, t) == <<D(q, t), IF cl.norm THEN Max3(Len(q), Len(t), 1) ELSE 1>>
Leq(x, y) == x[1] * y[2] <= y[1] * x[2]
ClosestOk(items, cl) ==
    LET q == [k \in 1..Len(cl.q) |-> cl.q[k]] IN
    IF items = {} THEN ~cl.found
    ELSE /\ cl.found /\ <<cl.t, cl.f>> \in items
         /\ \A it \in items : Leq(DQ(cl, q, cl.t), DQ(cl, q, it[1]))
         /\ \A it \in items : (Leq(DQ(cl, q, it[1]), DQ(cl, q, cl.t)) /\ Leq(DQ(cl, q, cl.t), DQ(cl, q, it[1]))) => it[2] <= cl.f

JudgeWith(r, toks, items) ==
    LET cl == <<
          <<"counts_exact_and_top_entries_kept", ValidDictionary(items, toks, r.max_size)>>,
          <<"no_duplicate_entries", Cardinality(items) = Len(r.items)>>,
          <<"freq_sum_is_total", r.freq_sum = FreqSum(items)>>,
          <<"save_then_load_reproduces", Items(r.reloaded) = items /\ r.reload_sum = r.freq_sum>>,
          <<"closest_is_min_distance_most_frequent", \A k \in 1..Len(r.closest) : ClosestOk(items, r.closest[k])>>
        >>
        bad == SelectSeq(cl, LAMBDA x : ~x[2])
    IN [why |-> [k \in 1..Len(bad) |-> bad[k][1]], drift |-> <<>>, skip |-> FALSE,
        \* non-trivial: the limit actually cuts the vocabulary, or several lines contribute to one entry
        nt |-> Cardinality(Vocabulary(toks)) >= 2]

Judge(r) ==
    IF r.st # "ok" THEN [why |-> <<r.st>>, drift |-> <<>>, skip |-> FALSE, nt |-> TRUE]
    ELSE CHOOSE y \in {JudgeWith(r, t, Items(r.items)) : t \in {AllTokens(r.lines, r.mode, r.max_seq)}} : TRUE
INSTANCE Stepper
=============================================================================
