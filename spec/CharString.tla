----------------------------- MODULE CharString -----------------------------
(***************************************************************************)
(* The index layer under every text function: CharString of src/unicode.rs *)
(* (run-length-encoded character byte lengths, byte_start_end,             *)
(* char_range_to_byte_range, get, sub) with run_length_encode / decode of  *)
(* src/utils.rs, and the two substring enumerations of src/text.rs built   *)
(* on it (possible_character_substrings, possible_byte_substrings).        *)
(*                                                                         *)
(* A text is abstracted to the sequence `lens` of the UTF-8 byte lengths   *)
(* of its characters (code points or grapheme clusters).                   *)
(*                                                                         *)
(* Mechanism layer: the run-length encoder as a step machine (one input    *)
(* element per step) and the byte_start_end scan (one run per step).       *)
(* Property layer: prefix sums.                                            *)
(***************************************************************************)
EXTENDS Naturals, Sequences, FiniteSets

Min2(a, b) == IF a <= b THEN a ELSE b

\* property layer ------------------------------------------------------------
RECURSIVE PSAcc(_, _, _)
PSAcc(lens, k, acc) == IF k > Len(lens) THEN acc ELSE PSAcc(lens, k + 1, Append(acc, acc[Len(acc)] + lens[k]))
\* PS(lens)[n + 1] = number of bytes in front of character n (0-based); PS(lens)[Len + 1] = byte length
PS(lens) == PSAcc(lens, 1, <<0>>)

\* what the public operations must return, as <<byte offset, byte length>> into the text
GetSpec(lens, n) == IF n < Len(lens) THEN <<PS(lens)[n + 1], lens[n + 1]>> ELSE <<>>
SubSpec(lens, a, b) ==
    LET a2 == Min2(a, Len(lens))
        b2 == Min2(b, Len(lens))
    IN IF a2 = b2 THEN <<0, 0>> ELSE <<PS(lens)[a2 + 1], PS(lens)[b2 + 1] - PS(lens)[a2 + 1]>>

\* mechanism layer: functional transcriptions ---------------------------------
RleStep(acc, x) == IF acc # <<>> /\ acc[Len(acc)][1] = x
                   THEN [acc EXCEPT ![Len(acc)] = <<x, @[2] + 1>>]
                   ELSE Append(acc, <<x, 1>>)
RECURSIVE RleAcc(_, _, _)
RleAcc(lens, k, acc) == IF k > Len(lens) THEN acc ELSE RleAcc(lens, k + 1, RleStep(acc, lens[k]))
Rle(lens) == RleAcc(lens, 1, <<>>)

RECURSIVE Decode(_)
Decode(rle) == IF rle = <<>> THEN <<>> ELSE [k \in 1..rle[1][2] |-> rle[1][1]] \o Decode(Tail(rle))

\* byte_start_end: scan over the runs; <<>> stands for the panic "should not happen"
RECURSIVE BseScan(_, _, _, _, _)
BseScan(rle, n, k, start, total) ==
    IF k > Len(rle) THEN <<>>
    ELSE IF n < total + rle[k][2]
         THEN <<start + rle[k][1] * (n - total), start + rle[k][1] * (n - total) + rle[k][1]>>
         ELSE BseScan(rle, n, k + 1, start + rle[k][2] * rle[k][1], total + rle[k][2])
Bse(rle, n) == BseScan(rle, n, 1, 0, 0)

\* char_range_to_byte_range (asserts start < end <= len)
Crbr(rle, len, a, b) ==
    IF ~(a < b /\ b <= len) THEN <<>>
    ELSE IF a < b - 1 THEN <<Bse(rle, a)[1], Bse(rle, b - 1)[2]>> ELSE Bse(rle, a)

SubImpl(lens, a, b) ==
    LET rle == Rle(lens)
        a2 == Min2(a, Len(lens))
        b2 == Min2(b, Len(lens))
    IN IF Len(lens) = 0 \/ a2 = b2 THEN <<0, 0>>
       ELSE LET r == Crbr(rle, Len(lens), a2, b2) IN <<r[1], r[2] - r[1]>>

\* possible_character_substrings(max_chars): windows <<start byte, end byte, #chars>>;
\* max_chars = 0 on a non-empty text runs into the assertion of char_range_to_byte_range (CharSubPanics)
CharSubPanics(lens, maxc) == lens # <<>> /\ maxc = 0
CharSubstrings(lens, maxc) ==
    IF lens = <<>> THEN << <<0, 0, 0>> >>
    ELSE LET n == Len(lens)
             m == Min2(maxc, n)
         IN [s \in 1..(n - m + 1) |-> <<PS(lens)[s], PS(lens)[s + m], m>>]


\* find_subsequences_of_max_size_k with size = sum of byte lengths (the loop of src/utils.rs, transcribed as in
\* Batched.tla): 0-based half-open character windows <<start, end>>
RECURSIVE SumLens(_, _, _)
SumLens(lens, s, e) == IF s >= e THEN 0 ELSE lens[s + 1] + SumLens(lens, s + 1, e)
Max2(a, b) == IF a >= b THEN a ELSE b
RECURSIVE FirstFitB(_, _, _)
FirstFitB(v, s, maxb) == IF s < Len(v) /\ v[s + 1] > maxb THEN FirstFitB(v, s + 1, maxb) ELSE s
RECURSIVE SubLoopB(_, _, _, _, _, _)
SubLoopB(v, maxb, start, end, prev, acc) ==
    IF ~(start < Len(v) /\ end <= Len(v)) THEN acc
    ELSE LET cur == SumLens(v, start, end) IN
         IF cur <= maxb
         THEN SubLoopB(v, maxb, start, end + 1, cur, IF end >= Len(v) THEN Append(acc, <<start, end>>) ELSE acc)
         ELSE IF prev <= maxb
         THEN SubLoopB(v, maxb, start + 1, end, cur, Append(acc, <<start, end - 1>>))
         ELSE SubLoopB(v, maxb, start + 1, Max2(end, start + 2), cur, acc)
SubseqB(v, maxb) ==
    LET s0 == FirstFitB(v, 0, maxb) IN
    IF s0 >= Len(v) THEN <<>> ELSE SubLoopB(v, maxb, s0, s0 + 1, v[s0 + 1], <<>>)
\* possible_byte_substrings as the code computes it
ByteSubstringsImpl(lens, maxb) ==
    IF lens = <<>> THEN << <<0, 0, 0>> >>
    ELSE LET w == SubseqB(lens, maxb) IN [j \in 1..Len(w) |-> <<PS(lens)[w[j][1] + 1], PS(lens)[w[j][2] + 1], w[j][2] - w[j][1]>>]

\* possible_byte_substrings: every window is a non-empty character range within the byte budget, windows are
\* strictly increasing in start and end, maximal (cannot be extended to the right), and every character that fits on
\* its own is covered; an empty text yields the single empty window
Win(L, P, w) == \E a \in 0..(Len(L) - 1) : \E b \in (a + 1)..Len(L) : w = <<P[a + 1], P[b + 1], b - a>>
ByteSubOk(L, P, maxb, wins) ==
    IF L = <<>> THEN wins = << <<0, 0, 0>> >>
    ELSE /\ \A j \in 1..Len(wins) : Win(L, P, wins[j]) /\ wins[j][2] - wins[j][1] <= maxb
         /\ \A j \in 1..(Len(wins) - 1) : wins[j][1] < wins[j + 1][1] /\ wins[j][2] < wins[j + 1][2]
         /\ \A q \in 1..Len(L) : L[q] <= maxb => \E j \in 1..Len(wins) : wins[j][1] <= P[q] /\ P[q + 1] <= wins[j][2]
         /\ \A j \in 1..Len(wins) : \A q \in 1..Len(L) : P[q] = wins[j][2] => wins[j][2] - wins[j][1] + L[q] > maxb
=============================================================================
