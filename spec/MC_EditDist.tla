---------------------------- MODULE MC_EditDist ----------------------------
(***************************************************************************)
(* Design-level check for C12: the alignment machine Align explored for    *)
(* all pairs of texts up to MaxLen over one whitespace and NSym-1 other    *)
(* symbols, all flag combinations.  In every reachable state the DP value  *)
(* of the mechanism layer satisfies the Bellman conditions of the Align    *)
(* graph, i.e. DP = least Align cost (the property layer's definition).    *)
(***************************************************************************)
EXTENDS EditDist, TLC
CONSTANTS MaxLen, NSym
Sym == {[i |-> 1, w |-> TRUE]} \cup {[i |-> k, w |-> FALSE] : k \in 2..NSym}
Texts == SeqsUpTo(Sym, MaxLen)

VARIABLES a, b, swap, sid, i, j, cost
vars == <<a, b, swap, sid, i, j, cost>>

Init == /\ a \in Texts /\ b \in Texts /\ swap \in BOOLEAN /\ sid \in BOOLEAN
        /\ i = 0 /\ j = 0 /\ cost = 0

Step(k) == \E s \in AlignSteps(a, b, i, j, swap, sid) :
              /\ s.k = k
              /\ i' = i + s.di /\ j' = j + s.dj /\ cost' = cost + s.c
              /\ UNCHANGED <<a, b, swap, sid>>
Keep == Step("k")
Replace == Step("r")
Insert == Step("i")
Delete == Step("d")
Swap == Step("s")
Next == Keep \/ Replace \/ Insert \/ Delete \/ Swap
Spec == Init /\ [][Next]_vars /\ WF_vars(Next)

D(ii, jj) == Dist(SubSeq(a, 1, ii), SubSeq(b, 1, jj), swap, sid)

\* DP is a lower bound of every alignment cost ...
Sound == cost >= D(i, j)
\* ... and is attained: some Align step leads into (i,j) from a state whose DP value explains it
Tight == (i + j > 0) =>
            \E pi \in 0..i, pj \in 0..j :
               \E s \in AlignSteps(a, b, pi, pj, swap, sid) :
                  pi + s.di = i /\ pj + s.dj = j /\ D(pi, pj) + s.c = D(i, j)
\* Align can always be completed; it only stops at (m, n)
Progress == (ENABLED Next) \/ (i = Len(a) /\ j = Len(b))
\* consequences the property statement names
Bounds == (i = Len(a) /\ j = Len(b)) =>
            /\ (Ids(a) = Ids(b) => D(i, j) = 0)
            /\ (~sid => D(i, j) <= Max2(i, j))
            /\ D(i, j) <= i + j
            /\ PrefixDist(a, b, swap, sid) <= D(i, j)
            /\ \A q \in 0..j : PrefixDist(a, b, swap, sid) <= Dist(a, SubSeq(b, 1, q), swap, sid)
            /\ \E q \in 0..j : PrefixDist(a, b, swap, sid) = Dist(a, SubSeq(b, 1, q), swap, sid)
Terminates == <>(i = Len(a) /\ j = Len(b))
=============================================================================
