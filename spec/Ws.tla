--------------------------------- MODULE Ws ---------------------------------
(***************************************************************************)
(* Whitespace functions (C10, C11, C14): clean, word_boundaries, remove,   *)
(* full, operations, repair, whitespace corruption.                        *)
(*                                                                         *)
(* A text is a sequence of characters (code points or grapheme clusters)   *)
(* [c : sequence of code-point ids, w : all code points are whitespace,    *)
(*  m : mixed (some but not all whitespace), s : it is exactly U+0020].    *)
(* Code-point id 1 is U+0020.  Two characters are equal iff their c are.   *)
(***************************************************************************)
EXTENDS Naturals, Sequences, FiniteSets, SequencesExt

SP == [c |-> <<1>>, w |-> TRUE, m |-> FALSE, s |-> TRUE]
Cps(t) == FlattenSeq([k \in 1..Len(t) |-> t[k].c])
NoWs(t) == SelectSeq(t, LAMBDA x : ~x.w)
NoMixed(t) == \A k \in 1..Len(t) : ~t[k].m
\* whitespace-clean: single U+0020 separators, none leading or trailing
IsClean(t) == /\ \A k \in 1..Len(t) : t[k].w => t[k].s
              /\ \A k \in 1..(Len(t) - 1) : ~(t[k].w /\ t[k + 1].w)
              /\ (t # <<>> => ~t[1].w /\ ~t[Len(t)].w)

-----------------------------------------------------------------------------
\* clean(): the scanning loop (lastWs flag, separator only between words)
RECURSIVE CleanAcc(_, _, _, _)
CleanAcc(t, k, lastWs, out) ==
    IF k > Len(t) THEN out
    ELSE IF t[k].w THEN CleanAcc(t, k + 1, TRUE, out)
    ELSE CleanAcc(t, k + 1, FALSE, (IF lastWs /\ out # <<>> THEN Append(out, SP) ELSE out) \o <<t[k]>>)
Clean(t) == CleanAcc(t, 1, FALSE, <<>>)

\* words = maximal runs of non-whitespace characters, as 0-based half-open ranges <<a, z>>
WordStarts(t) == {k \in 1..Len(t) : ~t[k].w /\ (k = 1 \/ t[k - 1].w)}
WordEnd(t, a) == IF \E z \in a..Len(t) : t[z].w
                 THEN (CHOOSE z \in a..Len(t) : t[z].w /\ \A y \in a..(z - 1) : ~t[y].w) - 1
                 ELSE Len(t)
WordBounds(t) == LET st == SetToSortSeq(WordStarts(t), LAMBDA x, y : x < y)
                 IN [k \in 1..Len(st) |-> <<st[k] - 1, WordEnd(t, st[k])>>]
Words(t) == LET wb == WordBounds(t) IN [k \in 1..Len(wb) |-> SubSeq(t, wb[k][1] + 1, wb[k][2])]
RECURSIVE JoinAcc(_, _, _)
JoinAcc(ws, k, out) == IF k > Len(ws) THEN out
                       ELSE JoinAcc(ws, k + 1, (IF k > 1 THEN Append(out, SP) ELSE out) \o ws[k])
Join(ws) == JoinAcc(ws, 1, <<>>)
RemoveWs(t) == NoWs(t)
FullWs(t) == Join([k \in 1..Len(NoWs(t)) |-> <<NoWs(t)[k]>>])

-----------------------------------------------------------------------------
\* operations(from, to): the two-pointer alignment; returns the op sequence or <<"fail">>
RECURSIVE OpsAcc(_, _, _, _, _)
OpsAcc(f, t, fp, tp, ops) ==
    IF fp > Len(f) THEN ops
    ELSE IF tp <= Len(t) /\ f[fp].c = t[tp].c THEN OpsAcc(f, t, fp + 1, tp + 1, Append(ops, "k"))
    ELSE IF tp <= Len(t) /\ t[tp].w THEN OpsAcc(f, t, fp + 1, tp + 2, Append(ops, "i"))
    ELSE IF f[fp].w THEN OpsAcc(f, t, fp + 1, tp, Append(ops, "d"))
    ELSE <<"fail">>
Ops(f, t) == OpsAcc(f, t, 1, 1, <<>>)

\* repair(s, ops): insert only before a non-space that does not follow a space
RECURSIVE RepairAcc(_, _, _, _)
RepairAcc(s, ops, k, out) ==
    IF k > Len(s) THEN out
    ELSE IF ops[k] = "i" /\ ~s[k].w /\ (k = 1 \/ ~s[k - 1].w) THEN RepairAcc(s, ops, k + 1, out \o <<SP, s[k]>>)
    ELSE IF ops[k] = "d" /\ s[k].w THEN RepairAcc(s, ops, k + 1, out)
    ELSE RepairAcc(s, ops, k + 1, Append(out, s[k]))
Repair(s, ops) == RepairAcc(s, ops, 1, <<>>)

-----------------------------------------------------------------------------
\* whitespace corruption: one coin per character.  canIns / canKeep... describe which
\* coin outcomes are possible for the probability classes (0, strictly between, 1).
\* Corrupted(t, o, iw, dw): o is a possible output for text t; iw, dw in {"zero", "mid", "one"}
RECURSIVE CorrAcc(_, _, _, _, _, _)
CorrAcc(t, o, k, p, iw, dw) ==      \* k: position in t, p: position in o
    IF k > Len(t) THEN p = Len(o) + 1
    ELSE IF t[k].w
    THEN \/ (dw # "zero" /\ CorrAcc(t, o, k + 1, p, iw, dw))                                   \* deleted
         \/ (dw # "one" /\ p <= Len(o) /\ o[p].c = t[k].c /\ CorrAcc(t, o, k + 1, p + 1, iw, dw)) \* kept
    ELSE LET eligible == k > 1 /\ ~t[k - 1].w IN
         \/ (iw # "zero" /\ eligible /\ p + 1 <= Len(o) /\ o[p].c = <<1>> /\ o[p + 1].c = t[k].c
               /\ CorrAcc(t, o, k + 1, p + 2, iw, dw))                                         \* space inserted
         \/ ((iw # "one" \/ ~eligible) /\ p <= Len(o) /\ o[p].c = t[k].c /\ CorrAcc(t, o, k + 1, p + 1, iw, dw))
Corrupted(t, o, iw, dw) == CorrAcc(t, o, 1, 1, iw, dw)
=============================================================================
