------------------------------- MODULE Gen_Ws -------------------------------
(***************************************************************************)
(* Enumerates bounded input spaces of the whitespace functions for replay  *)
(* into the real code (C10, C11, C14).  Slots refer to the concretisation  *)
(* alphabets of the harness ("ws": space, tab, NBSP, ideographic space, a, *)
(* b, ZWSP, e+acute, CRLF; "asciiws": space, tab, LF, VT, FF, CR, a, US, CRLF; "fuse": space, tab, regional indicators D / E, Hangul L / V, a, b, flag DE; "cleanpair": space, a, b, a-umlaut, e+acute).   *)
(***************************************************************************)
EXTENDS Naturals, Sequences, FiniteSets, SequencesExt, TLC, Json, IOUtils
CONSTANTS MaxLen
SeqsOver(S, n) == UNION {[1..k -> S] : k \in 0..n}

\* (TLC evaluates every constant-level definition at start-up: each family is guarded)
Fam(f) == IOEnv.FAMILY = f
CleanCases == IF ~Fam("clean") THEN {} ELSE {[kind |-> "clean", alpha |-> a, slots |-> s, g |-> g] : s \in SeqsOver(1..9, MaxLen), g \in BOOLEAN, a \in {"ws", "asciiws", "fuse"}}

\* a clean text = content with a subset of gaps filled by one space (slot 1)
RECURSIVE Spaced(_, _, _)
Spaced(content, gaps, k) ==
    IF k > Len(content) THEN <<>>
    ELSE (IF k > 1 /\ (k - 1) \in gaps THEN <<1>> ELSE <<>>) \o <<content[k]>> \o Spaced(content, gaps, k + 1)
PairsOf(cn) == {[kind |-> "pair", alpha |-> "cleanpair", fslots |-> Spaced(cn, gf, 1), tslots |-> Spaced(cn, gt, 1), g |-> g] :
                  gf \in SUBSET (1..(Len(cn) - 1)), gt \in SUBSET (1..(Len(cn) - 1)), g \in BOOLEAN}
PairCases == IF ~Fam("pair") THEN {} ELSE UNION {PairsOf(cn) : cn \in SeqsOver(2..5, MaxLen)}

RepairOf(s) == {[kind |-> "repair", alpha |-> "ws", slots |-> s, ops |-> o, g |-> FALSE] : o \in [1..Len(s) -> {"k", "i", "d"}]}
\* the same over the pure-ASCII alphabet with CRLF (one character in grapheme mode, two in code-point mode)
RepairOfA(s) == {[kind |-> "repair", alpha |-> "asciiws", slots |-> s, ops |-> o, g |-> g] :
                   o \in UNION {[1..n -> {"k", "i", "d"}] : n \in {Len(s), Len(s) + Cardinality({k \in 1..Len(s) : s[k] = 9})}}, g \in BOOLEAN}
RepairCases == IF ~Fam("repair") THEN {} ELSE UNION {RepairOf(s) : s \in SeqsOver({1, 2, 5}, MaxLen)}
                                               \cup UNION {RepairOfA(s) : s \in SeqsOver({1, 7, 8, 9}, MaxLen - 1)}

IsCleanSlots(s) == /\ \A k \in 1..(Len(s) - 1) : ~(s[k] = 1 /\ s[k + 1] = 1)
                   /\ (s # <<>> => s[1] # 1 /\ s[Len(s)] # 1)
CleanTexts == IF ~Fam("corrupt") THEN {} ELSE {x \in SeqsOver({1, 2, 5}, MaxLen) : IsCleanSlots(x)}
CorruptCases == {[kind |-> "corrupt", alpha |-> "cleanpair", slots |-> s, iw |-> p[1], dw |-> p[2], seed |-> sd, g |-> g] :
                   s \in CleanTexts,
                   p \in {<<0, 1>>, <<1, 0>>, <<1, 1>>, <<0, 5>>, <<5, 0>>, <<5, 5>>, <<5, 1>>, <<1, 5>>},
                   sd \in {0, 1, 2, 4}, g \in BOOLEAN}     \* the seed also selects 0-2 prefix / 0-1 suffix tokens of the task

Cases == CleanCases \cup PairCases \cup RepairCases \cup CorruptCases
VARIABLE x
Init == x = 0 /\ ndJsonSerialize(IOEnv.OUT, SetToSeq(Cases))
Next == UNCHANGED x
=============================================================================
