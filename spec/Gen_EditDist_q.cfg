CONSTANTS MaxLen = 3 NSym = 3
INIT Init
NEXT Next
CHECK_DEADLOCK FALSE
