------------------------------- MODULE Gen_Post -------------------------------
(* Enumerates postprocessing configurations x marks x item shapes x clip lengths x tokenizer prefix/suffix counts, *)
(* and task-input cases (generation with / without masked prefix and separator, conditional generation,           *)
(* classification) for replay into the real postprocessing() and train_task() (extension X03).                    *)
EXTENDS Naturals, Sequences, FiniteSets, SequencesExt, TLC, Json, IOUtils
CONSTANTS MaxN, Depth

Leaves == {[op |-> "none"], [op |-> "clip"], [op |-> "mask", pz |-> FALSE], [op |-> "mask", pz |-> TRUE]}
Comb(K) == {[op |-> "chain", kids |-> k] : k \in UNION {[1..n -> K] : n \in {0, 2}}}
           \cup {[op |-> "switch", kids |-> k, cum |-> <<500000, 1000000>>] : k \in [1..2 -> K]}
           \cup {[op |-> "onmark", key |-> "k", val |-> "x", kids |-> <<a>>] : a \in K}
           \cup {[op |-> "swmark", key |-> "k", vals |-> <<"x", "y">>, kids |-> k] : k \in [1..2 -> K]}
Level1 == Leaves \cup Comb(Leaves)
Few == {[op |-> "clip"], [op |-> "mask", pz |-> FALSE],
        [op |-> "onmark", key |-> "k", val |-> "y", kids |-> <<[op |-> "clip"]>>],
        [op |-> "swmark", key |-> "k", vals |-> <<"x", "y">>, kids |-> <<[op |-> "mask", pz |-> FALSE], [op |-> "none"]>>],
        [op |-> "chain", kids |-> <<[op |-> "mask", pz |-> FALSE], [op |-> "clip"]>>]}
Trees == IF Depth = 1 THEN Level1 ELSE Level1 \cup Comb(Few)
MarkSets == {<<>>, <<<<"k", "x">>>>, <<<<"k", "y">>>>, <<<<"k", "z">>, <<"j", "x">>>>}

PostCases == {[kind |-> "post", cfg |-> c, marks |-> m, n |-> n, L |-> l, pfx |-> pf, sfx |-> sf, seed |-> sd, item |-> it] :
                c \in Trees, m \in MarkSets, n \in 0..MaxN, l \in {0, 2, 4}, pf \in 0..1, sf \in 0..1, sd \in 0..1,
                it \in {"gen", "cond"}}
             \cup {[kind |-> "post", cfg |-> c, marks |-> <<<<"k", "x">>>>, n |-> MaxN, L |-> 3, pfx |-> 2, sfx |-> 2, seed |-> 3, item |-> it] :
                c \in Trees, it \in {"seq", "cls"}}

\* task inputs: texts over the harness alphabet "cleanpair" (space, a, b, a-umlaut, e + acute)
Texts == UNION {[1..k -> {1, 2, 4}] : k \in 0..2}
TaskCases == {[kind |-> "task", task |-> "gen", islots |-> a, tslots |-> b, mask_prefix |-> mp, sep |-> sp, npfx |-> pf, nsfx |-> sf] :
                a \in Texts, b \in Texts, mp \in BOOLEAN, sp \in 0..2, pf \in 0..2, sf \in 0..2}
             \cup {[kind |-> "task", task |-> "cond", islots |-> a, tslots |-> b, mask_prefix |-> FALSE, sep |-> 0, npfx |-> pf, nsfx |-> sf] :
                a \in Texts, b \in Texts, pf \in 0..2, sf \in 0..2}
             \cup {[kind |-> "task", task |-> "cls", islots |-> a, tslots |-> b, mask_prefix |-> FALSE, sep |-> 0, npfx |-> 1, nsfx |-> 1] :
                a \in Texts, b \in Texts}
Cases == IF IOEnv.FAMILY = "post" THEN PostCases ELSE TaskCases
VARIABLE x
Init == x = 0 /\ ndJsonSerialize(IOEnv.OUT, SetToSeq(Cases))
Next == UNCHANGED x
=============================================================================
