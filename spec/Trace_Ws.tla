------------------------------ MODULE Trace_Ws ------------------------------
(* Validates recorded calls of clean / word_boundaries / remove / full (C11),  *)
(* operations / repair (C10) and whitespace corruption with the whitespace-    *)
(* correction task labels (C14) against Ws.tla.                                *)
EXTENDS Ws, TLC, Json, IOUtils
Rec == ndJsonDeserialize(IOEnv.OBS)
NChunks == atoi(IOEnv.NCHUNKS)
VARIABLES c, i, nfail, nskip, nnt, ndrift

Failing(cl) == LET bad == SelectSeq(cl, LAMBDA x : ~x[2]) IN [k \in 1..Len(bad) |-> bad[k][1]]
Verdict(cl, drift, skip, nt) == [why |-> Failing(cl), drift |-> drift, skip |-> skip, nt |-> nt]
Skip == [why |-> <<>>, drift |-> <<>>, skip |-> TRUE, nt |-> FALSE]
Content(t) == [k \in 1..Len(NoWs(t)) |-> NoWs(t)[k].c]
WsIds(t) == {1} \cup UNION {{t[k].c[n] : n \in 1..Len(t[k].c)} : k \in {j \in 1..Len(t) : t[j].w}}
NumWs(t) == Cardinality({k \in 1..Len(t) : t[k].w})
OpNum(o) == IF o = "k" THEN 0 ELSE IF o = "i" THEN 1 ELSE 2

JClean(r) ==
    IF ~NoMixed(r.v) THEN Skip
    ELSE Verdict(<<
        <<"C11:clean_is_words_joined_by_single_spaces", r.clean = Cps(Join(Words(r.v)))>>,
        <<"C11:clean_is_idempotent", r.clean2 = r.clean>>,
        <<"C11:word_boundaries", r.wb = WordBounds(r.v)>>,
        <<"C11:remove_is_text_without_whitespace", r.remove = Cps(NoWs(r.v))>>,
        <<"C11:full_separates_every_character", r.full = Cps(FullWs(r.v))>>
      >>,
      IF r.clean = Cps(Clean(r.v)) THEN <<>> ELSE <<"clean_differs_from_scanning_machine">>,
      FALSE,
      \* non-trivial: leading/trailing/double or non-U+0020 whitespace present
      ~IsClean(r.v) /\ NoWs(r.v) # <<>>)

\* very long texts (tens of thousands of characters): what can be checked in one pass.  ws = one flag per character of the
\* text (whitespace or not), wb = the word boundaries returned, fullws / removews = the same flags for the characters of
\* full() and remove(), cleanws for clean()
\* the words as a fold over the flags: acc = <<ranges, start of the open word or 0>>, k = position (1-based)
BoundsOf(ws) ==
    LET n == Len(ws)
        step(acc, k) ==
            LET st == IF ~ws[k] /\ (k = 1 \/ ws[k - 1]) THEN k ELSE acc[2]
            IN IF ~ws[k] /\ (k = n \/ ws[k + 1]) THEN <<Append(acc[1], <<st - 1, k>>), 0>> ELSE <<acc[1], st>>
    IN FoldLeft(step, <<<<>>, 0>>, [k \in 1..n |-> k])[1]
NonWsCount(ws) == Cardinality({k \in 1..Len(ws) : ~ws[k]})
Alternating(fl) == /\ \A k \in 1..Len(fl) : fl[k] = (k % 2 = 0)
JCleanLong(r) ==
    LET k == NonWsCount(r.ws)
        nw == Len(BoundsOf(r.ws))
    IN Verdict(<<
        <<"C11:word_boundaries", r.wb = BoundsOf(r.ws)>>,
        <<"C11:remove_is_text_without_whitespace", Len(r.removews) = k /\ \A j \in 1..Len(r.removews) : ~r.removews[j]>>,
        <<"C11:full_separates_every_character", Len(r.fullws) = (IF k = 0 THEN 0 ELSE 2 * k - 1) /\ Alternating(r.fullws)>>,
        <<"C11:clean_is_words_joined_by_single_spaces", NonWsCount(r.cleanws) = k /\ Len(r.cleanws) = (IF nw = 0 THEN 0 ELSE k + nw - 1)
                                                       /\ Len(BoundsOf(r.cleanws)) = nw>>
      >>, <<>>, FALSE, Len(r.ws) > 16384)

\* whitespace corruption of a very long text with one probability 0: tends / oends = for every whitespace run of the text /
\* the output, the number of non-whitespace characters in front of it.  No deletion: every word end of the text is still a
\* word end of the output; no insertion: the output has no other word ends than the text.
JCorruptLong(r) ==
    LET T == {r.tends[k] : k \in 1..Len(r.tends)}
        O == {r.oends[k] : k \in 1..Len(r.oends)}
    IN Verdict(<<
        <<"C14:same_non_whitespace_characters", r.same_content>>,
        <<"C14:no_deletion_with_probability_zero", r.dw = "zero" => T \subseteq O>>,
        <<"C14:no_insertion_with_probability_zero", r.iw = "zero" => O \subseteq T>>
      >>, <<>>, FALSE, r.n > 65536)

JPair(r) ==
    IF ~(NoMixed(r.fv) /\ NoMixed(r.tv) /\ IsClean(r.fv) /\ IsClean(r.tv) /\ Content(r.fv) = Content(r.tv)) THEN Skip
    ELSE Verdict(<<
        <<"C10:operations_succeeds_on_clean_pairs", r.ops_ok>>,
        <<"C10:one_operation_per_character", r.ops_ok => Len(r.ops) = Len(r.fv)>>,
        <<"C10:repair_inverts_operations", r.ops_ok => (r.repair.ok /\ r.repair.cps = Cps(r.tv))>>
      >>,
      IF r.ops_ok /\ r.ops # Ops(r.fv, r.tv) THEN <<"operations_differ_from_two_pointer_machine">> ELSE <<>>,
      FALSE,
      Cps(r.fv) # Cps(r.tv))

JRepair(r) ==
    IF ~NoMixed(r.v) THEN Skip
    ELSE LET fits == Len(r.ops) = Len(r.v) IN      \* one operation per character (in the segmentation mode of the call)
      Verdict(<<
        <<"C10:repair_accepts_matching_length", fits => r.repair.ok>>,
        <<"C10:repair_only_touches_whitespace",
            (fits /\ r.repair.ok) => SelectSeq(r.repair.cps, LAMBDA x : x \notin WsIds(r.v)) = Cps(NoWs(r.v))>>,
        <<"C10:all_keep_is_identity",
            (fits /\ r.repair.ok /\ \A k \in 1..Len(r.ops) : r.ops[k] = "k") => r.repair.cps = Cps(r.v)>>,
        <<"C10:length_mismatch_is_an_error", /\ (~fits => ~r.repair.ok)
                                             /\ (Len(r.ops) + 1 # Len(r.v) => r.mismatch = "err")>>
      >>,
      IF fits /\ r.repair.ok /\ r.repair.cps # Cps(Repair(r.v, r.ops)) THEN <<"repair_differs_from_fold">> ELSE <<>>,
      FALSE,
      fits /\ \E k \in 1..Len(r.ops) : r.ops[k] # "k")

JCorrupt(r) ==
    IF ~(NoMixed(r.tv) /\ IsClean(r.tv)) THEN Skip
    ELSE LET ops == Ops(r.ov, r.tv)
             okOps == ops # <<"fail">> /\ Len(ops) = Len(r.ov)
         IN Verdict(<<
        <<"C14:target_untouched", r.target_cps = r.text_cps>>,
        <<"C14:same_non_whitespace_characters", Cps(NoWs(r.ov)) = Cps(NoWs(r.tv))>>,
        <<"C14:output_is_whitespace_clean", NoMixed(r.ov) /\ IsClean(r.ov)>>,
        \* ... by the two-pointer alignment and the repair fold of Ws.tla, and by the library's own operations / repair
        <<"C14:operations_and_repair_recover_the_text", okOps /\ Cps(Repair(r.ov, ops)) = Cps(r.tv) /\ r.lib.ok /\ r.lib.cps = Cps(r.tv)>>,
        <<"C14:one_label_per_input_character",
            \* npfx prefix and nsfx suffix tokens carry the label -1, the characters' labels (the operations) sit between them
            r.task.ok /\ Len(r.task.labels) = Len(r.ov) + r.npfx + r.nsfx
            /\ (\A k \in 1..Len(r.task.labels) : (k <= r.npfx \/ k > r.npfx + Len(r.ov)) => r.task.labels[k] + 1 = 0)
            /\ (okOps => SubSeq(r.task.labels, r.npfx + 1, r.npfx + Len(r.ov)) = [k \in 1..Len(ops) |-> OpNum(ops[k])])>>,
        <<"C14:deterministic_in_text_and_seed", r.same_again>>,
        <<"C14:no_deletion_with_probability_zero", r.dw = "zero" => NumWs(r.ov) >= NumWs(r.tv)>>,
        <<"C14:no_insertion_with_probability_zero", r.iw = "zero" => NumWs(r.ov) <= NumWs(r.tv)>>
      >>,
      IF Corrupted(r.tv, r.ov, r.iw, r.dw) THEN <<>> ELSE <<"output_not_reachable_by_any_coin_vector">>,
      FALSE,
      Cps(r.ov) # Cps(r.tv))

Judge(r) ==
    IF r.st # "ok" THEN [why |-> <<r.st>>, drift |-> <<>>, skip |-> FALSE, nt |-> FALSE]
    ELSE CASE r.kind = "clean" -> JClean(r)
           [] r.kind = "cleanlong" -> JCleanLong(r)
           [] r.kind = "corruptlong" -> JCorruptLong(r)
           [] r.kind = "pair" -> JPair(r)
           [] r.kind = "repair" -> JRepair(r)
           [] OTHER -> JCorrupt(r)

INSTANCE Stepper
=============================================================================
