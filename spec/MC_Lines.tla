------------------------------- MODULE MC_Lines -------------------------------
(* The reader as a step machine (one next() per step) for every file up to MaxLen bytes over {LF, CR, a, space}:  *)
(* the lines read so far re-join to the consumed prefix, the count equals count_lines' closed form.                *)
EXTENDS Lines
CONSTANTS MaxLen
VARIABLES f, pos, out
vars == <<f, pos, out>>
Init == /\ f \in UNION {[1..n -> {LF, CR, 97, 32}] : n \in 0..MaxLen} /\ pos = 1 /\ out = <<>>
Next == /\ pos <= Len(f)
        /\ LET r == ReadLine(f, pos) IN out' = Append(out, r[1]) /\ pos' = r[2]
        /\ UNCHANGED f
Spec == Init /\ [][Next]_vars /\ WF_vars(Next)
PrefixInv == LinesOk(SubSeq(f, 1, pos - 1), out) \/ (pos > Len(f) /\ LinesOk(f, out))
DoneInv == pos > Len(f) => (out = Lines(f) /\ LinesOk(f, out))
NoCRLFInside == \A k \in 1..Len(out) : \A j \in 1..Len(out[k]) : out[k][j] # LF
Terminates == <>(pos > Len(f))
=============================================================================
