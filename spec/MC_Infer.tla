------------------------------- MODULE MC_Infer -------------------------------
EXTENDS Infer
CONSTANTS MaxLen
Kinds == {[k |-> "ok", nw |-> 1], [k |-> "ok", nw |-> 2], [k |-> "src", nw |-> 0], [k |-> "pipe", nw |-> 0]}
MCItems == UNION {[1..n -> Kinds] : n \in 0..MaxLen}
=============================================================================
