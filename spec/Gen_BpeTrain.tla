---------------------------- MODULE Gen_BpeTrain ----------------------------
(* Enumerates small corpora for replay of C19: sets of <= MaxDistinct words    *)
(* from the pool, frequencies 1..MaxFreqC, every number of requested merges.   *)
EXTENDS Naturals, Sequences, FiniteSets, SequencesExt, TLC, Json, IOUtils
CONSTANTS MaxDistinct, MaxFreqC, MaxMerges
Pool == {<<1>>, <<1, 2>>, <<1, 1, 1>>, <<1, 2, 1, 2>>, <<2, 1>>, <<2, 2, 1>>, <<1, 1, 1, 1>>, <<3, 1, 2>>}
\* alpha: the letters behind the slots - "abcd", or "nfkc" = ligature fi, i, fullwidth f, f (letters that NFKC rewrites):
\* with norm = FALSE the corpus is counted as it is, with norm = TRUE in its NFKC form
CasesOf(ws, alpha, norms) ==
    LET s == SetToSeq(ws) IN
    { [words |-> s, freqs |-> [k \in 1..Len(s) |-> f[k]], num_merges |-> m, per_line |-> pl, seed |-> 3,
       threads |-> <<0, 1, 3>>, norm |-> nm, alpha |-> alpha, files |-> 1, max_lines |-> 0, blanks |-> 0, bad_utf8 |-> FALSE] :
         f \in [1..Len(s) -> 1..MaxFreqC], m \in 0..MaxMerges, pl \in {1, 2}, nm \in norms }
\* slot 5 of the nfkc letters is the spacing acute accent: NFKC turns it into a blank and a combining mark
SmallPool == {<<1, 2>>, <<3, 2>>, <<1, 1>>, <<4, 2, 4, 2>>, <<2, 5, 2>>}
\* files / max_lines: the corpus spread over several input files, of each of which only the first max_lines lines count
FileCases == {[c EXCEPT !.files = 2, !.max_lines = ml, !.per_line = 1] :
                 c \in UNION {CasesOf(ws, "abcd", {TRUE}) : ws \in {{<<1, 2>>, <<2, 1>>}, {<<1, 1, 1>>, <<3, 1, 2>>, <<1>>}}}, ml \in {1, 2}}
\* blanks: that many empty / whitespace-only / CR-only lines in front of every file, and one behind every other line
BlankCases == {[c EXCEPT !.blanks = bl] :
                 c \in UNION {CasesOf(ws, "abcd", {TRUE}) : ws \in {{<<1, 2>>, <<2, 1>>}, {<<1, 1, 1>>, <<3, 1, 2>>, <<1>>}}}, bl \in {1, 3, 4}}
\* bad_utf8: a line that is not valid UTF-8 behind the first line of every file
BadUtf8Cases == {[c EXCEPT !.bad_utf8 = TRUE, !.per_line = 1] :
                 c \in UNION {CasesOf(ws, "abcd", {TRUE}) : ws \in {{<<1, 2>>, <<2, 1>>}, {<<1, 1, 1>>, <<3, 1, 2>>, <<1>>}}}}
Cases == UNION {CasesOf(ws, "abcd", {TRUE}) : ws \in {w \in SUBSET Pool : Cardinality(w) \in 1..MaxDistinct}}
         \cup FileCases \cup BlankCases \cup BadUtf8Cases
         \cup UNION {CasesOf(ws, "nfkc", BOOLEAN) : ws \in {w \in SUBSET SmallPool : Cardinality(w) \in 1..2}}
VARIABLE x
Init == x = 0 /\ ndJsonSerialize(IOEnv.OUT, SetToSeq(Cases))
Next == UNCHANGED x
=============================================================================
