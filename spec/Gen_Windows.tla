----------------------------- MODULE Gen_Windows -----------------------------
(* Enumerates texts (as slots = UTF-8 lengths 1..4, 5 = 8-byte flag cluster, 6 = *)
(* e + combining acute, 7 = CRLF: an ASCII cluster) x configurations, for C16.    *)
EXTENDS Naturals, Sequences, FiniteSets, SequencesExt, TLC, Json, IOUtils
CONSTANTS MaxN, MaxMax, MaxCtx
Texts == UNION {[1..n -> 1..7] : n \in 1..MaxN}
Cases == {[slots |-> t, kind |-> k, g |-> g, max |-> m, ctx |-> c] :
             t \in Texts, k \in {"char", "byte"}, g \in BOOLEAN, m \in 0..MaxMax, c \in 0..MaxCtx}
         \cup {[slots |-> t, kind |-> "full", g |-> g, max |-> 0, ctx |-> 0] : t \in Texts, g \in BOOLEAN}
VARIABLE x
Init == x = 0 /\ ndJsonSerialize(IOEnv.OUT, SetToSeq(Cases))
Next == UNCHANGED x
=============================================================================
