---------------------------- MODULE Trace_Windows ----------------------------
(* Validates recorded calls of windows() (C16) against Windows.tla.            *)
EXTENDS TLC, Json, IOUtils, Naturals, Sequences, FiniteSets, SequencesExt
Rec == ndJsonDeserialize(IOEnv.OBS)
NChunks == atoi(IOEnv.NCHUNKS)
VARIABLES c, i, nfail, nskip, nnt, ndrift

W == INSTANCE Windows WITH MaxN <- 0, LenSet <- {}, MaxMax <- 0, MaxCtx <- 0, lens <- <<>>, kind <- "", max <- 0,
                           ctx <- 0, ws <- 0, out <- <<>>, failed <- FALSE

Cps(t) == FlattenSeq([k \in 1..Len(t) |-> t[k].c])

JudgeOk(r) ==
    LET lens == [k \in 1..Len(r.v) |-> r.v[k].n]
        wins == [k \in 1..Len(r.wins) |-> [cs |-> r.wins[k].cs, ws |-> r.wins[k].ws, we |-> r.wins[k].we, ce |-> r.wins[k].ce]]
        ok == r.res = "ok"
        cl == <<
          <<"impossible_configuration_is_an_error", W!MustFail(r.kind, r.max, r.ctx) => r.res = "err">>,
          <<"fitting_configuration_succeeds", W!MustSucceed(lens, r.kind, r.max, r.ctx) => ok>>,
          <<"windows_tile_the_text", ok => W!Tiles(wins, Len(lens))>>,
          <<"context_contains_window_and_respects_maximum", ok => W!ContextOk(wins, lens, r.kind, r.max)>>,
          <<"byte_and_character_boundaries_agree",
              ok => \A k \in 1..Len(r.wins) :
                       /\ r.wins[k].cs <= Len(lens) /\ r.wins[k].ce <= Len(lens) /\ r.wins[k].we <= Len(lens)
                       /\ r.wins[k].bcs = W!Off(lens, r.wins[k].cs) /\ r.wins[k].bws = W!Off(lens, r.wins[k].ws)
                       /\ r.wins[k].bwe = W!Off(lens, r.wins[k].we) /\ r.wins[k].bce = W!Off(lens, r.wins[k].ce)>>,
          <<"string_is_the_context_slice",
              ok => \A k \in 1..Len(r.wins) :
                       (r.wins[k].cs <= r.wins[k].ce /\ r.wins[k].ce <= Len(lens))
                          => r.wins[k].str = Cps(SubSeq(r.v, r.wins[k].cs + 1, r.wins[k].ce))>>
        >>
        bad == SelectSeq(cl, LAMBDA x : ~x[2])
        exp == W!Expected(lens, r.kind, r.max, r.ctx)
        mech == IF W!MustFail(r.kind, r.max, r.ctx) THEN TRUE
                ELSE IF ok THEN wins = exp ELSE (exp # <<>> /\ exp[Len(exp)] = W!FailW)
    IN [why |-> [k \in 1..Len(bad) |-> bad[k][1]],
        drift |-> IF mech THEN <<>> ELSE <<"windows_differ_from_stepping_machine">>,
        skip |-> FALSE,
        \* non-trivial: at least two windows, or an error
        nt |-> Len(r.wins) >= 2 \/ r.res = "err"]

Judge(r) ==
    IF r.st # "ok" THEN [why |-> <<r.st>>, drift |-> <<>>, skip |-> FALSE, nt |-> FALSE]
    ELSE IF r.v = <<>> THEN [why |-> <<>>, drift |-> <<>>, skip |-> TRUE, nt |-> FALSE]
    ELSE JudgeOk(r)

INSTANCE Stepper
=============================================================================
