-------------------------------- MODULE Post --------------------------------
(***************************************************************************)
(* Task input functions (src/data/task.rs) and the postprocessing pipeline *)
(* (src/data/postprocessing.rs: clip_length, token masking) with all four  *)
(* combinators of src/data/utils.rs (chain, switch, on_mark,               *)
(* switch_on_mark).                                                        *)
(*                                                                         *)
(* Token sequences are sequences of numbers; label -1 means "no label".    *)
(* A postprocessing configuration is a record with field op:               *)
(*   none | clip | mask(pz) | chain(kids) | switch(kids, cum) |            *)
(*   onmark(key, val, kids) | swmark(key, vals, kids)                      *)
(* pz: the masking probability is zero.  Named deviation: the random       *)
(* number generator is not modelled - masking is described by what it may  *)
(* touch (the positions between the prefix and suffix tokens), the switch  *)
(* draw r is an input in millionths.                                       *)
(***************************************************************************)
EXTENDS Integers, Sequences, FiniteSets

Min2(a, b) == IF a <= b THEN a ELSE b
Cut(s, n) == SubSeq(s, 1, Min2(Len(s), n))
DropLast(s) == IF s = <<>> THEN <<>> ELSE SubSeq(s, 1, Len(s) - 1)
DropFirst(s) == IF s = <<>> THEN <<>> ELSE Tail(s)

-----------------------------------------------------------------------------
\* task inputs.  joined = tokens of input ++ separator ++ target, pfx = tokens of input ++ separator,
\* nsfx = number of suffix tokens of the tokenizer
MaskLen(pfx, nsfx, maskPrefix) == IF maskPrefix THEN Len(pfx) - nsfx ELSE 0
GenTask(joined, pfx, nsfx, maskPrefix) ==
    LET ml == MaskLen(pfx, nsfx, maskPrefix)
        lab == [k \in 1..Len(joined) |-> IF k <= ml THEN -1 ELSE joined[k]]
    IN [ids |-> DropLast(joined), labels |-> DropFirst(lab)]
\* what users rely on: position k predicts token k + 1, except inside the masked prefix
NextTokenLabels(ids, labels, joined, ml) ==
    /\ Len(ids) = Len(labels) /\ ids = DropLast(joined)
    /\ \A k \in 1..Len(labels) : labels[k] = IF k + 1 <= ml THEN -1 ELSE joined[k + 1]
CondTask(inIds, tgtIds) == [ids |-> inIds, tids |-> DropLast(tgtIds), labels |-> DropFirst(tgtIds)]
\* classification: 0-based index of the target among the classes, -1 = error
ClassIndex(classes, target) == IF \E k \in 1..Len(classes) : classes[k] = target
                               THEN (CHOOSE k \in 1..Len(classes) : classes[k] = target) - 1 ELSE -1

-----------------------------------------------------------------------------
\* combinators: the sequence of primitive steps a configuration runs for given marks and draw
RECURSIVE PickFrom(_, _, _)
PickFrom(cum, r, k) == IF k < Len(cum) /\ r > cum[k] THEN PickFrom(cum, r, k + 1) ELSE k
Pick(cum, r) == PickFrom(cum, r, 1)
HasMark(marks, k, v) == k \in DOMAIN marks /\ marks[k] = v
IndexOf(vals, v) == IF \E j \in 1..Len(vals) : vals[j] = v THEN CHOOSE j \in 1..Len(vals) : vals[j] = v ELSE 0

RECURSIVE Flat(_, _, _), FlatSeq(_, _, _, _)
Flat(c, marks, r) ==
    CASE c.op = "none" -> <<>>
      [] c.op = "clip" -> <<[p |-> "clip"]>>
      [] c.op = "mask" -> <<[p |-> "mask", pz |-> c.pz]>>
      [] c.op = "chain" -> FlatSeq(c.kids, 1, marks, r)
      [] c.op = "switch" -> Flat(c.kids[Pick(c.cum, r)], marks, r)
      [] c.op = "onmark" -> IF HasMark(marks, c.key, c.val) THEN FlatSeq(c.kids, 1, marks, r) ELSE <<>>
      [] c.op = "swmark" -> IF c.key \in DOMAIN marks /\ IndexOf(c.vals, marks[c.key]) > 0
                            THEN Flat(c.kids[IndexOf(c.vals, marks[c.key])], marks, r)
                            ELSE <<[p |-> "panic"]>>       \* mark or value missing: the code panics
FlatSeq(kids, k, marks, r) == IF k > Len(kids) THEN <<>> ELSE Flat(kids[k], marks, r) \o FlatSeq(kids, k + 1, marks, r)

\* abstract effect of the primitives on a token sequence of length len: new length, the 0-based positions that may
\* have been replaced by the mask token, whether a clip ran, whether a panic is certain
\* (pfx, sfx: number of prefix / suffix tokens of the masking tokenizer, L: the current maximum length)
Step(a, prim, pfx, sfx, L) ==
    IF a.bad THEN a
    ELSE CASE prim.p = "panic" -> [a EXCEPT !.bad = TRUE]
           [] prim.p = "clip" -> [a EXCEPT !.len = Min2(a.len, L), !.mk = {x \in a.mk : x < Min2(a.len, L)}, !.clipped = TRUE]
           [] prim.p = "mask" ->
                IF a.len <= 1 THEN a
                ELSE IF a.len < pfx + sfx THEN [a EXCEPT !.bad = TRUE]    \* (usize underflow, see DESIGN.md observations)
                ELSE IF prim.pz \/ (a.len - pfx - sfx) \div 2 = 0 THEN a
                ELSE [a EXCEPT !.mk = a.mk \cup (pfx..(a.len - sfx - 1))]
RECURSIVE Run(_, _, _, _, _, _)
Run(a, prims, k, pfx, sfx, L) == IF k > Len(prims) THEN a ELSE Run(Step(a, prims[k], pfx, sfx, L), prims, k + 1, pfx, sfx, L)
Abs0(n) == [len |-> n, mk |-> {}, clipped |-> FALSE, bad |-> FALSE]

\* an observed token sequence is consistent with the abstract effect
TokensOk(before, after, a, maskId) ==
    /\ Len(after) = a.len
    /\ \A k \in 1..a.len : after[k] = before[k] \/ ((k - 1) \in a.mk /\ after[k] = maskId)
=============================================================================
