--------------------------- MODULE Trace_BpeTrain ---------------------------
(* Validates merge tables written by the real train_bpe (C19): the recorded   *)
(* table must be a behaviour of the greedy machine of BpeTrain.tla started on *)
(* the recorded corpus (the tie choice and the split of an entry into its two *)
(* tokens are not logged: TLC searches them).                                 *)
EXTENDS TLC, Json, IOUtils, Naturals, Sequences, FiniteSets, SequencesExt
Rec == ndJsonDeserialize(IOEnv.OBS)
NChunks == atoi(IOEnv.NCHUNKS)
VARIABLES c, i, nfail, nskip, nnt, ndrift

T == INSTANCE BpeTrain WITH Words <- {}, MaxDistinct <- 0, MaxFreqC <- 1, MaxMerges <- 0, AllowZero <- FALSE,
                            corpus <- <<>>, merges <- <<>>, numMerges <- 0, done <- FALSE

Corpus0(r) == [k \in 1..Len(r.corpus) |-> [toks |-> T!Singles(r.corpus[k].b), freq |-> r.corpus[k].f]]

\* the set of corpora reachable by explaining entries k..n as greedy steps (empty = not a behaviour)
RECURSIVE Finals(_, _, _)
Finals(corpus, entries, k) ==
    IF k > Len(entries) THEN {corpus}
    ELSE LET m == T!MaxFreq(corpus)
             cand == {p \in T!Pairs(corpus) : p[1] \o p[2] = entries[k] /\ T!Freq(corpus, p[1], p[2]) = m}
         IN IF m = 0 THEN {} ELSE UNION {Finals(T!ReplaceInCorpus(corpus, p[1], p[2]), entries, k + 1) : p \in cand}

JudgeOk(r) ==
    LET entries == [k \in 1..Len(r.tab) |-> r.tab[k].b]
        ids == \A k \in 1..Len(r.tab) : r.tab[k].id = k - 1
        fin == IF ids THEN Finals(Corpus0(r), entries, 1) ELSE {}
        cl == <<
          <<"merge_ids_are_0_to_n", ids>>,
          <<"at_most_requested_merges", Len(r.tab) <= r.num_merges>>,
          <<"entries_are_max_positive_pairs", ids => fin # {}>>,
          <<"table_well_formed", ids => T!B!WellFormed(entries)>>
        >>
        bad == SelectSeq(cl, LAMBDA x : ~x[2])
        early == fin # {} /\ Len(r.tab) < r.num_merges /\ \E f \in fin : T!Pairs(f) # {}
    IN [why |-> [k \in 1..Len(bad) |-> bad[k][1]],
        drift |-> IF early THEN <<"stopped_before_the_corpus_was_exhausted">> ELSE <<>>,
        skip |-> FALSE,
        \* non-trivial: at least two merges, or the corpus was exhausted before the requested number
        nt |-> Len(r.tab) >= 2 \/ Len(r.tab) < r.num_merges]

Judge(r) ==
    IF r.st # "ok"
    THEN [why |-> <<r.st>>, drift |-> <<>>, skip |-> FALSE, nt |-> FALSE]
    ELSE JudgeOk(r)

INSTANCE Stepper
=============================================================================
