--------------------------- MODULE Trace_Buffered ---------------------------
(***************************************************************************)
(* Trace validation of recorded controlled Buffered executions against the *)
(* mechanism of Buffered.tla.  Events: PullReq (the producer thread entered *)
(* next() of the upstream), Pull{x, k} (it returned item x / exhaustion),  *)
(* Recv{x}, End, Drop (consumer), ProducerExited (upstream dropped).       *)
(* The channel operations of the producer (SendOk / SendFail) are not      *)
(* logged; they are placed lazily: before the event that can only be       *)
(* explained if they already happened (the next PullReq, the Recv of that  *)
(* item, ProducerExited).  The consumer's StartRecv is composed with the   *)
(* completion of the receive.  Every reconstructed state is checked        *)
(* against the invariants of Buffered.tla.                                 *)
(***************************************************************************)
EXTENDS Buffered, TLC, Json, IOUtils
Rec == ndJsonDeserialize(IOEnv.OBS)
Runs == {k \in 1..Len(Rec) : Rec[k].st = "ok" /\ Rec[k].mode = "buffered" /\ Rec[k].ctl = "controlled"
                               /\ Rec[k].cap = Cap /\ Rec[k].N = N}
VARIABLES run, l, pend     \* pend: item the consumer has received but not yet logged
tvars == <<vars, run, l, pend>>
Ev == Rec[run].ev
E == Ev[l]

TInit == /\ run \in Runs /\ l = 1 /\ pend = <<>> /\ Init
IsEvent(name) == l <= Len(Ev) /\ E.e = name /\ l' = l + 1 /\ run' = run

\* the pending send of the producer has completed: into a free buffer slot, by failing after the
\* drop, or - when the buffer is full / a rendezvous channel - because the consumer has taken an item
\* whose Recv record is still to come (the consumer logs after recv() returned): result record
\* [ok, ppc, chan, out, pend]
FlushedSend ==
    IF ppc # "send" THEN [ok |-> TRUE, ppc |-> ppc, chan |-> chan, out |-> out, pend |-> pend]
    ELSE IF closed THEN [ok |-> TRUE, ppc |-> (IF DrainOnFail THEN "pull" ELSE "exit"), chan |-> chan, out |-> out, pend |-> pend]
    ELSE IF Cap > 0 /\ Len(chan) < Cap
         THEN [ok |-> TRUE, ppc |-> "pull", chan |-> Append(chan, pulled - 1), out |-> out, pend |-> pend]
    ELSE IF pend = <<>> /\ cpc = "idle" /\ Cap = 0
         THEN [ok |-> TRUE, ppc |-> "pull", chan |-> chan, out |-> Append(out, pulled - 1), pend |-> <<pulled - 1>>]
    ELSE IF pend = <<>> /\ cpc = "idle" /\ Cap > 0
         THEN [ok |-> TRUE, ppc |-> "pull", chan |-> Append(Tail(chan), pulled - 1), out |-> Append(out, Head(chan)), pend |-> <<Head(chan)>>]
    ELSE [ok |-> FALSE, ppc |-> ppc, chan |-> chan, out |-> out, pend |-> pend]

TPullReq == /\ IsEvent("PullReq")
            /\ FlushedSend.ok /\ FlushedSend.ppc = "pull"
            /\ ppc' = "pull" /\ chan' = FlushedSend.chan /\ out' = FlushedSend.out /\ pend' = FlushedSend.pend
            /\ UNCHANGED <<pulled, cpc, pulledAtDrop>>

TPull == /\ IsEvent("Pull")
         /\ ppc = "pull"
         /\ IF E.k THEN pulled < N /\ E.x = pulled ELSE pulled = N
         /\ Pull /\ UNCHANGED pend

TRecv == /\ IsEvent("Recv")
         /\ cpc = "idle"
         /\ \/ /\ pend = <<E.x>> /\ pend' = <<>> /\ UNCHANGED vars
            \/ /\ pend = <<>> /\ chan # <<>> /\ Head(chan) = E.x
               /\ out' = Append(out, E.x) /\ chan' = Tail(chan)
               /\ UNCHANGED <<pulled, ppc, cpc, pulledAtDrop, pend>>
            \/ \* the item is still in the producer's hand: rendezvous, or it enters the empty buffer first
               /\ pend = <<>> /\ chan = <<>> /\ ppc = "send" /\ ~closed /\ E.x = pulled - 1
               /\ out' = Append(out, E.x) /\ ppc' = "pull"
               /\ UNCHANGED <<pulled, chan, cpc, pulledAtDrop, pend>>

TEnd == /\ IsEvent("End")
        /\ cpc = "idle" /\ chan = <<>> /\ ppc = "exit"
        /\ cpc' = "done" /\ pend = <<>>
        /\ UNCHANGED <<pulled, ppc, chan, out, pulledAtDrop, pend>>

TDrop == IsEvent("Drop") /\ pend = <<>> /\ Drop /\ UNCHANGED pend

TProducerExited ==
    /\ IsEvent("ProducerExited")
    /\ FlushedSend.ok /\ FlushedSend.ppc = "exit"
    /\ ppc' = "exit" /\ chan' = FlushedSend.chan /\ out' = FlushedSend.out /\ pend' = FlushedSend.pend
    /\ UNCHANGED <<pulled, cpc, pulledAtDrop>>

TEvent == TPullReq \/ TPull \/ TRecv \/ TEnd \/ TDrop \/ TProducerExited
TAccept == /\ l = Len(Ev) + 1
           /\ PrintT(<<"STAT", run, Len(Ev), 0, 0, 0, 0>>)
           /\ l' = l + 1 /\ UNCHANGED <<vars, run, pend>>
TReject == /\ l <= Len(Ev) /\ ~ENABLED TEvent
           /\ PrintT(<<"DRIFT", run, <<"event", ToString(l), E.e>>>>)
           /\ PrintT(<<"STAT", run, Len(Ev), 0, 0, 0, 1>>)
           /\ l' = Len(Ev) + 2 /\ UNCHANGED <<vars, run, pend>>
TNext == TEvent \/ TAccept \/ TReject
=============================================================================
