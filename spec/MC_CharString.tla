---------------------------- MODULE MC_CharString ----------------------------
(* The two step machines of CharString.tla for TLC: run_length_encode (one element per step) and   *)
(* the byte_start_end scan (one run per step), for every sequence of character byte lengths up to  *)
(* MaxN over LenSet and every index.                                                               *)
EXTENDS CharString
CONSTANTS LenSet, MaxN
VARIABLES lens, pc, k, acc, n, start, total, res
vars == <<lens, pc, k, acc, n, start, total, res>>

Init == /\ lens \in UNION {[1..m -> LenSet] : m \in 0..MaxN}
        /\ pc = "encode" /\ k = 1 /\ acc = <<>>
        /\ n = 0 /\ start = 0 /\ total = 0 /\ res = <<"none">>

\* run_length_encode, one element per step (the code keeps (val, count) in locals and pushes on
\* change; the sequence acc with its open last run is the same state)
Encode == /\ pc = "encode" /\ k <= Len(lens)
          /\ acc' = RleStep(acc, lens[k]) /\ k' = k + 1
          /\ UNCHANGED <<lens, pc, n, start, total, res>>
\* CharString::new is done; a caller asks for byte_start_end(n), n arbitrary (n = len is the panic)
Ask == /\ pc = "encode" /\ k > Len(lens)
       /\ \E q \in 0..Len(lens) : n' = q
       /\ pc' = "scan" /\ k' = 1 /\ start' = 0 /\ total' = 0
       /\ UNCHANGED <<lens, acc, res>>
Scan == /\ pc = "scan" /\ k <= Len(acc)
        /\ IF n < total + acc[k][2]
           THEN /\ res' = <<start + acc[k][1] * (n - total), start + acc[k][1] * (n - total) + acc[k][1]>>
                /\ pc' = "done" /\ UNCHANGED <<k, start, total>>
           ELSE /\ start' = start + acc[k][2] * acc[k][1] /\ total' = total + acc[k][2] /\ k' = k + 1
                /\ UNCHANGED <<pc, res>>
        /\ UNCHANGED <<lens, acc, n>>
Fall == /\ pc = "scan" /\ k > Len(acc)
        /\ res' = <<"panic">> /\ pc' = "done"
        /\ UNCHANGED <<lens, k, acc, n, start, total>>
Next == Encode \/ Ask \/ Scan \/ Fall
Spec == Init /\ [][Next]_vars /\ WF_vars(Next)

\* mechanism invariants
EncodeInv == pc = "encode" => /\ Decode(acc) = SubSeq(lens, 1, k - 1)
                              /\ \A j \in 1..(Len(acc) - 1) : acc[j][1] # acc[j + 1][1]
                              /\ \A j \in 1..Len(acc) : acc[j][2] >= 1
                              /\ acc = Rle(SubSeq(lens, 1, k - 1))
ScanInv == pc = "scan" => /\ total <= Len(lens) /\ start = PS(lens)[total + 1]
                          /\ total <= n
\* property: the scan returns the prefix sums, and panics exactly for n >= len
ResultInv == pc = "done" =>
               IF n < Len(lens) THEN res = <<PS(lens)[n + 1], PS(lens)[n + 2]>> /\ res = Bse(acc, n)
               ELSE res = <<"panic">> /\ Bse(acc, n) = <<>>
\* the derived operations agree with their specification for every argument
DerivedInv == pc = "done" =>
               /\ \A a \in 0..(Len(lens) + 1) : \A b \in a..(Len(lens) + 2) : SubImpl(lens, a, b) = SubSpec(lens, a, b)
               /\ Decode(Rle(lens)) = lens
\* the window search as transcribed satisfies what possible_byte_substrings promises, for every byte budget
ByteSubInv == pc = "done" => \A mb \in 0..7 : ByteSubOk(lens, PS(lens), mb, ByteSubstringsImpl(lens, mb))
Terminates == <>(pc = "done")
=============================================================================
