---------------------------- MODULE Gen_MultiGen ----------------------------
(* Enumerates all source-length vectors for replay of C07 into the real code. *)
EXTENDS Naturals, Integers, Sequences, FiniteSets, SequencesExt, TLC, Json, IOUtils
CONSTANTS MaxSrc, MaxLen
Vecs(lo) == UNION {[1..k -> lo..MaxLen] : k \in 1..MaxSrc}
\* files = -1: in-memory sources; 0 / 1 / 2: jsonl files read by the library (LF, CRLF, no trailing newline)
Cases == {[lens |-> l, strategy |-> s, seed |-> 7, files |-> f] : l \in Vecs(0), s \in {"sequential", "interleaved"}, f \in {0 - 1, 1, 2}}
         \cup {[lens |-> l, strategy |-> "weighted", seed |-> sd, files |-> f] : l \in Vecs(1), sd \in {1, 2}, f \in {0 - 1, 0}}
VARIABLE x
Init == x = 0 /\ ndJsonSerialize(IOEnv.OUT, SetToSeq(Cases))
Next == UNCHANGED x
=============================================================================
