---------------------------- MODULE Gen_MultiGen ----------------------------
(* Enumerates all source-length vectors for replay of C07 into the real code. *)
EXTENDS Naturals, Integers, Sequences, FiniteSets, SequencesExt, TLC, Json, IOUtils
CONSTANTS MaxSrc, MaxLen
Vecs(lo) == UNION {[1..k -> lo..MaxLen] : k \in 1..MaxSrc}
\* files = -1: in-memory sources; 0 / 1 / 2: jsonl files read by the library (LF, CRLF, no trailing newline)
\* errs: positions <<source, item>> (0-based) whose item is an error (a failing reader / malformed json line): an error item
\* is an item like any other - it is handed out once, in place, and the items behind it still come
ErrChoices(l) == {<<>>} \cup {<< <<s - 1, 0>> >> : s \in {k \in 1..Len(l) : l[k] >= 2}}
                        \cup {<< <<s - 1, l[s] - 2>>, <<s - 1, l[s] - 1>> >> : s \in {k \in 1..Len(l) : l[k] >= 3}}
Cases == UNION {{[lens |-> l, strategy |-> s, seed |-> 7, files |-> f, errs |-> e] :
                     s \in {"sequential", "interleaved"}, f \in {0 - 1, 1, 2}, e \in ErrChoices(l)} : l \in Vecs(0)}
         \cup UNION {{[lens |-> l, strategy |-> "weighted", seed |-> sd, files |-> f, errs |-> e] :
                     sd \in {0, 1}, f \in {0 - 1, 0}, e \in ErrChoices(l)} : l \in Vecs(1)}
VARIABLE x
Init == x = 0 /\ ndJsonSerialize(IOEnv.OUT, SetToSeq(Cases))
Next == UNCHANGED x
=============================================================================
