---------------------------- MODULE Gen_MultiGen ----------------------------
(* Enumerates all source-length vectors for replay of C07 into the real code. *)
EXTENDS Naturals, Sequences, FiniteSets, SequencesExt, TLC, Json, IOUtils
CONSTANTS MaxSrc, MaxLen
Vecs(lo) == UNION {[1..k -> lo..MaxLen] : k \in 1..MaxSrc}
Cases == {[lens |-> l, strategy |-> s, seed |-> 7] : l \in Vecs(0), s \in {"sequential", "interleaved"}}
         \cup {[lens |-> l, strategy |-> "weighted", seed |-> sd] : l \in Vecs(1), sd \in {1, 2}}
VARIABLE x
Init == x = 0 /\ ndJsonSerialize(IOEnv.OUT, SetToSeq(Cases))
Next == UNCHANGED x
=============================================================================
