-------------------------- MODULE Trace_CharString --------------------------
(* Validates recorded CharString / substring calls against CharString.tla.                   *)
(* Record: lens (the harness's own segmentation), len, cbl (get_char_byte_lengths),           *)
(* split (CharString::split piece lengths), gets [n, ok, off, len], subs [a, b, off, len],    *)
(* csub [max, st, wins], bsub [max, st, wins] with wins = [start byte, end byte, #chars].     *)
EXTENDS CharString, TLC, Json, IOUtils
Rec == ndJsonDeserialize(IOEnv.OBS)
NChunks == atoi(IOEnv.NCHUNKS)
VARIABLES c, i, nfail, nskip, nnt, ndrift

JudgeOk(r) ==
    LET L == r.lens
        P == PS(L)
        cl == <<
          <<"len_is_the_number_of_characters", r.len = Len(L)>>,
          <<"char_byte_lengths", r.cbl = L>>,
          <<"split_is_the_segmentation", r.split = L>>,
          <<"get_returns_the_character", \A j \in 1..Len(r.gets) :
                LET e == r.gets[j] IN IF e[1] < Len(L) THEN e[2] = 1 /\ <<e[3], e[4]>> = GetSpec(L, e[1]) ELSE e[2] = 0>>,
          <<"sub_returns_the_clamped_character_range", \A j \in 1..Len(r.subs) :
                LET e == r.subs[j] IN LET s == SubSpec(L, e[1], e[2]) IN e[4] = s[2] /\ (s[2] > 0 => e[3] = s[1])>>,
          <<"character_substrings", \A j \in 1..Len(r.csub) :
                LET e == r.csub[j] IN CharSubPanics(L, e.max) \/ (e.st = "ok" /\ e.wins = CharSubstrings(L, e.max))>>,
          <<"byte_substrings", \A j \in 1..Len(r.bsub) :
                LET e == r.bsub[j] IN e.st = "ok" /\ ByteSubOk(L, P, e.max, e.wins)>>
        >>
        bad == SelectSeq(cl, LAMBDA x : ~x[2])
        \* mechanism: the transcribed scan agrees with the observed get() on every index
        mech == \A j \in 1..Len(r.gets) : r.gets[j][1] < Len(L) =>
                   Bse(Rle(L), r.gets[j][1]) = <<r.gets[j][3], r.gets[j][3] + r.gets[j][4]>>
        \* recorded observation outside every stated contract: max_chars = 0 on a non-empty text
        zero == \E j \in 1..Len(r.csub) : r.csub[j].max = 0 /\ L # <<>> /\ r.csub[j].st # "ok"
    IN [why |-> [q \in 1..Len(bad) |-> bad[q][1]],
        drift |-> IF mech THEN <<>> ELSE <<"byte_start_end_scan_differs">>,
        \* (max_chars = 0 on a non-empty text panics: outside the contract, see DESIGN.md observations; not counted)
        skip |-> FALSE /\ zero,
        nt |-> Len(L) >= 2 /\ \E j \in 1..(Len(L) - 1) : L[j] # L[j + 1]]

Judge(r) == IF r.st # "ok" THEN [why |-> <<r.st>>, drift |-> <<>>, skip |-> FALSE, nt |-> FALSE] ELSE JudgeOk(r)
INSTANCE Stepper
=============================================================================
