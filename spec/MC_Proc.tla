------------------------------- MODULE MC_Proc -------------------------------
(***************************************************************************)
(* Small-step interpreter for the preprocessing pipeline (one action per   *)
(* configuration node visited: the code's closures calling each other),    *)
(* checked against the denotational semantics Eval of Proc.tla and against *)
(* the statements users rely on.                                           *)
(***************************************************************************)
EXTENDS Proc, TLC
CONSTANTS MaxText,     \* texts up to this many characters over {a, b (2 bytes), space}
          Depth        \* 1: primitives, chains and switches of primitives; 2: one more level

A == [c |-> <<2>>, w |-> FALSE, m |-> FALSE, s |-> FALSE, n |-> 1]
B == [c |-> <<3>>, w |-> FALSE, m |-> FALSE, s |-> FALSE, n |-> 2]
S1 == [c |-> <<1>>, w |-> TRUE, m |-> FALSE, s |-> TRUE, n |-> 1]
Texts == UNION {[1..k -> {A, B, S1}] : k \in 0..MaxText}

Parts == {"i", "t"}
Prims == {[op |-> "none"]}
         \cup {[op |-> o, part |-> p] : o \in {"clean", "nows", "fullws", "over"}, p \in Parts}
         \cup {[op |-> "mark", key |-> "k", val |-> v] : v \in {"x", "y"}}
         \cup {[op |-> "pre", part |-> p, txt |-> <<A, S1>>] : p \in Parts}
         \cup {[op |-> "suf", part |-> p, txt |-> <<S1, B>>] : p \in Parts}
         \cup {[op |-> "csub", max |-> m] : m \in {1, 2}}
         \cup {[op |-> "bsub", max |-> m] : m \in {1, 3}}
Level1 == Prims
          \cup {[op |-> "chain", kids |-> k] : k \in UNION {[1..n -> Prims] : n \in {0, 2}}}
          \cup {[op |-> "switch", kids |-> k, cum |-> <<500000, 1000000>>] : k \in [1..2 -> Prims]}
\* a second level over a reduced set of children (keeps the tree set enumerable)
Few == {[op |-> "none"], [op |-> "clean", part |-> "i"], [op |-> "csub", max |-> 2], [op |-> "mark", key |-> "k", val |-> "x"],
        [op |-> "chain", kids |-> <<[op |-> "nows", part |-> "i"], [op |-> "bsub", max |-> 3]>>],
        [op |-> "switch", kids |-> <<[op |-> "over", part |-> "t"], [op |-> "fullws", part |-> "t"]>>, cum |-> <<250000, 1000000>>]}
Level2 == Level1
          \cup {[op |-> "chain", kids |-> k] : k \in [1..2 -> Few]}
          \cup {[op |-> "switch", kids |-> k, cum |-> <<500000, 1000000>>] : k \in [1..2 -> Few]}
Trees == IF Depth = 1 THEN Level1 ELSE Level2

VARIABLES cfg, st0, r, stack, st
vars == <<cfg, st0, r, stack, st>>

Init == /\ cfg \in Trees
        /\ \E x \in Texts, y \in Texts : st0 = [i |-> x, t |-> y, marks |-> <<>>, err |-> FALSE]
        /\ r \in {100000, 400000, 900000}
        /\ stack = <<cfg>>
        /\ st = st0

Done == stack = <<>> \/ st.err
Top == Head(stack)
\* chain: the children run one after the other (an error in between ends the whole pipeline: Done)
Unfold == /\ ~Done /\ Top.op = "chain"
          /\ stack' = Top.kids \o Tail(stack)
          /\ UNCHANGED <<cfg, st0, r, st>>
Choose == /\ ~Done /\ Top.op = "switch"
          /\ stack' = <<Top.kids[Pick(Top.cum, r)]>> \o Tail(stack)
          /\ UNCHANGED <<cfg, st0, r, st>>
Apply == /\ ~Done /\ IsPrim(Top)
         /\ \E s2 \in Prim(Top, st) : st' = s2
         /\ stack' = Tail(stack)
         /\ UNCHANGED <<cfg, st0, r>>
Next == Unfold \/ Choose \/ Apply
Spec == Init /\ [][Next]_vars /\ WF_vars(Next)

-----------------------------------------------------------------------------
\* mechanism = denotation: whatever can still happen is an outcome of the whole configuration
Refines == EvalSeq(stack, 1, {st}, r) \subseteq Eval(cfg, st0, r)

\* property layer
RECURSIVE PrimOps(_)
PrimOps(c) == IF c.op \in {"chain", "switch"} THEN UNION {PrimOps(c.kids[k]) : k \in 1..Len(c.kids)} ELSE {c.op}
WsOps == {"none", "clean", "nows", "fullws", "mark"}
\* whitespace-only pipelines never touch the non-whitespace content and cannot fail
WsOnlyKeepsContent == PrimOps(cfg) \subseteq WsOps =>
                         /\ ~st.err /\ Content(st.i) = Content(st0.i) /\ Content(st.t) = Content(st0.t)
\* marks are only ever added
MarksGrow == DOMAIN st0.marks \subseteq DOMAIN st.marks
\* the purpose of the substring functions: a pair that differs only in whitespace stays such a pair, and the
\* substring of an aligned pair is always found
Aligned(s) == Content(s.i) = Content(s.t)
SubstringKeepsAlignment ==
    (Aligned(st0) /\ PrimOps(cfg) \subseteq WsOps \cup {"csub", "bsub"}) =>
        /\ Aligned(st) \/ st.err
        /\ st.err => (st.i # <<>> /\ "bsub" \in PrimOps(cfg))    \* only the documented empty-window-list panic
\* the chosen substring respects its budget
Terminates == <>Done
=============================================================================
