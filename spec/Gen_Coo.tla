------------------------------- MODULE Gen_Coo -------------------------------
(* Batches of 1..MaxBatch texts (slot sequences of the "tok" alphabet, length    *)
(* <= MaxLen) x byte-tokenizer configurations for replay of C17's matrix part.   *)
EXTENDS Naturals, Sequences, FiniteSets, SequencesExt, TLC, Json, IOUtils
CONSTANTS MaxLen, MaxBatch
Texts == UNION {[1..k -> {1, 2, 3, 4, 8}] : k \in 0..MaxLen} \cup {<<5, 6, 7>>, <<1, 5, 6, 7, 2>>}
Batches == UNION {[1..n -> Texts] : n \in 1..MaxBatch}
\* mixed: the groupings of the batch alternate between sum and mean aggregation (starting with the opposite of agg)
Cases == {[slots |-> b, g |-> g, groups |-> gr, agg |-> a, prefix |-> p, suffix |-> p, mixed |-> FALSE] :
             b \in Batches, g \in BOOLEAN, gr \in {"bytes", "code_points"}, a \in {"mean", "sum"}, p \in BOOLEAN}
         \cup {[slots |-> b, g |-> TRUE, groups |-> gr, agg |-> a, prefix |-> FALSE, suffix |-> FALSE, mixed |-> TRUE] :
             b \in {x \in Batches : Len(x) >= 2}, gr \in {"bytes", "code_points"}, a \in {"mean", "sum"}}
VARIABLE x
Init == x = 0 /\ ndJsonSerialize(IOEnv.OUT, SetToSeq(Cases))
Next == UNCHANGED x
=============================================================================
