------------------------------- MODULE Gen_Infer -------------------------------
(* Item sequences up to MaxLen over {text with one window, text with two windows, empty text, failing source       *)
(* position, text on which the window function fails} x worker counts 0..3 x batch limits x sort, for replay into   *)
(* the real InferenceLoader (extension X05).  Windows are at most 4 bytes wide.                                     *)
EXTENDS Naturals, Sequences, FiniteSets, SequencesExt, TLC, Json, IOUtils
CONSTANTS MaxLen
Kinds == {"t3", "t6", "t0", "src", "pipe"}
Seqs == UNION {[1..n -> Kinds] : n \in 0..MaxLen}
Cases == {[items |-> s, wmax |-> 4, wctx |-> 0, threads |-> w, buffer |-> b, limit |-> l, ltype |-> "count", prefetch |-> 1, sort |-> so] :
            s \in Seqs, w \in 0..3, b \in {0, 2}, l \in {1, 3}, so \in BOOLEAN}
VARIABLE x
Init == x = 0 /\ ndJsonSerialize(IOEnv.OUT, SetToSeq(Cases))
Next == UNCHANGED x
=============================================================================
