---------------------------- MODULE MC_KWindows ----------------------------
(* The sliding-window finder of src/utils.rs run step by step on every value sequence of up to MaxLen weights 0..MaxW,  *)
(* every limit 0..MaxK and both size functions: no step evaluates an empty or reversed window (the code would panic on   *)
(* the slice), what has been emitted is at every moment a prefix of the maximal fitting windows in order of their start, *)
(* at the end it is all of them, and the machine ends.  Run-length coding: Rle is the one encoding with IsRleOf.         *)
(* Fs = the size functions; with the non-monotone "last" the emitted windows are no longer the maximal ones (negative   *)
(* control: the meaning of the finder rests on the monotonicity of what the library passes in).                         *)
EXTENDS KWindows, TLC
CONSTANTS MaxLen, MaxW, MaxK, Fs
VARIABLES v, k, f, st
vars == <<v, k, f, st>>
Init == /\ v \in UNION {[1..n -> 0..MaxW] : n \in 0..MaxLen}
        /\ k \in 0..MaxK
        /\ f \in Fs
        /\ st = M0
Next == st.pc # "done" /\ st' = Step(v, k, f, st) /\ UNCHANGED <<v, k, f>>
Spec == Init /\ [][Next]_vars /\ WF_vars(Next)
TypeOK == st.pc \in {"ff", "loop", "done"} /\ st.start \in 0..(Len(v) + 1) /\ st.end \in 0..(Len(v) + 2)
WindowNonEmpty == (st.pc = "loop" /\ st.start < Len(v) /\ st.end <= Len(v)) => st.start < st.end
OutIsPrefix == LET want == MaximalWindows(v, k, f) IN Len(st.out) <= Len(want) /\ st.out = SubSeq(want, 1, Len(st.out))
DoneIsAll == st.pc = "done" => st.out = MaximalWindows(v, k, f)
\* what the users of the finder rely on: every value that fits on its own is in some window; windows start and end later and later
Covering == st.pc = "done" => \A i \in 1..Len(v) : Size(v, i - 1, i, f) <= k => \E j \in 1..Len(st.out) : st.out[j][1] < i /\ i <= st.out[j][2]
Increasing == \A j \in 1..(Len(st.out) - 1) : st.out[j][1] < st.out[j + 1][1] /\ st.out[j][2] < st.out[j + 1][2]
RleIsTheEncoding == st.pc = "ff" /\ st.start = 0 => /\ IsRleOf(Rle(v), v)
                                                    /\ Len(Accumulate(v)) = Len(v)
                                                    /\ \A i \in 1..Len(v) : Accumulate(v)[i] = (IF i = 1 THEN 0 ELSE Accumulate(v)[i - 1]) + v[i]
Terminates == <>(st.pc = "done")
=============================================================================
