-------------------------------- MODULE Tok --------------------------------
(***************************************************************************)
(* Byte and character tokenizers and the vocabulary layout of all          *)
(* tokenizer kinds (C01, C04, C17).                                        *)
(*                                                                         *)
(* A configuration view r has: kind, g (graphemes), sp = [tokens, pad,     *)
(* prefix, suffix] with every token spelling given as name n, code-point   *)
(* ids cps and bytes b; extras (the "<extra_token_i>" naming scheme),      *)
(* pad_to, unk, chars (the character tokenizer's alphabet), tab/max_vocab  *)
(* (BPE).  A text view is a sequence of code points [i, b, w, g, ci]:      *)
(* identity, bytes, whitespace, "a grapheme cluster starts here", index in *)
(* the character alphabet (0 = none).                                      *)
(***************************************************************************)
EXTENDS Naturals, Sequences, FiniteSets, SequencesExt

Monus(a, b) == IF a >= b THEN a - b ELSE 0

\* first-occurrence de-duplication by name (Vocab::build uses itertools' unique()).
\* Arguments are bound through singleton sets so that TLC evaluates them once.
DedupV(s) ==
    CHOOSE y \in {[m \in 1..Len(ord) |-> s[ord[m]]] :
                    ord \in {SetToSortSeq({k \in 1..Len(s) : \A j \in 1..(k - 1) : s[j].n # s[k].n},
                                          LAMBDA a, b : a < b)}} : TRUE
Dedup(s0) == CHOOSE y \in {DedupV(s) : s \in {s0}} : TRUE

NumExtra(r) ==
    IF r.kind = "byte" /\ r.pad_to > 0
    THEN LET n == 256 + Cardinality({r.sp.tokens[k].n : k \in 1..Len(r.sp.tokens)})
         IN ((n + r.pad_to - 1) \div r.pad_to) * r.pad_to - n
    ELSE 0

\* the special vocabulary in id order
Specials(r) ==
    LET a == r.sp.tokens \o SubSeq(r.extras, 1, NumExtra(r))
        b == IF r.kind = "char" THEN Append(a, r.unk) ELSE a
    IN Dedup(b)

KeptTab(r) ==
    IF r.max_vocab = 0 THEN r.tab
    ELSE LET keep == Monus(Monus(r.max_vocab, Len(r.sp.tokens)), 256)
         IN SubSeq(r.tab, 1, IF keep < Len(r.tab) THEN keep ELSE Len(r.tab))

ByteToks == [k \in 1..256 |-> <<k - 1>>]
Regular(r) == CASE r.kind = "byte" -> ByteToks
                [] r.kind = "char" -> r.chars
                [] OTHER -> ByteToks \o KeptTab(r)
NumRegular(r) == Len(Regular(r))
ExpVocabWith(r, S) == Regular(r) \o [k \in 1..Len(S) |-> S[k].b]

-----------------------------------------------------------------------------
\* special-token scanner (split_input): leftmost, non-overlapping occurrences
MatchAt(v, p, s) ==
    /\ Len(s.cps) > 0 /\ p + Len(s.cps) - 1 <= Len(v)
    /\ \A k \in 1..Len(s.cps) : v[p + k - 1].i = s.cps[k]

Matches(v, S, p) == {k \in 1..Len(S) : MatchAt(v, p, S[k])}

\* the property excludes special-token sets in which two spellings match at the same place
RECURSIVE Ambiguous(_, _, _)
Ambiguous(v, S, p) == IF p > Len(v) THEN FALSE
                      ELSE Cardinality(Matches(v, S, p)) > 1 \/ Ambiguous(v, S, p + 1)

\* segments: [t |-> "r", a, z] regular code points a..z ; [t |-> "s", k] special k
RECURSIVE ScanAcc(_, _, _, _, _)
ScanAcc(v, S, p, last, acc) ==
    IF p > Len(v)
    THEN IF last <= Len(v) THEN Append(acc, [t |-> "r", a |-> last, z |-> Len(v), k |-> 0]) ELSE acc
    ELSE LET m == Matches(v, S, p) IN
         IF m = {} THEN ScanAcc(v, S, p + 1, last, acc)
         ELSE LET k == CHOOSE k \in m : TRUE
                  e == p + Len(S[k].cps)
                  acc1 == IF p > last THEN Append(acc, [t |-> "r", a |-> last, z |-> p - 1, k |-> 0]) ELSE acc
              IN ScanAcc(v, S, e, e, Append(acc1, [t |-> "s", a |-> p, z |-> e - 1, k |-> k]))
Scan(v, S, ignore) ==
    IF ignore THEN (IF v = <<>> THEN <<>> ELSE <<[t |-> "r", a |-> 1, z |-> Len(v), k |-> 0]>>)
    ELSE ScanAcc(v, S, 1, 1, <<>>)

BytesOf(v, a, z) == FlattenSeq([k \in 1..(z + 1 - a) |-> v[a + k - 1].b])
AllBytes(v) == BytesOf(v, 1, Len(v))

\* clusters of a regular segment: the whole-string cluster starts plus the segment start
ClusterStarts(v, a, z, g) == IF g THEN {p \in a..z : p = a \/ v[p].g} ELSE a..z
ClusterEnd(v, a, z, g, p) ==
    LET later == {q \in ClusterStarts(v, a, z, g) : q > p} IN
    IF later = {} THEN z ELSE (CHOOSE q \in later : \A q2 \in later : q <= q2) - 1
Clusters(v, a, z, g) ==   \* sequence of <<start, end>>
    LET st == SetToSortSeq(ClusterStarts(v, a, z, g), LAMBDA x, y : x < y) IN
    [k \in 1..Len(st) |-> <<st[k], ClusterEnd(v, a, z, g, st[k])>>]

-----------------------------------------------------------------------------
\* byte tokenizer body ids; sid(k) = id of special k
ByteBody(v, S, segs, sid(_)) ==
    FlattenSeq([n \in 1..Len(segs) |->
        IF segs[n].t = "s" THEN <<sid(segs[n].k)>> ELSE BytesOf(v, segs[n].a, segs[n].z)])

\* character tokenizer body ids: one id per cluster / special token
CharId(v, c, unkId) == IF c[1] = c[2] /\ v[c[1]].ci > 0 THEN v[c[1]].ci - 1 ELSE unkId
CharBody(v, S, segs, g, sid(_), unkId) ==
    FlattenSeq([n \in 1..Len(segs) |->
        IF segs[n].t = "s" THEN <<sid(segs[n].k)>>
        ELSE LET cl == Clusters(v, segs[n].a, segs[n].z, g) IN [k \in 1..Len(cl) |-> CharId(v, cl[k], unkId)]])
NumChars(v, segs, g) ==
    LET lens == [n \in 1..Len(segs) |-> IF segs[n].t = "s" THEN 1
                                        ELSE Cardinality(ClusterStarts(v, segs[n].a, segs[n].z, g))]
    IN FoldLeft(LAMBDA x, y : x + y, 0, lens)
InAlphabet(v, g) == \A c \in ToSet(Clusters(v, 1, Len(v), g)) : c[1] = c[2] /\ v[c[1]].ci > 0

-----------------------------------------------------------------------------
\* token groups of the byte tokenizer (C17): one group per prefix token, character,
\* special token, suffix token; a group is <<"f", n>> or <<"n", <<lengths of code points>>>>
ByteGroups(v, segs, g, codePoints, np, ns) ==
    [k \in 1..np |-> [t |-> "f", n |-> 1, s |-> <<>>]]
    \o FlattenSeq([n \in 1..Len(segs) |->
        IF segs[n].t = "s" THEN <<[t |-> "f", n |-> 1, s |-> <<>>]>>
        ELSE LET cl == Clusters(v, segs[n].a, segs[n].z, g) IN
             [k \in 1..Len(cl) |->
                IF codePoints
                THEN [t |-> "n", n |-> 0,
                      s |-> [q \in 1..(cl[k][2] + 1 - cl[k][1]) |->
                                [t |-> "f", n |-> Len(v[cl[k][1] + q - 1].b), s |-> <<>>]]]
                ELSE [t |-> "f", n |-> Len(BytesOf(v, cl[k][1], cl[k][2])), s |-> <<>>]]])
    \o [k \in 1..ns |-> [t |-> "f", n |-> 1, s |-> <<>>]]

RECURSIVE GroupLen(_)
GroupLen(gr) == IF gr.t = "n" THEN FoldLeft(LAMBDA x, y : x + y, 0, [k \in 1..Len(gr.s) |-> GroupLen(gr.s[k])])
                ELSE gr.n
GroupsLen(gs) == FoldLeft(LAMBDA x, y : x + y, 0, [k \in 1..Len(gs) |-> GroupLen(gs[k])])
=============================================================================
