------------------------------ MODULE Buffered ------------------------------
(***************************************************************************)
(* The background-producer iterator Buffered of src/data/loading.rs (C09). *)
(*                                                                         *)
(*   thread:  for item in iter { if tx.send(item).is_err() { break } }     *)
(*   next():  rx.recv().ok()                                               *)
(*                                                                         *)
(* Actions: the producer Pulls the next upstream item (or exits when the   *)
(* upstream is exhausted), then Sends it: blocks while the channel is full *)
(* (capacity 0 = rendezvous: completes only while the consumer waits in    *)
(* recv), fails iff the receiver is gone, in which case the thread stops.  *)
(* DrainOnFail = TRUE models the defective variant that ignores the send   *)
(* error and keeps pulling (negative control; it was the behaviour of the  *)
(* pinned commit, see DESIGN.md D5).                                       *)
(***************************************************************************)
EXTENDS Naturals, Sequences

CONSTANTS N,           \* upstream length considered
          Cap,         \* buffer_size (0 = rendezvous)
          DrainOnFail  \* negative control

VARIABLES pulled,      \* upstream items pulled so far
          ppc,         \* producer: "pull", "send", "exit"
          chan,        \* buffered items
          out,         \* received by the consumer
          cpc,         \* consumer: "idle", "waiting" (inside recv), "done", "dropped"
          pulledAtDrop

vars == <<pulled, ppc, chan, out, cpc, pulledAtDrop>>
closed == cpc = "dropped"

Init == /\ pulled = 0 /\ ppc = "pull" /\ chan = <<>> /\ out = <<>> /\ cpc = "idle"
        /\ pulledAtDrop = 0

Pull == /\ ppc = "pull"
        /\ IF pulled < N THEN pulled' = pulled + 1 /\ ppc' = "send"
                         ELSE pulled' = pulled /\ ppc' = "exit"
        /\ UNCHANGED <<chan, out, cpc, pulledAtDrop>>

\* the item held by the producer is item number pulled - 1
SendOk == /\ ppc = "send" /\ ~closed
          /\ \/ /\ Cap > 0 /\ Len(chan) < Cap
                /\ chan' = Append(chan, pulled - 1)
                /\ UNCHANGED <<out, cpc>>
             \/ /\ Cap = 0 /\ cpc = "waiting"          \* rendezvous hand-over
                /\ out' = Append(out, pulled - 1)
                /\ cpc' = "idle"
                /\ chan' = chan
          /\ ppc' = "pull"
          /\ UNCHANGED <<pulled, pulledAtDrop>>

SendFail == /\ ppc = "send" /\ closed
            /\ ppc' = IF DrainOnFail THEN "pull" ELSE "exit"
            /\ UNCHANGED <<pulled, chan, out, cpc, pulledAtDrop>>

StartRecv == /\ cpc = "idle" /\ cpc' = "waiting"
             /\ UNCHANGED <<pulled, ppc, chan, out, pulledAtDrop>>

Recv == /\ cpc = "waiting" /\ chan # <<>>
        /\ out' = Append(out, Head(chan)) /\ chan' = Tail(chan) /\ cpc' = "idle"
        /\ UNCHANGED <<pulled, ppc, pulledAtDrop>>

End == /\ cpc = "waiting" /\ chan = <<>> /\ ppc = "exit"
       /\ cpc' = "done"
       /\ UNCHANGED <<pulled, ppc, chan, out, pulledAtDrop>>

Drop == /\ cpc = "idle"
        /\ cpc' = "dropped" /\ chan' = <<>> /\ pulledAtDrop' = pulled
        /\ UNCHANGED <<pulled, ppc, out>>

Producer == Pull \/ SendOk \/ SendFail
Next == Producer \/ StartRecv \/ Recv \/ End \/ Drop
Spec == Init /\ [][Next]_vars /\ WF_vars(Producer) /\ WF_vars(Recv) /\ WF_vars(End)

-----------------------------------------------------------------------------
InOrder == \A k \in 1..Len(out) : out[k] = k - 1
Complete == cpc = "done" => Len(out) = N
\* bounded look-ahead: buffer plus the item in the producer's hand
LookAhead == pulled <= Len(out) + Cap + 1
\* after the drop at most the item already being fetched is pulled
AfterDrop == closed => pulled <= pulledAtDrop + 1
\* after the drop the producer thread ends
StopsAfterDrop == closed ~> (ppc = "exit")
\* an idle consumer never wedges the producer forever once it comes back: the stream ends
Terminates == <>(cpc = "done" \/ cpc = "dropped" \/ cpc = "idle")
=============================================================================
