---------------------------- MODULE MultiGenInd ----------------------------
(***************************************************************************)
(* MultiGen.tla (C07) for three sources of ARBITRARY lengths, the yielded  *)
(* items abstracted to per-source counters, with an inductive invariant    *)
(* for Apalache: Init => IndInv, IndInv /\ Next => IndInv', IndInv =>      *)
(* Safety for every triple of source lengths and all three strategies      *)
(* (strategy is a variable that never changes).  Safety: no source is ever *)
(* read beyond its end, a finished source is exhausted, the cursor never   *)
(* rests on a finished source while the stream is running, the stream ends *)
(* only when every item of every source has been handed out, and the       *)
(* re-selection always finds a source (no hang).                           *)
(* Negative control: the re-selection of the pinned commit (BadNext).      *)
(***************************************************************************)
EXTENDS Integers

VARIABLES
    \* @type: Str;
    strategy,
    \* @type: Int -> Int;
    lens,
    \* @type: Int -> Int;
    pos,
    \* @type: Int -> Bool;
    fin,
    \* @type: Int;
    idx,
    \* @type: Int;
    count,
    \* @type: Bool;
    done,
    \* @type: Bool;
    hang

Srcs == {1, 2, 3}
Succ(i) == IF i = 3 THEN 1 ELSE i + 1
ConstInit == TRUE

\* the sources that the re-selection behind source i may choose (f = finished flags); {} = the search never returns
\* @type: (Int, Int -> Bool, Bool) => Set(Int);
Choices(i, f, buggy) ==
    IF strategy = "sequential" THEN (IF f[i] THEN {Succ(i)} ELSE {i})
    ELSE IF strategy = "weighted" THEN {j \in Srcs : ~f[j]}
    ELSE IF ~f[Succ(i)] THEN {Succ(i)}
    ELSE IF ~f[Succ(Succ(i))] THEN {Succ(Succ(i))}
    ELSE IF buggy THEN {} ELSE {i}

Init == /\ strategy \in {"sequential", "interleaved", "weighted"}
        /\ lens \in [Srcs -> Nat]
        /\ (strategy = "weighted" => \A s \in Srcs : lens[s] >= 1)
        /\ pos = [s \in Srcs |-> 0]
        /\ fin = [s \in Srcs |-> FALSE]
        /\ idx = 1 /\ count = 0 /\ done = FALSE /\ hang = FALSE

\* @type: (Int, Int -> Bool, Bool) => Bool;
Select(i, f, buggy) ==
    IF Choices(i, f, buggy) = {} THEN hang' = TRUE /\ idx' = idx
    ELSE hang' = hang /\ idx' \in Choices(i, f, buggy)

PullSome(buggy) ==
    /\ ~done /\ ~hang
    /\ pos[idx] < lens[idx]
    /\ pos' = [pos EXCEPT ![idx] = pos[idx] + 1]
    /\ count' = count + 1
    /\ Select(idx, fin, buggy)
    /\ UNCHANGED <<strategy, lens, fin, done>>

PullNone(buggy) ==
    /\ ~done /\ ~hang
    /\ pos[idx] = lens[idx]
    /\ fin' = [fin EXCEPT ![idx] = TRUE]
    /\ IF \A s \in Srcs : fin'[s]
       THEN done' = TRUE /\ UNCHANGED <<idx, hang>>
       ELSE done' = done /\ Select(idx, fin', buggy)
    /\ UNCHANGED <<strategy, lens, pos, count>>

Idle == (done \/ hang) /\ UNCHANGED <<strategy, lens, pos, fin, idx, count, done, hang>>
Next == PullSome(FALSE) \/ PullNone(FALSE) \/ Idle
BadNext == PullSome(TRUE) \/ PullNone(TRUE) \/ Idle

TypeOK == /\ strategy \in {"sequential", "interleaved", "weighted"}
          /\ lens \in [Srcs -> Nat] /\ pos \in [Srcs -> Nat] /\ fin \in [Srcs -> BOOLEAN]
          /\ idx \in Srcs /\ count \in Nat /\ done \in BOOLEAN /\ hang \in BOOLEAN

IndInv ==
    /\ TypeOK
    /\ \A s \in Srcs : pos[s] <= lens[s]
    /\ \A s \in Srcs : fin[s] => pos[s] = lens[s]
    /\ count = pos[1] + pos[2] + pos[3]
    /\ done => \A s \in Srcs : fin[s]
    /\ ~hang
    /\ ~done => ~fin[idx]
    \* sequential: the sources are used up in order
    /\ strategy = "sequential" => \A s \in Srcs : (s < idx => fin[s]) /\ (s > idx => (~fin[s] /\ pos[s] = 0))
    /\ strategy = "weighted" => \A s \in Srcs : lens[s] >= 1
IndInit == IndInv

Safety == /\ \A s \in Srcs : pos[s] <= lens[s]
          /\ done => count = lens[1] + lens[2] + lens[3]
          /\ ~hang
          /\ ~done => ~fin[idx]
\* false on purpose (checked to be refuted): the stream never ends
FalseInv == ~done
=============================================================================
