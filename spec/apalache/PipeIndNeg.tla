---- MODULE PipeIndNeg ----
EXTENDS PipeInd
\* negative controls for the induction: a false bound, and a protocol slip (turn handed on before the send)
FalseInv == nOut <= 3
BadSend(w) == /\ pc[w] = "computed" /\ pc' = [pc EXCEPT ![w] = "ready"]     \* turn check dropped
              /\ UNCHANGED <<len, src, tk, sok, sendNext, nSent, nChan, nOut, cons, srcAtDrop>>
BadNext == Next \/ \E w \in Workers : BadSend(w)
====
