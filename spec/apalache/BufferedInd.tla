---------------------------- MODULE BufferedInd ----------------------------
(***************************************************************************)
(* Buffered.tla (producer thread, bounded channel, consumer) with the      *)
(* channel and the received items abstracted to counters, and an inductive *)
(* invariant for Apalache: the upstream length N is an arbitrary integer,  *)
(* so Init => IndInv, IndInv /\ Next => IndInv' and IndInv => Safety hold  *)
(* for every upstream length (for the buffer sizes of the ConstInit        *)
(* predicates; 0 is the rendezvous channel).                               *)
(***************************************************************************)
EXTENDS Integers

CONSTANTS
    \* @type: Int;
    Cap

VARIABLES
    \* @type: Int;
    N,
    \* @type: Int;
    pulled,
    \* @type: Str;
    ppc,
    \* @type: Int;
    nChan,
    \* @type: Int;
    nOut,
    \* @type: Str;
    cpc,
    \* @type: Int;
    pulledAtDrop

ConstInit0 == Cap = 0
ConstInit1 == Cap = 1
ConstInit3 == Cap = 3
ConstInit16 == Cap = 16
\* every buffer size at once
ConstInitAny == Cap \in Nat

Init == /\ N \in Nat /\ pulled = 0 /\ ppc = "pull" /\ nChan = 0 /\ nOut = 0 /\ cpc = "idle" /\ pulledAtDrop = 0

Pull == /\ ppc = "pull"
        /\ IF pulled < N THEN pulled' = pulled + 1 /\ ppc' = "send" ELSE pulled' = pulled /\ ppc' = "exit"
        /\ UNCHANGED <<N, nChan, nOut, cpc, pulledAtDrop>>
SendOk == /\ ppc = "send" /\ cpc # "dropped"
          /\ \/ /\ Cap > 0 /\ nChan < Cap /\ nChan' = nChan + 1 /\ UNCHANGED <<nOut, cpc>>
             \/ /\ Cap = 0 /\ cpc = "waiting" /\ nOut' = nOut + 1 /\ cpc' = "idle" /\ UNCHANGED nChan
          /\ ppc' = "pull"
          /\ UNCHANGED <<N, pulled, pulledAtDrop>>
SendFail == /\ ppc = "send" /\ cpc = "dropped" /\ ppc' = "exit"
            /\ UNCHANGED <<N, pulled, nChan, nOut, cpc, pulledAtDrop>>
StartRecv == /\ cpc = "idle" /\ cpc' = "waiting" /\ UNCHANGED <<N, pulled, ppc, nChan, nOut, pulledAtDrop>>
Recv == /\ cpc = "waiting" /\ nChan > 0 /\ nOut' = nOut + 1 /\ nChan' = nChan - 1 /\ cpc' = "idle"
        /\ UNCHANGED <<N, pulled, ppc, pulledAtDrop>>
End == /\ cpc = "waiting" /\ nChan = 0 /\ ppc = "exit" /\ cpc' = "done"
       /\ UNCHANGED <<N, pulled, ppc, nChan, nOut, pulledAtDrop>>
Drop == /\ cpc = "idle" /\ cpc' = "dropped" /\ nChan' = 0 /\ pulledAtDrop' = pulled
        /\ UNCHANGED <<N, pulled, ppc, nOut>>
Idle == /\ cpc \in {"done", "dropped"} /\ ppc = "exit"
        /\ UNCHANGED <<N, pulled, ppc, nChan, nOut, cpc, pulledAtDrop>>
\* the negative control of Buffered.tla: a producer that ignores the failed send
SendFailIgnored == /\ ppc = "send" /\ cpc = "dropped" /\ ppc' = "pull"
                   /\ UNCHANGED <<N, pulled, nChan, nOut, cpc, pulledAtDrop>>
Next == Pull \/ SendOk \/ SendFail \/ StartRecv \/ Recv \/ End \/ Drop \/ Idle
BadNext == Pull \/ SendOk \/ SendFailIgnored \/ StartRecv \/ Recv \/ End \/ Drop \/ Idle

InHand == IF ppc = "send" THEN 1 ELSE 0
IndInv ==
    /\ N >= 0 /\ pulled >= 0 /\ pulled <= N /\ nChan >= 0 /\ nChan <= Cap /\ nOut >= 0 /\ pulledAtDrop >= 0
    /\ ppc \in {"pull", "send", "exit"} /\ cpc \in {"idle", "waiting", "done", "dropped"}
    \* every pulled item is received, buffered or in the producer's hand
    /\ cpc # "dropped" => pulled = nOut + nChan + InHand
    /\ (cpc # "dropped" /\ ppc = "exit") => pulled = N
    /\ cpc = "done" => (ppc = "exit" /\ nChan = 0)
    \* after the drop: nothing buffered, at most the item already being fetched is pulled
    /\ cpc = "dropped" => /\ nChan = 0 /\ pulledAtDrop <= pulled
                          /\ pulled + (IF ppc = "pull" THEN 1 ELSE 0) <= pulledAtDrop + 1
IndInit == /\ N \in Int /\ pulled \in Int /\ nChan \in Int /\ nOut \in Int /\ pulledAtDrop \in Int
           /\ ppc \in {"pull", "send", "exit"} /\ cpc \in {"idle", "waiting", "done", "dropped"}
           /\ IndInv

LookAhead == cpc # "dropped" => pulled <= nOut + Cap + 1
AfterDrop == cpc = "dropped" => pulled <= pulledAtDrop + 1
Complete == cpc = "done" => nOut = N
SendsInOrder == (ppc = "send" /\ cpc # "dropped") => pulled - 1 = nOut + nChan
Safety == LookAhead /\ AfterDrop /\ Complete /\ SendsInOrder
FalseInv == nOut <= 3
=============================================================================
