------------------------------ MODULE PipeInd ------------------------------
(***************************************************************************)
(* The worker / consumer protocol of Pipe.tla with the channel and the     *)
(* received items abstracted to counters, and an inductive invariant that  *)
(* explains the protocol, for Apalache: the upstream length `len` is an    *)
(* arbitrary integer, so  Init => IndInv,  IndInv /\ Next => IndInv'  and  *)
(* IndInv => Safety  establish C05 / C09's safety clauses for every        *)
(* upstream length (for the fixed number of workers of ConstInit), where   *)
(* TLC covers N <= 8.  Failures of the processing function are left out    *)
(* (Pipe.tla treats them).                                                 *)
(*                                                                         *)
(* Counters: nSent = successful sends so far, nChan = items in the         *)
(* channel, nOut = items received.  The item sent by a worker is its       *)
(* ticket; "in order" is: the ticket of a successful send equals the       *)
(* number of items sent before (SendsInOrder).                             *)
(***************************************************************************)
EXTENDS Integers, FiniteSets

CONSTANTS
    \* @type: Set(Int);
    Workers,
    \* @type: Int;
    NW,
    \* @type: Int;
    Cap

VARIABLES
    \* @type: Int;
    len,
    \* @type: Int;
    src,
    \* @type: Int -> Str;
    pc,
    \* @type: Int -> Int;
    tk,
    \* @type: Int -> Bool;
    sok,
    \* @type: Int;
    sendNext,
    \* @type: Int;
    nSent,
    \* @type: Int;
    nChan,
    \* @type: Int;
    nOut,
    \* @type: Str;
    cons,
    \* @type: Int;
    srcAtDrop

ConstInit2 == Workers = {1, 2} /\ NW = 2 /\ Cap = 2
ConstInit3 == Workers = {1, 2, 3} /\ NW = 3 /\ Cap = 3
ConstInit4 == Workers = {1, 2, 3, 4} /\ NW = 4 /\ Cap = 4
\* any channel capacity (the code uses the number of workers)
ConstInit2Any == Workers = {1, 2} /\ NW = 2 /\ Cap \in Nat
ConstInit3Any == Workers = {1, 2, 3} /\ NW = 3 /\ Cap \in Nat
ConstInit4Any == Workers = {1, 2, 3, 4} /\ NW = 4 /\ Cap \in Nat

States == {"top", "taken", "computed", "ready", "sent", "exit"}
Active(w) == pc[w] \in {"taken", "computed", "ready", "sent"}

Init == /\ len \in Nat
        /\ src = 0 /\ sendNext = 0 /\ nSent = 0 /\ nChan = 0 /\ nOut = 0
        /\ pc = [w \in Workers |-> "top"]
        /\ tk = [w \in Workers |-> 0]
        /\ sok = [w \in Workers |-> TRUE]
        /\ cons = "run" /\ srcAtDrop = 0

Take(w) == /\ pc[w] = "top"
           /\ IF src < len
              THEN /\ tk' = [tk EXCEPT ![w] = src] /\ src' = src + 1 /\ pc' = [pc EXCEPT ![w] = "taken"]
              ELSE /\ pc' = [pc EXCEPT ![w] = "exit"] /\ UNCHANGED <<tk, src>>
           /\ UNCHANGED <<len, sok, sendNext, nSent, nChan, nOut, cons, srcAtDrop>>
Compute(w) == /\ pc[w] = "taken" /\ pc' = [pc EXCEPT ![w] = "computed"]
              /\ UNCHANGED <<len, src, tk, sok, sendNext, nSent, nChan, nOut, cons, srcAtDrop>>
SpinOk(w) == /\ pc[w] = "computed" /\ sendNext = tk[w] /\ pc' = [pc EXCEPT ![w] = "ready"]
             /\ UNCHANGED <<len, src, tk, sok, sendNext, nSent, nChan, nOut, cons, srcAtDrop>>
Send(w) == /\ pc[w] = "ready"
           /\ \/ /\ cons = "dropped" /\ sok' = [sok EXCEPT ![w] = FALSE] /\ UNCHANGED <<nChan, nSent>>
              \/ /\ cons # "dropped" /\ nChan < Cap
                 /\ sok' = [sok EXCEPT ![w] = TRUE] /\ nChan' = nChan + 1 /\ nSent' = nSent + 1
           /\ pc' = [pc EXCEPT ![w] = "sent"]
           /\ UNCHANGED <<len, src, tk, sendNext, nOut, cons, srcAtDrop>>
Advance(w) == /\ pc[w] = "sent"
              /\ sendNext' = tk[w] + 1
              /\ pc' = [pc EXCEPT ![w] = IF sok[w] THEN "top" ELSE "exit"]
              /\ UNCHANGED <<len, src, tk, sok, nSent, nChan, nOut, cons, srcAtDrop>>
Recv == /\ cons = "run" /\ nChan > 0 /\ nOut' = nOut + 1 /\ nChan' = nChan - 1
        /\ UNCHANGED <<len, src, pc, tk, sok, sendNext, nSent, cons, srcAtDrop>>
End == /\ cons = "run" /\ nChan = 0 /\ \A w \in Workers : pc[w] = "exit"
       /\ cons' = "done"
       /\ UNCHANGED <<len, src, pc, tk, sok, sendNext, nSent, nChan, nOut, srcAtDrop>>
Drop == /\ cons = "run" /\ cons' = "dropped" /\ nChan' = 0 /\ srcAtDrop' = src
        /\ UNCHANGED <<len, src, pc, tk, sok, sendNext, nSent, nOut>>
\* a finished system stutters (Apalache treats a state without successor as a deadlock)
Idle == /\ cons \in {"done", "dropped"} /\ \A w \in Workers : pc[w] = "exit"
        /\ UNCHANGED <<len, src, pc, tk, sok, sendNext, nSent, nChan, nOut, cons, srcAtDrop>>
Next == (\E w \in Workers : Take(w) \/ Compute(w) \/ SpinOk(w) \/ Send(w) \/ Advance(w)) \/ Recv \/ End \/ Drop \/ Idle

-----------------------------------------------------------------------------
SentOk == \E w \in Workers : pc[w] = "sent" /\ sok[w]
\* workers that may still take a ticket after a drop: the ones at the top, and one whose successful send predates the drop
MayTake == {w \in Workers : pc[w] = "top" \/ (pc[w] = "sent" /\ sok[w])}

TypeInv == /\ len >= 0 /\ src >= 0 /\ src <= len /\ sendNext >= 0 /\ sendNext <= src
           /\ nChan >= 0 /\ nChan <= Cap /\ nOut >= 0 /\ nSent >= 0 /\ srcAtDrop >= 0
           /\ pc \in [Workers -> States] /\ tk \in [Workers -> Int] /\ sok \in [Workers -> BOOLEAN]
           /\ cons \in {"run", "done", "dropped"}

IndInv ==
    /\ TypeInv
    \* every outstanding ticket sendNext .. src-1 has exactly one holder
    /\ \A w \in Workers : Active(w) => (sendNext <= tk[w] /\ tk[w] < src)
    /\ \A v, w \in Workers : (v # w /\ Active(v) /\ Active(w)) => tk[v] # tk[w]
    /\ Cardinality({w \in Workers : Active(w)}) = src - sendNext
    \* only the holder of the turn is past the turn check
    /\ \A w \in Workers : pc[w] \in {"ready", "sent"} => tk[w] = sendNext
    \* what was sent is what the turn counter says, and it is in the channel or received
    /\ cons # "dropped" => /\ nSent = sendNext + (IF SentOk THEN 1 ELSE 0)
                           /\ nSent = nOut + nChan
    /\ \A w \in Workers : (pc[w] = "sent" /\ ~sok[w]) => cons = "dropped"
    \* a worker returns only at the end of the upstream or after a failed send
    /\ (cons # "dropped" /\ \E w \in Workers : pc[w] = "exit") => src = len
    /\ cons = "done" => (nChan = 0 /\ \A w \in Workers : pc[w] = "exit")
    \* after the drop
    /\ cons = "dropped" => /\ nChan = 0 /\ nOut <= nSent /\ srcAtDrop <= src
                           /\ src + Cardinality(MayTake) <= srcAtDrop + NW

\* initial predicate for the induction step: any state that satisfies the invariant
IndInit == /\ len \in Int /\ src \in Int /\ sendNext \in Int /\ nSent \in Int /\ nChan \in Int /\ nOut \in Int /\ srcAtDrop \in Int
           /\ pc \in [Workers -> States] /\ tk \in [Workers -> Int] /\ sok \in [Workers -> BOOLEAN]
           /\ cons \in {"run", "done", "dropped"}
           /\ IndInv

-----------------------------------------------------------------------------
\* the safety clauses of C05 / C09 follow from the invariant
SendsInOrder == \A w \in Workers : (pc[w] = "ready" /\ cons # "dropped") => tk[w] = nSent
LookAhead == cons # "dropped" => src <= nOut + Cap + NW
AfterDrop == cons = "dropped" => src <= srcAtDrop + NW
Complete == cons = "done" => nOut = len
NothingLost == cons # "dropped" => nOut <= nSent /\ nSent <= src
Safety == SendsInOrder /\ LookAhead /\ AfterDrop /\ Complete /\ NothingLost
=============================================================================
