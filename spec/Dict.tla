--------------------------------- MODULE Dict ---------------------------------
(***************************************************************************)
(* Dictionary::create / save / load / get_closest (C20).                   *)
(*                                                                         *)
(* A line is a sequence of symbols [i : identity, k : kind] with kind      *)
(* "s" (space), "l" (letter) or "p" (punctuation such as '-').  The        *)
(* counting threads are CountReduce.tla; here the result is specified:     *)
(* token extraction per mode, exact counts over the first max_sequences    *)
(* lines, the top-max_size predicate, freq_sum, and the closest entry.     *)
(* A token is a sequence of symbol ids (BOW / EOW markers in 3-gram mode). *)
(***************************************************************************)
EXTENDS Naturals, Sequences, FiniteSets, SequencesExt

BOW == 9001
EOW == 9002

\* whitespace-separated words of a line (sequences of symbols)
RECURSIVE SplitAcc(_, _, _, _)
SplitAcc(line, k, cur, acc) ==
    IF k > Len(line) THEN (IF cur = <<>> THEN acc ELSE Append(acc, cur))
    ELSE IF line[k].k = "s" THEN SplitAcc(line, k + 1, <<>>, IF cur = <<>> THEN acc ELSE Append(acc, cur))
    ELSE SplitAcc(line, k + 1, Append(cur, line[k]), acc)
WordsOf(line) == SplitAcc(line, 1, <<>>, <<>>)

\* word mode: the maximal letter runs inside every word (split_words' word parts)
RECURSIVE RunsAcc(_, _, _, _)
RunsAcc(w, k, cur, acc) ==
    IF k > Len(w) THEN (IF cur = <<>> THEN acc ELSE Append(acc, cur))
    ELSE IF w[k].k = "l" THEN RunsAcc(w, k + 1, Append(cur, w[k].i), acc)
    ELSE RunsAcc(w, k + 1, <<>>, IF cur = <<>> THEN acc ELSE Append(acc, cur))
WordTokens(line) == FlattenSeq([n \in 1..Len(WordsOf(line)) |-> RunsAcc(WordsOf(line)[n], 1, <<>>, <<>>)])

\* character modes: every letter / punctuation character, or 3-grams around it with <bow> / <eow>
Char1Tokens(line) == FlattenSeq([n \in 1..Len(WordsOf(line)) |-> [k \in 1..Len(WordsOf(line)[n]) |-> <<WordsOf(line)[n][k].i>>]])
Char3Of(w) == LET ids == <<BOW>> \o [k \in 1..Len(w) |-> w[k].i] \o <<EOW>>
              IN [k \in 1..Len(w) |-> <<ids[k], ids[k + 1], ids[k + 2]>>]
Char3Tokens(line) == FlattenSeq([n \in 1..Len(WordsOf(line)) |-> Char3Of(WordsOf(line)[n])])

Tokens(line, mode) == CASE mode = "word" -> WordTokens(line)
                        [] mode = "char1" -> Char1Tokens(line)
                        [] OTHER -> Char3Tokens(line)

\* all tokens of the first maxSeq lines (maxSeq < 0: all lines)
Considered(lines, maxSeq) == IF maxSeq < 0 \/ maxSeq > Len(lines) THEN lines ELSE SubSeq(lines, 1, maxSeq)
AllTokens(lines, mode, maxSeq) ==
    LET ls == Considered(lines, maxSeq) IN FlattenSeq([n \in 1..Len(ls) |-> Tokens(ls[n], mode)])
CountOf(toks, t) == Cardinality({k \in 1..Len(toks) : toks[k] = t})
Vocabulary(toks) == {toks[k] : k \in 1..Len(toks)}

\* items = set of <<token, freq>>: exact frequencies, top maxSize (maxSize < 0: unlimited)
ValidDictionary(items, toks, maxSize) ==
    LET voc == Vocabulary(toks)
        kept == {it[1] : it \in items}
        want == IF maxSize < 0 \/ maxSize > Cardinality(voc) THEN Cardinality(voc) ELSE maxSize
    IN /\ \A it \in items : it[1] \in voc /\ it[2] = CountOf(toks, it[1])
       /\ Cardinality(items) = Cardinality(kept) /\ Cardinality(kept) = want
       /\ \A a \in kept, b \in voc \ kept : CountOf(toks, a) >= CountOf(toks, b)
FreqSum(items) == LET s == SetToSeq(items) IN FoldLeft(LAMBDA x, y : x + y, 0, [k \in 1..Len(s) |-> s[k][2]])
=============================================================================
