------------------------------- MODULE Gen_Dict -------------------------------
(* Small corpora x options for replay of C20: lines over the slots space, x, y, *)
(* z, '-' (so that x-y has two word parts), max_size in {None(-1), 0, 1, 2, 5}, *)
(* max_sequences in {None(-1), 0, 1, 2}, word / char-1 / char-3 modes.          *)
EXTENDS Naturals, Integers, Sequences, FiniteSets, SequencesExt, TLC, Json, IOUtils
CONSTANTS MaxLines
\* slot 8: a letter of two code points (one character in the character modes); <<1, 1>>: a whitespace-only line
LinePool == {<<>>, <<2>>, <<2, 1, 3>>, <<2, 5, 3>>, <<4, 4>>, <<2, 1, 2, 1, 4, 4>>, <<3, 1, 1, 2>>, <<5>>, <<2, 3, 1, 3, 2>>, <<8, 2, 1, 8>>, <<1, 1>>}
Corpora == UNION {[1..n -> LinePool] : n \in 0..MaxLines}
Cases == {[lines |-> c, max_size |-> ms, max_seq |-> mq, mode |-> m, threads |-> <<0, 1, 2, 4>>, split |-> 1,
           queries |-> << <<2>>, <<4, 4, 4>>, <<3, 2>>, <<>> >>] :
             c \in Corpora, ms \in {-1, 0, 1, 2, 5}, mq \in {-1, 0, 1, 2}, m \in {"word", "char1", "char3"}}
\* word mode with the spacing acute accent (slot 7): in the cleaned, normalised text it is a blank plus a combining mark
AccentPool == {<<2, 7, 3>>, <<2, 7, 3, 1, 2>>, <<7, 2>>, <<2, 7>>, <<2, 1, 3>>}
AccentCases == {[lines |-> c, max_size |-> ms, max_seq |-> 0 - 1, mode |-> "word", threads |-> <<0, 2>>, split |-> 1, queries |-> << <<2>> >>] :
                  c \in UNION {[1..n -> AccentPool] : n \in 1..2}, ms \in {0 - 1, 1}}
VARIABLE x
Init == x = 0 /\ ndJsonSerialize(IOEnv.OUT, SetToSeq(Cases) \o SetToSeq(AccentCases))
Next == UNCHANGED x
=============================================================================
