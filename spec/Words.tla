-------------------------------- MODULE Words --------------------------------
(***************************************************************************)
(* Regex-built text helpers of src/text.rs and src/whitespace.rs:          *)
(*   count_words_whitespace  (find_iter of  \s+\S+|^\S+ ; the word counts  *)
(*                            BPE training starts from),                   *)
(*   split_words             (split_whitespace, then find_iter of          *)
(*                            \b[\p{Alphabetic}\p{M}\p{Pc}\p{Join_Control}]+\b), *)
(*   find_substring_ignoring_whitespace  (leftmost-first match of          *)
(*                            \s* c1 \s* c2 ... \s* cn \s*  with every     *)
(*                            non-whitespace character of the needle       *)
(*                            escaped),                                    *)
(*   replace_word.                                                         *)
(*                                                                         *)
(* A text is a sequence of code points, a code point is a slot number of   *)
(* the model alphabet; Class[slot] is                                      *)
(*   "w"  White_Space            "c"  White_Space and a control (tab, CR, LF) *)
(*   "l"  in the word class (Alphabetic / Pc)                              *)
(*   "m"  a combining mark (in the word class, extends a grapheme cluster) *)
(*   "d"  a digit (\w, but not in the word class)                          *)
(*   "p"  everything else (not \w): punctuation, regex meta characters     *)
(* CR and LF are slots 10 and 11 (CR LF is one cluster in grapheme mode).  *)
(***************************************************************************)
EXTENDS Naturals, Sequences, FiniteSets, SequencesExt

Class == <<"w", "c", "l", "l", "m", "w", "p", "p", "p", "c", "c", "d", "l", "l", "p", "p">>
CRs == 10
LFs == 11
IsWs(x) == Class[x] \in {"w", "c"}
IsCtl(x) == Class[x] = "c"
IsMark(x) == Class[x] = "m"
InWordClass(x) == Class[x] \in {"l", "m"}
IsWordChar(x) == Class[x] \in {"l", "m", "d"}       \* \w
NoWsCps(t) == SelectSeq(t, LAMBDA x : ~IsWs(x))

\* number of whitespace code points from position p on (1-based)
RECURSIVE WsRun(_, _)
WsRun(t, p) == IF p > Len(t) \/ ~IsWs(t[p]) THEN 0 ELSE 1 + WsRun(t, p + 1)
RECURSIVE NonWsRun(_, _)
NonWsRun(t, p) == IF p > Len(t) \/ IsWs(t[p]) THEN 0 ELSE 1 + NonWsRun(t, p + 1)

-----------------------------------------------------------------------------
\* count_words_whitespace: the matches of  \s+\S+|^\S+  from position p on, as <<start, word start, end>> (1-based, end exclusive)
RECURSIVE CountMatches(_, _)
CountMatches(t, p) ==
    IF p > Len(t) THEN <<>>
    ELSE LET w == WsRun(t, p)
             n == NonWsRun(t, p + w)
         IN IF w = 0 /\ p = 1 THEN <<<<p, p, p + n>>>> \o CountMatches(t, p + n)          \* ^\S+
            ELSE IF w > 0 /\ n > 0 THEN <<<<p, p + w, p + w + n>>>> \o CountMatches(t, p + w + n)
            ELSE <<>>                                                                    \* trailing whitespace
Keys(t, lead) == LET ms == CountMatches(t, 1)
                 IN [k \in 1..Len(ms) |-> SubSeq(t, IF lead THEN ms[k][1] ELSE ms[k][2], ms[k][3] - 1)]
\* the counts as a set of <<key, number>>
CountsOf(ks) == {<<ks[k], Cardinality({j \in 1..Len(ks) : ks[j] = ks[k]})>> : k \in 1..Len(ks)}
\* declarative view: the whitespace-separated words, each with the whitespace run in front of it
WordStartSet(t) == {k \in 1..Len(t) : ~IsWs(t[k]) /\ (k = 1 \/ IsWs(t[k - 1]))}
WordAt(t, a) == SubSeq(t, a, a + NonWsRun(t, a) - 1)
RECURSIVE WsBefore(_, _)
WsBefore(t, a) == IF a = 1 \/ ~IsWs(t[a - 1]) THEN 0 ELSE 1 + WsBefore(t, a - 1)
DeclKeys(t, lead) == LET st == SetToSortSeq(WordStartSet(t), LAMBDA x, y : x < y)
                     IN [k \in 1..Len(st) |-> IF lead THEN SubSeq(t, st[k] - WsBefore(t, st[k]), st[k] + NonWsRun(t, st[k]) - 1)
                                                      ELSE WordAt(t, st[k])]

-----------------------------------------------------------------------------
\* split_words: the parts of one whitespace-free word: maximal runs of word-class code points that have no \w neighbour
RunStarts(w) == {a \in 1..Len(w) : InWordClass(w[a]) /\ (a = 1 \/ ~InWordClass(w[a - 1]))}
RECURSIVE ClassRun(_, _)
ClassRun(w, a) == IF a > Len(w) \/ ~InWordClass(w[a]) THEN 0 ELSE 1 + ClassRun(w, a + 1)
IsPart(w, a) == LET z == a + ClassRun(w, a) IN (a = 1 \/ ~IsWordChar(w[a - 1])) /\ (z > Len(w) \/ ~IsWordChar(w[z]))
\* parts as <<0-based start, code points>>
Parts(w) == LET st == SetToSortSeq({a \in RunStarts(w) : IsPart(w, a)}, LAMBDA x, y : x < y)
            IN [k \in 1..Len(st) |-> <<st[k] - 1, SubSeq(w, st[k], st[k] + ClassRun(w, st[k]) - 1)>>]
\* the regex as a scanning machine: one attempt per start position, \b [class]+ (greedy, giving back) \b
RECURSIVE PartEnd(_, _, _)
PartEnd(w, a, z) ==     \* largest end z' in a+1..z (exclusive end) with a word boundary at z', 0 if none
    IF z <= a THEN 0
    ELSE IF z > Len(w) \/ ~IsWordChar(w[z]) THEN z
    ELSE PartEnd(w, a, z - 1)
RECURSIVE ScanParts(_, _)
ScanParts(w, p) ==
    IF p > Len(w) THEN <<>>
    ELSE IF InWordClass(w[p]) /\ (p = 1 \/ ~IsWordChar(w[p - 1]))
         THEN LET z == PartEnd(w, p, p + ClassRun(w, p))
              IN IF z = 0 THEN ScanParts(w, p + 1) ELSE <<<<p - 1, SubSeq(w, p, z - 1)>>>> \o ScanParts(w, z)
         ELSE ScanParts(w, p + 1)
WordsOf(t) == LET st == SetToSortSeq(WordStartSet(t), LAMBDA x, y : x < y) IN [k \in 1..Len(st) |-> WordAt(t, st[k])]

-----------------------------------------------------------------------------
\* characters of the needle: code points, or grapheme clusters (a mark extends what is in front of it unless that is a
\* control, CR LF is one cluster); a character is whitespace iff all its code points are
StartsCluster(t, k) == k = 1 \/ ~((IsMark(t[k]) /\ ~IsCtl(t[k - 1])) \/ (t[k - 1] = CRs /\ t[k] = LFs))
RECURSIVE ClusterLen(_, _)
ClusterLen(t, k) == IF k + 1 > Len(t) \/ StartsCluster(t, k + 1) THEN 1 ELSE 1 + ClusterLen(t, k + 1)
Chars(t, g) == IF ~g THEN [k \in 1..Len(t) |-> <<t[k]>>]
               ELSE LET st == SetToSortSeq({k \in 1..Len(t) : StartsCluster(t, k)}, LAMBDA x, y : x < y)
                    IN [k \in 1..Len(st) |-> SubSeq(t, st[k], st[k] + ClusterLen(t, st[k]) - 1)]
CharIsWs(ch) == \A j \in 1..Len(ch) : IsWs(ch[j])
\* the literal groups of the pattern
Groups(sub, g) == SelectSeq(Chars(sub, g), LAMBDA ch : ~CharIsWs(ch))

GroupAt(t, p, gr) == p + Len(gr) - 1 <= Len(t) /\ \A j \in 1..Len(gr) : t[p + j - 1] = gr[j]
\* leftmost-first matching with greedy \s*: Try(t, gs, pos, k) = end (exclusive) of the preferred match of
\* \s* g_k \s* ... g_n \s*  starting at pos, 0 if there is none
RECURSIVE Try(_, _, _, _), TryJ(_, _, _, _, _)
Try(t, gs, pos, k) == TryJ(t, gs, pos, k, WsRun(t, pos))
TryJ(t, gs, pos, k, j) ==
    IF k > Len(gs) THEN pos + j
    ELSE LET r == IF GroupAt(t, pos + j, gs[k]) THEN Try(t, gs, pos + j + Len(gs[k]), k + 1) ELSE 0
         IN IF r # 0 THEN r ELSE IF j = 0 THEN 0 ELSE TryJ(t, gs, pos, k, j - 1)
NoMatch == <<0, 0>>
RECURSIVE FindFrom(_, _, _)
FindFrom(t, gs, p) == IF p > Len(t) + 1 THEN NoMatch
                      ELSE LET z == Try(t, gs, p, 1) IN IF z # 0 THEN <<p, z>> ELSE FindFrom(t, gs, p + 1)
Find(t, sub, g) == FindFrom(t, Groups(sub, g), 1)

\* declarative view: x is in the language  \s* g_k \s* ... g_n \s*  (from position i of x)
RECURSIVE Lang(_, _, _, _)
Lang(x, gs, i, k) ==
    \E j \in 0..WsRun(x, i) :
        IF k > Len(gs) THEN i + j = Len(x) + 1
        ELSE GroupAt(x, i + j, gs[k]) /\ Lang(x, gs, i + j + Len(gs[k]), k + 1)
MatchesAt(t, gs, p, z) == Lang(SubSeq(t, p, z - 1), gs, 1, 1)
=============================================================================
