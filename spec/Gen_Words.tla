------------------------------- MODULE Gen_Words -------------------------------
(* Texts over the 16 slots of Words.tla (alphabet "find" of the harness), per family a slot subset that covers its     *)
(* case analysis: count (whitespace kinds, CR LF, multi-byte), split (letters, mark, digit, connector, punctuation),   *)
(* find (whitespace, mark, controls; needles with regex meta characters), replace (word, table).                      *)
EXTENDS Naturals, Sequences, FiniteSets, SequencesExt, TLC, Json, IOUtils
CONSTANTS MaxLen
Texts(S, n) == UNION {[1..k -> S] : k \in 0..n}
Count == {[kind |-> "count", t |-> t, lead |-> l] : t \in Texts({1, 2, 3, 5, 6, 10, 11, 14}, MaxLen), l \in BOOLEAN}
Split == {[kind |-> "split", t |-> t] : t \in Texts({1, 2, 3, 5, 7, 12, 13, 14, 16}, MaxLen)}
Find == {[kind |-> "find", t |-> t, sub |-> s, g |-> g] :
            t \in Texts({1, 2, 3, 5, 7, 10, 11}, MaxLen - 1), s \in Texts({1, 3, 5, 7, 9, 10, 11}, 2), g \in BOOLEAN}
Meta == {[kind |-> "find", t |-> t, sub |-> s, g |-> g] :
            t \in Texts({3, 7, 8, 9, 15}, MaxLen - 1), s \in Texts({3, 7, 8, 9, 15, 16}, 2), g \in BOOLEAN}
Replace == {[kind |-> "replace", word |-> w, keys |-> ks, repl |-> r, seed |-> sd] :
            w \in {<<3>>, <<3, 4>>, <<>>}, ks \in {<<>>, << <<3>> >>, << <<3, 4>>, <<3>> >>, << <<>> >>},
            r \in {<< <<4>> >>, << <<4>>, <<4, 4>>, <<3>> >>}, sd \in 0..3}
Cases == CASE IOEnv.FAMILY = "count" -> Count [] IOEnv.FAMILY = "split" -> Split [] IOEnv.FAMILY = "find" -> Find
           [] IOEnv.FAMILY = "meta" -> Meta [] IOEnv.FAMILY = "replace" -> Replace
VARIABLE x
Init == x = 0 /\ ndJsonSerialize(IOEnv.OUT, SetToSeq(Cases))
Next == UNCHANGED x
=============================================================================
