------------------------------ MODULE Trace_Post ------------------------------
(* Validates recorded postprocessing() and train_task() calls against Post.tla.                               *)
(* post record: cfg, marks [[k, v]], r, near, n, L, pfx, sfx, maskid, item, ids0, lab0, tids0,                 *)
(*              out = [err, ids, labels, tids, label]                                                          *)
(* task record: task, joined, pfxids (tokens of input ++ separator), nsfx, mask_prefix, inids, tgtids,         *)
(*              classes, target_class, out = [err, ids, labels, tids, label]                                   *)
EXTENDS Post, TLC, Json, IOUtils
Rec == ndJsonDeserialize(IOEnv.OBS)
NChunks == atoi(IOEnv.NCHUNKS)
VARIABLES c, i, nfail, nskip, nnt, ndrift

MarkFn(m) == [k \in {m[j][1] : j \in 1..Len(m)} |-> LET j == CHOOSE q \in 1..Len(m) : m[q][1] = k IN m[j][2]]
Failing(cl) == LET bad == SelectSeq(cl, LAMBDA x : ~x[2]) IN [k \in 1..Len(bad) |-> bad[k][1]]

JPost(r) ==
    LET prims == Flat(r.cfg, MarkFn(r.marks), r.r)
        a == Run(Abs0(r.n), prims, 1, r.pfx, r.sfx, r.L)
        lim == IF a.clipped THEN r.L ELSE 1000000
        cl == <<
          <<"panics_only_for_a_missing_mark_or_too_short_sequence", r.out.err = a.bad>>,
          <<"tokens_clipped_and_only_maskable_positions_replaced", ~a.bad => TokensOk(r.ids0, r.out.ids, a, r.maskid)>>,
          <<"labels_follow_the_clip", (~a.bad /\ r.item \in {"gen", "seq", "cond"}) => r.out.labels = Cut(r.lab0, lim)>>,
          <<"target_tokens_follow_the_clip", (~a.bad /\ r.item = "cond") => r.out.tids = Cut(r.tids0, lim)>>,
          <<"class_label_untouched", (~a.bad /\ r.item = "cls") => r.out.label = 7>>,
          <<"same_seed_same_result", r.again>>
        >>
    IN [why |-> Failing(cl), drift |-> <<>>, skip |-> FALSE,
        nt |-> Len(prims) >= 1 /\ r.n >= 2]

JTask(r) ==
    LET cl == IF r.task = "gen" THEN
            LET ml == MaskLen(r.pfxids, r.nsfx, r.mask_prefix)
                g == GenTask(r.joined, r.pfxids, r.nsfx, r.mask_prefix) IN <<
              <<"generation_position_k_predicts_token_k_plus_1", ~r.out.err /\ NextTokenLabels(r.out.ids, r.out.labels, r.joined, ml)>>,
              <<"generation_equals_the_shift", ~r.out.err /\ r.out.ids = g.ids /\ r.out.labels = g.labels>>,
              <<"masked_prefix_covers_input_and_separator",
                  (r.mask_prefix /\ Len(r.joined) > 0) => \A k \in 1..Len(r.out.labels) : (r.out.labels[k] = -1) <=> (k + 1 <= ml)>> >>
          ELSE IF r.task = "cond" THEN
            LET g == CondTask(r.inids, r.tgtids) IN <<
              <<"conditional_generation_shifts_the_target", ~r.out.err /\ r.out.ids = g.ids /\ r.out.tids = g.tids /\ r.out.labels = g.labels>> >>
          ELSE <<
              <<"class_label_is_the_index_of_the_target",
                  LET ix == ClassIndex(r.classes, r.target_class) IN IF ix < 0 THEN r.out.err ELSE ~r.out.err /\ r.out.label = ix>>,
              <<"classification_tokens_are_the_input_tokens", ~r.out.err => r.out.ids = r.inids>> >>
    IN [why |-> Failing(cl), drift |-> <<>>, skip |-> FALSE, nt |-> Len(r.joined) + Len(r.inids) >= 3]

Judge(r) == IF r.st # "ok" THEN [why |-> <<r.st>>, drift |-> <<>>, skip |-> FALSE, nt |-> FALSE]
            ELSE IF r.kind = "post" THEN (IF r.near THEN [why |-> <<>>, drift |-> <<>>, skip |-> TRUE, nt |-> FALSE] ELSE JPost(r))
            ELSE JTask(r)
INSTANCE Stepper
=============================================================================
