------------------------------ MODULE EditDist ------------------------------
(***************************************************************************)
(* Edit distance (C12).                                                    *)
(*                                                                         *)
(* Property layer: the alignment machine Align.  A state is (i, j, cost):  *)
(* i symbols of a and j symbols of b are consumed.  Its actions are Keep,  *)
(* Replace, Insert, Delete and (optionally) Swap, with the whitespace      *)
(* guards of spaces_insert_delete_only.  The distance is DEFINED as the    *)
(* least cost with which Align reaches (Len(a), Len(b)): Levenshtein       *)
(* without Swap, optimal string alignment with it.                         *)
(*                                                                         *)
(* Mechanism layer: the row-by-row dynamic programme the code implements,  *)
(* written as an accumulator fold (TLC does not memoise recursive          *)
(* functions).  MC_EditDist checks that both agree (Bellman conditions in   *)
(* every reachable Align state).                                           *)
(***************************************************************************)
EXTENDS TextAbs

-----------------------------------------------------------------------------
\* Align steps from (i, j): set of [di, dj, c, k]
CanReplace(x, y, sid) == x.i # y.i /\ (~sid \/ (~x.w /\ ~y.w))
CanSwap(a, b, i, j, sid) ==
    /\ i + 2 <= Len(a) /\ j + 2 <= Len(b)
    /\ a[i + 1].i = b[j + 2].i /\ a[i + 2].i = b[j + 1].i
    /\ (~sid \/ (~a[i + 1].w /\ ~a[i + 2].w))

AlignSteps(a, b, i, j, swap, sid) ==
    (IF i < Len(a) /\ j < Len(b) /\ a[i + 1].i = b[j + 1].i
       THEN {[di |-> 1, dj |-> 1, c |-> 0, k |-> "k"]} ELSE {})
    \cup (IF i < Len(a) /\ j < Len(b) /\ CanReplace(a[i + 1], b[j + 1], sid)
       THEN {[di |-> 1, dj |-> 1, c |-> 1, k |-> "r"]} ELSE {})
    \cup (IF j < Len(b) THEN {[di |-> 0, dj |-> 1, c |-> 1, k |-> "i"]} ELSE {})
    \cup (IF i < Len(a) THEN {[di |-> 1, dj |-> 0, c |-> 1, k |-> "d"]} ELSE {})
    \cup (IF swap /\ CanSwap(a, b, i, j, sid)
       THEN {[di |-> 2, dj |-> 2, c |-> 1, k |-> "s"]} ELSE {})

-----------------------------------------------------------------------------
\* Mechanism: DP rows.  Row i is a sequence r with r[j+1] = D[i][j].
Cell(a, b, i, j, up, left, diag, sw, swap, sid) ==
    LET x == a[i]
        y == b[j]
        c3 == IF x.i = y.i THEN diag
              ELSE IF ~sid \/ (~x.w /\ ~y.w) THEN diag + 1 ELSE Inf
        c4 == IF /\ swap /\ i > 1 /\ j > 1
                 /\ x.i = b[j - 1].i /\ a[i - 1].i = y.i
                 /\ (~sid \/ (~x.w /\ ~a[i - 1].w))
              THEN sw + 1 ELSE Inf
    IN Min2(Min2(up + 1, left + 1), Min2(c3, c4))

RECURSIVE RowAcc(_, _, _, _, _, _, _, _)
RowAcc(a, b, i, prev2, prev, acc, swap, sid) ==
    IF Len(acc) = Len(b) + 1 THEN acc
    ELSE LET j == Len(acc) IN
         RowAcc(a, b, i, prev2, prev,
                Append(acc, Cell(a, b, i, j, prev[j + 1], acc[j], prev[j],
                                 IF i > 1 /\ j > 1 THEN prev2[j - 1] ELSE 0, swap, sid)),
                swap, sid)

Row0(b) == [j \in 1..Len(b) + 1 |-> j - 1]

\* the rows are folded over a with FoldLeft (evaluated iteratively by TLC, so a text of tens of thousands of characters does
\* not nest the evaluation that deep); acc = <<row i-2, row i-1, i>>
LastRow(a, b, swap, sid) ==
    FoldLeft(LAMBDA acc, ch : <<acc[2], RowAcc(a, b, acc[3], acc[1], acc[2], <<acc[3]>>, swap, sid), acc[3] + 1>>,
             <<<<>>, Row0(b), 1>>, a)[2]
Dist(a, b, swap, sid) == LastRow(a, b, swap, sid)[Len(b) + 1]
PrefixDist(a, b, swap, sid) == SeqMin(LastRow(a, b, swap, sid))

\* Normalised distance as an exact rational num/den; 0/0 := 0
NormNum(a, b, swap, sid) == Dist(a, b, swap, sid)
NormDen(a, b) == Max2(Len(a), Len(b))
\* x6 = round(x * 10^6) as logged by the harness
RatOk(x6, num, den) ==
    IF den = 0 THEN x6 = 0
    ELSE LET l == x6 * den  r == num * 1000000 IN
         (IF l >= r THEN l - r ELSE r - l) <= den

-----------------------------------------------------------------------------
\* A script (sequence of [k, i, j], 0-based positions as returned by
\* operations()) is a behaviour of Align from (0,0) to (m,n): between two
\* listed operations only Keep steps happen.  Returns the cost or Inf.
KeepsTo(a, b, i, j, pi, pj) ==
    /\ pi >= i /\ pj >= j /\ pi - i = pj - j /\ pi <= Len(a) /\ pj <= Len(b)
    /\ \A d \in 1..(pi - i) : a[i + d].i = b[j + d].i

RECURSIVE ScriptCost(_, _, _, _, _, _, _, _, _)
ScriptCost(a, b, ops, k, i, j, cost, swap, sid) ==
    IF k > Len(ops)
    THEN IF KeepsTo(a, b, i, j, Len(a), Len(b)) THEN cost ELSE Inf
    ELSE LET o == ops[k] IN
         IF ~KeepsTo(a, b, i, j, o.i, o.j) THEN Inf
         ELSE LET st == {s \in AlignSteps(a, b, o.i, o.j, swap, sid) : s.k = o.k} IN
              IF st = {} THEN Inf
              ELSE LET s == CHOOSE s \in st : TRUE IN
                   ScriptCost(a, b, ops, k + 1, o.i + s.di, o.j + s.dj, cost + s.c, swap, sid)

ValidScript(a, b, ops, swap, sid) ==
    ScriptCost(a, b, ops, 1, 0, 0, 0, swap, sid) = Len(ops)
=============================================================================
