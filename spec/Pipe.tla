-------------------------------- MODULE Pipe --------------------------------
(***************************************************************************)
(* The threaded pipeline of src/data/loading.rs (Pipe::new, num_threads >0)*)
(* for C05 (sequential-map semantics under every schedule) and C09         *)
(* (bounded look-ahead, prompt stop after drop, no wedge on panic).        *)
(*                                                                         *)
(* Mechanism layer: one action per segment of the worker loop between two  *)
(* accesses of shared state, exactly the segments between the guarded      *)
(* schedule points of the code:                                            *)
(*                                                                         *)
(*   loop {                                            pc                  *)
(*     (idx, data) = inner.lock().next() else return;  top    -> Take      *)
(*     item = pipeline(data);                          taken  -> Compute   *)
(*     while send_next.load() != idx {}                computed -> SpinOk  *)
(*     r = tx.send(item);                              ready  -> Send      *)
(*     send_next.swap(idx + 1);                        sent   -> Advance   *)
(*     if r.is_err() { return }                                            *)
(*   }                                                                     *)
(*                                                                         *)
(* The busy-wait iteration whose test fails is a stutter (no action).      *)
(* The consumer calls recv() (Recv / End) or drops the iterator (Drop).    *)
(* Items are identified with their index: item i is "f(x_i)".              *)
(*                                                                         *)
(* Property layer (observables only): out, src (upstream pulls), calls,    *)
(* thread liveness, aborted.                                               *)
(***************************************************************************)
EXTENDS Naturals, Sequences, FiniteSets

CONSTANTS W,          \* number of worker threads (>= 1)
          N,          \* largest upstream length considered
          Lens,       \* the upstream lengths considered (subset of 0..N)
          Cap,        \* channel capacity (the code uses sync_channel(W))
          Fail,       \* indices whose processing function panics
          HookOn,     \* the process-exiting panic hook is installed
          HookLate,   \* negative control: the hook is installed only after the workers were started
          HookFragile,\* negative control: a worker that finds the upstream exhausted takes the hook away again
          AllowDrop   \* the consumer may abandon the iterator

VARIABLES len,        \* length of the upstream (unknown to the pipe until exhausted)
          src,        \* tickets handed out so far = upstream items pulled
          pc, tk, sok,\* per worker: control state, ticket, result of send
          sendNext,   \* the turn counter
          chan,       \* bounded FIFO channel (sequence of item indices)
          out,        \* what the consumer has received, in order
          cons,       \* consumer: "run", "done" (saw end of stream), "dropped"
          calls,      \* calls[i] = how often item i was processed
          aborted,    \* process::exit was called by the panic hook
          hook,       \* the panic hook is in place (in the code: before the first worker is spawned)
          srcAtDrop   \* value of src when the consumer dropped (history, set once)

vars == <<hook, len, src, pc, tk, sok, sendNext, chan, out, cons, calls, aborted, srcAtDrop>>

Workers == 1..W
Gone(w) == pc[w] \in {"exit", "dead"}
closed == cons = "dropped"

Init == /\ len \in Lens
        /\ hook = (HookOn /\ ~HookLate)
        /\ src = 0
        /\ pc = [w \in Workers |-> "top"]
        /\ tk = [w \in Workers |-> 0]
        /\ sok = [w \in Workers |-> TRUE]
        /\ sendNext = 0
        /\ chan = <<>>
        /\ out = <<>>
        /\ cons = "run"
        /\ calls = [i \in 0..(N - 1) |-> 0]
        /\ aborted = FALSE
        /\ srcAtDrop = 0

\* ticket take under the mutex (or exit when the upstream is exhausted)
Take(w) == /\ ~aborted /\ pc[w] = "top"
           /\ IF src < len
              THEN /\ tk' = [tk EXCEPT ![w] = src]
                   /\ src' = src + 1
                   /\ pc' = [pc EXCEPT ![w] = "taken"]
              ELSE /\ pc' = [pc EXCEPT ![w] = "exit"]
                   /\ UNCHANGED <<tk, src>>
           \* (the hook is process-global and must outlive every worker: it stays)
           /\ hook' = IF HookFragile /\ src >= len THEN FALSE ELSE hook
           /\ UNCHANGED <<len, sok, sendNext, chan, out, cons, calls, aborted, srcAtDrop>>

\* the processing function; a panic either exits the process (hook) or kills the thread
Compute(w) == /\ ~aborted /\ pc[w] = "taken"
              /\ IF tk[w] \in Fail
                 THEN /\ IF hook THEN aborted' = TRUE /\ pc' = pc
                                   ELSE aborted' = aborted /\ pc' = [pc EXCEPT ![w] = "dead"]
                      /\ calls' = [calls EXCEPT ![tk[w]] = @ + 1]
                 ELSE /\ calls' = [calls EXCEPT ![tk[w]] = @ + 1]
                      /\ pc' = [pc EXCEPT ![w] = "computed"]
                      /\ aborted' = aborted
              /\ UNCHANGED <<hook, len, src, tk, sok, sendNext, chan, out, cons, srcAtDrop>>

\* the turn check succeeds
SpinOk(w) == /\ ~aborted /\ pc[w] = "computed"
             /\ sendNext = tk[w]
             /\ pc' = [pc EXCEPT ![w] = "ready"]
             /\ UNCHANGED <<hook, len, src, tk, sok, sendNext, chan, out, cons, calls, aborted, srcAtDrop>>

\* tx.send: blocks while the channel is full, fails iff the receiver is gone
Send(w) == /\ ~aborted /\ pc[w] = "ready"
           /\ \/ /\ closed
                 /\ sok' = [sok EXCEPT ![w] = FALSE]
                 /\ chan' = chan
              \/ /\ ~closed /\ Len(chan) < Cap
                 /\ sok' = [sok EXCEPT ![w] = TRUE]
                 /\ chan' = Append(chan, tk[w])
           /\ pc' = [pc EXCEPT ![w] = "sent"]
           /\ UNCHANGED <<hook, len, src, tk, sendNext, out, cons, calls, aborted, srcAtDrop>>

\* the turn is passed on; the thread returns iff its send failed
Advance(w) == /\ ~aborted /\ pc[w] = "sent"
              /\ sendNext' = tk[w] + 1
              /\ pc' = [pc EXCEPT ![w] = IF sok[w] THEN "top" ELSE "exit"]
              /\ UNCHANGED <<hook, len, src, tk, sok, chan, out, cons, calls, aborted, srcAtDrop>>

Recv == /\ ~aborted /\ cons = "run" /\ chan # <<>>
        /\ out' = Append(out, Head(chan))
        /\ chan' = Tail(chan)
        /\ UNCHANGED <<hook, len, src, pc, tk, sok, sendNext, cons, calls, aborted, srcAtDrop>>

\* recv() fails once every sender is gone and the channel is empty
End == /\ ~aborted /\ cons = "run" /\ chan = <<>>
       /\ \A w \in Workers : Gone(w)
       /\ cons' = "done"
       /\ UNCHANGED <<hook, len, src, pc, tk, sok, sendNext, chan, out, calls, aborted, srcAtDrop>>

Drop == /\ AllowDrop /\ ~aborted /\ cons = "run"
        /\ cons' = "dropped"
        /\ chan' = <<>>
        /\ srcAtDrop' = src
        /\ UNCHANGED <<hook, len, src, pc, tk, sok, sendNext, out, calls, aborted>>

\* negative control only: Pipe::new installs the hook after spawning the workers
InstallHook == /\ HookOn /\ HookLate /\ ~hook /\ ~aborted
               /\ hook' = TRUE
               /\ UNCHANGED <<len, src, pc, tk, sok, sendNext, chan, out, cons, calls, aborted, srcAtDrop>>

WorkerStep(w) == Take(w) \/ Compute(w) \/ SpinOk(w) \/ Send(w) \/ Advance(w)
Next == (\E w \in Workers : WorkerStep(w)) \/ Recv \/ End \/ Drop \/ InstallHook

Fairness == /\ \A w \in Workers : WF_vars(WorkerStep(w))
            /\ WF_vars(Recv) /\ WF_vars(End) /\ WF_vars(InstallHook)
Spec == Init /\ [][Next]_vars /\ Fairness

-----------------------------------------------------------------------------
\* Property layer

TypeOK == /\ len \in 0..N /\ src \in 0..len /\ sendNext \in 0..len
          /\ Len(chan) <= Cap
          /\ cons \in {"run", "done", "dropped"}

\* C05: the consumer sees f(x0), f(x1), ... in input order, nothing lost/duplicated
InOrder == \A k \in 1..Len(out) : out[k] = k - 1
\* C05: each input is processed at most once, and exactly once when the stream ended
AtMostOnce == \A i \in 0..(N - 1) : calls[i] <= 1
Complete == (cons = "done" /\ Fail = {}) =>
               /\ Len(out) = len
               /\ \A i \in 0..(len - 1) : calls[i] = 1
\* C09: bounded look-ahead, a constant of thread count and channel size only
LookAhead == src <= Len(out) + Cap + W
\* C09: after the drop at most one further pull per worker
AfterDrop == cons = "dropped" => src <= srcAtDrop + W

\* mechanism invariants that explain why the above hold
TurnInv == /\ \A w \in Workers : pc[w] \in {"ready", "sent"} => sendNext = tk[w]
           /\ \A v, w \in Workers : (v # w /\ pc[v] \in {"taken", "computed", "ready", "sent"}
                                         /\ pc[w] \in {"taken", "computed", "ready", "sent"}) => tk[v] # tk[w]
           /\ sendNext <= src

\* the inductive invariant of spec/apalache/PipeInd.tla (proved there for every upstream length) read on this model:
\* nChan = Len(chan), nOut = Len(out), nSent = sendNext (+ 1 while a successful send waits for its Advance)
Active(w) == pc[w] \in {"taken", "computed", "ready", "sent"}
SentOk == \E w \in Workers : pc[w] = "sent" /\ sok[w]
MayTake == {w \in Workers : pc[w] = "top" \/ (pc[w] = "sent" /\ sok[w])}
IndInvHere == (Fail = {}) =>
    /\ \A w \in Workers : Active(w) => (sendNext <= tk[w] /\ tk[w] < src)
    /\ {tk[w] : w \in {v \in Workers : Active(v)}} = sendNext..(src - 1)
    /\ Cardinality({w \in Workers : Active(w)}) = src - sendNext
    /\ cons # "dropped" => /\ Len(out) + Len(chan) = sendNext + (IF SentOk THEN 1 ELSE 0)
                           /\ out \o chan = [k \in 1..(Len(out) + Len(chan)) |-> k - 1]
    /\ \A w \in Workers : (pc[w] = "sent" /\ ~sok[w]) => cons = "dropped"
    /\ (cons # "dropped" /\ \E w \in Workers : pc[w] = "exit") => src = len
    /\ cons = "dropped" => (chan = <<>> /\ srcAtDrop <= src /\ src + Cardinality(MayTake) <= srcAtDrop + W)

\* C05: the iteration ends after the last item
Terminates == <>(cons = "done" \/ cons = "dropped" \/ aborted)
\* C09: after a drop every worker exits
StopsAfterDrop == (cons = "dropped") ~> (\A w \in Workers : Gone(w))
\* C09: a panicking item terminates the process instead of blocking the consumer forever
NoWedge == <>(aborted \/ cons = "done" \/ cons = "dropped")
=============================================================================
