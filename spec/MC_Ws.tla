-------------------------------- MODULE MC_Ws --------------------------------
(***************************************************************************)
(* Design-level checks for C10 / C11 / C14 over all texts up to MaxLen     *)
(* over {space, tab, a, b}: the state is one text (and for the alignment   *)
(* machine a second clean text with the same non-whitespace content, and a *)
(* coin vector for the corruption).  Invariants state the properties of    *)
(* the specification functions themselves.                                 *)
(***************************************************************************)
EXTENDS Ws, TLC
CONSTANTS MaxLen
Sym == {SP, [c |-> <<2>>, w |-> TRUE, m |-> FALSE, s |-> FALSE],
        [c |-> <<3>>, w |-> FALSE, m |-> FALSE, s |-> FALSE], [c |-> <<4, 5>>, w |-> FALSE, m |-> FALSE, s |-> FALSE]}
Texts == UNION {[1..k -> Sym] : k \in 0..MaxLen}

VARIABLES t, u, stage
vars == <<t, u, stage>>
\* stage 0: t chosen; stage 1: u = a clean respacing of t's content
Init == t \in Texts /\ u = <<>> /\ stage = 0
Respace == /\ stage = 0
           /\ \E v \in Texts : IsClean(v) /\ Cps(NoWs(v)) = Cps(NoWs(t)) /\ u' = v
           /\ stage' = 1 /\ t' = t
Next == Respace
Spec == Init /\ [][Next]_vars

\* C11
CleanIsNormalForm == LET cl == Clean(t) IN
    /\ IsClean(cl) /\ Cps(NoWs(cl)) = Cps(NoWs(t))
    /\ Clean(cl) = cl
    /\ cl = Join(Words(t))
    /\ \A k \in 1..Len(WordBounds(t)) : WordBounds(t)[k][1] < WordBounds(t)[k][2]
    /\ Cps(RemoveWs(t)) = Cps(NoWs(t))
    /\ IsClean(FullWs(t)) /\ Len(FullWs(t)) = IF NoWs(t) = <<>> THEN 0 ELSE 2 * Len(NoWs(t)) - 1
\* C10: for clean from / to with equal content the alignment succeeds and repair inverts it
OpsRepairInverse == stage = 1 =>
    LET f == Clean(t) IN
    /\ Ops(f, u) # <<"fail">> /\ Len(Ops(f, u)) = Len(f) /\ Repair(f, Ops(f, u)) = u
    /\ Ops(u, f) # <<"fail">> /\ Len(Ops(u, f)) = Len(u) /\ Repair(u, Ops(u, f)) = f
\* C10: repair only touches whitespace, all-Keep is the identity (for every op sequence)
RepairOnlyWhitespace ==
    /\ Repair(t, [k \in 1..Len(t) |-> "k"]) = t
    /\ \A ops \in [1..Len(t) -> {"k", "i", "d"}] : Cps(NoWs(Repair(t, ops))) = Cps(NoWs(t))
\* C14: every possible corruption of a clean text is clean, keeps the content, is repairable
CorruptionRepairable == stage = 1 =>
    LET f == Clean(t) IN
    (Corrupted(f, u, "mid", "mid") =>
        /\ Len(Ops(u, f)) = Len(u) /\ Ops(u, f) # <<"fail">> /\ Repair(u, Ops(u, f)) = f)
=============================================================================
