------------------------------- MODULE Gen_Lines -------------------------------
(* Files up to MaxLen bytes over {LF, CR, a, 195, 164, 255} (valid two-byte sequence, lone lead / continuation byte,  *)
(* invalid byte), and jsonl files of up to MaxLines lines of 8 kinds x 3 terminator styles.                         *)
EXTENDS Naturals, Sequences, FiniteSets, SequencesExt, TLC, Json, IOUtils
CONSTANTS MaxLen, MaxLines
ByteFiles == IF IOEnv.FAMILY # "bytes" THEN {} ELSE
    {[kind |-> "bytes", bytes |-> b] : b \in UNION {[1..n -> {10, 13, 97, 195, 164, 255}] : n \in 0..MaxLen}}
Kinds == {"io", "it", "in", "tn", "mi", "no", "bad", "empty"}
JsonFiles == IF IOEnv.FAMILY # "jsonl" THEN {} ELSE
    {[kind |-> "jsonl", lines |-> l, term |-> t, last |-> e] :
        l \in UNION {[1..n -> Kinds] : n \in 0..MaxLines}, t \in {"lf", "crlf"}, e \in BOOLEAN}
Cases == ByteFiles \cup JsonFiles
VARIABLE x
Init == x = 0 /\ ndJsonSerialize(IOEnv.OUT, SetToSeq(Cases))
Next == UNCHANGED x
=============================================================================
