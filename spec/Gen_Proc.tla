------------------------------- MODULE Gen_Proc -------------------------------
(***************************************************************************)
(* Enumerates preprocessing configurations x (input, target) pairs x seeds *)
(* for replay into the real preprocessing() (extension X02).               *)
(* Texts are slot sequences of the harness alphabet "cleanpair" (1 space,  *)
(* 2 a, 3 b, 4 a-umlaut (2 bytes), 5 e + combining acute (cluster)); the   *)
(* target is a respacing of the input's content or a different text.       *)
(***************************************************************************)
EXTENDS Naturals, Sequences, FiniteSets, SequencesExt, TLC, Json, IOUtils
CONSTANTS MaxLen, Seeds, AllTargets

Parts == {"i", "t"}
Prims == {[op |-> "none"]}
         \cup {[op |-> o, part |-> p] : o \in {"clean", "nows", "fullws", "over"}, p \in Parts}
         \cup {[op |-> "mark", key |-> "k", val |-> v] : v \in {"x", "y"}}
         \cup {[op |-> "pre", part |-> p, txt |-> <<2, 1>>] : p \in Parts}
         \cup {[op |-> "suf", part |-> p, txt |-> <<1, 4>>] : p \in Parts}
         \cup {[op |-> "csub", max |-> m] : m \in {1, 2}}
         \cup {[op |-> "bsub", max |-> m] : m \in {1, 3}}
Few == {[op |-> "none"], [op |-> "clean", part |-> "i"], [op |-> "fullws", part |-> "t"], [op |-> "over", part |-> "t"],
        [op |-> "csub", max |-> 2], [op |-> "bsub", max |-> 3], [op |-> "mark", key |-> "k", val |-> "x"],
        [op |-> "suf", part |-> "i", txt |-> <<1, 4>>]}
Inner == {[op |-> "chain", kids |-> <<[op |-> "nows", part |-> "i"], [op |-> "bsub", max |-> 3]>>],
          [op |-> "switch", kids |-> <<[op |-> "over", part |-> "t"], [op |-> "fullws", part |-> "t"]>>, cum |-> <<250000, 1000000>>]}
Trees == Prims
         \cup {[op |-> "chain", kids |-> k] : k \in UNION {[1..n -> Few] : n \in {0, 2}}}
         \cup {[op |-> "switch", kids |-> k, cum |-> <<500000, 1000000>>] : k \in [1..2 -> Few]}
         \cup {[op |-> "chain", kids |-> <<a, b>>] : a \in Inner, b \in Few \cup Inner}
         \cup {[op |-> "switch", kids |-> <<a, b, c>>, cum |-> <<300000, 600000, 1000000>>] : a \in Inner, b \in {[op |-> "none"]}, c \in Inner}

RECURSIVE Spaced(_, _, _)
Spaced(content, gaps, k) ==
    IF k > Len(content) THEN <<>>
    ELSE (IF (k - 1) \in gaps THEN <<1>> ELSE <<>>) \o <<content[k]>> \o Spaced(content, gaps, k + 1)
Contents == UNION {[1..k -> {2, 4, 5}] : k \in 0..MaxLen}
\* gaps 0..Len: 0 = leading space; Len = trailing space (appended)
Txt(cn, gaps) == Spaced(cn, gaps, 1) \o (IF Len(cn) \in gaps THEN <<1>> ELSE <<>>)
\* target spacings: every one (AllTargets), or none / everywhere / the same as the input
TGaps(cn, gi) == IF AllTargets THEN SUBSET (0..Len(cn)) ELSE {{}, 0..Len(cn), gi}
Pairs == UNION {UNION {{<<Txt(cn, gi), Txt(cn, gt)>> : gt \in TGaps(cn, gi)} : gi \in SUBSET (0..Len(cn))} : cn \in Contents}
         \cup {<<<<2, 4>>, <<4, 2>>>>, <<<<2, 1, 5>>, <<2>>>>, <<<<2>>, <<>>>>}
Cases == {[cfg |-> c, islots |-> p[1], tslots |-> p[2], alpha |-> "cleanpair", g |-> g, seed |-> sd] :
            c \in Trees, p \in Pairs, g \in BOOLEAN, sd \in 0..(Seeds - 1)}
VARIABLE x
Init == x = 0 /\ ndJsonSerialize(IOEnv.OUT, SetToSeq(Cases))
Next == UNCHANGED x
=============================================================================
