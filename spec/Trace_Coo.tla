------------------------------ MODULE Trace_Coo ------------------------------
(***************************************************************************)
(* C17, second half: the sparse aggregation matrix built from a batch of   *)
(* token groupings, the padding mask, and padded id / label matrices.      *)
(* A group is [t: "f" | "e" | "n", n, s] as in Tok.tla; weights are logged  *)
(* as round(w * 10^6).                                                     *)
(***************************************************************************)
EXTENDS Tok, TLC, Json, IOUtils
Rec == ndJsonDeserialize(IOEnv.OBS)
NChunks == atoi(IOEnv.NCHUNKS)
VARIABLES c, i, nfail, nskip, nnt, ndrift

M == 1000000
Abs(x, y) == IF x >= y THEN x - y ELSE y - x
Sum(s) == FoldLeft(LAMBDA x, y : x + y, 0, s)
\* expected weights of the tokens of one group as exact rationals <<num, den>> (mean aggregation)
RECURSIVE GroupWeights(_, _)
GroupWeights(gr, den) ==
    IF gr.t = "n" THEN FlattenSeq([k \in 1..Len(gr.s) |-> GroupWeights(gr.s[k], den * Len(gr.s))])
    ELSE IF gr.t = "f" THEN [k \in 1..gr.n |-> <<1, den * gr.n>>]
    ELSE [k \in 1..gr.n |-> <<0, 1>>]

\* token positions of item b: offset of the item in the flat entry list
Offset(lens, b) == Sum(SubSeq(lens, 1, b - 1))

\* the aggregation of item b (a batch may mix groupings with mean and with sum aggregation)
IsMean(r, b) == IF "means" \in DOMAIN r THEN r.means[b] ELSE r.mean
ItemOk(r, b) ==
    LET gs == r.groups[b]
        off == Offset(r.lengths, b)
        n == r.lengths[b]
        glens == [k \in 1..Len(gs) |-> GroupLen(gs[k])]
        \* group index (0-based) and expected weight of the p-th token (1-based) of the item
        startOf(k) == Sum(SubSeq(glens, 1, k - 1))
        groupOf(p) == CHOOSE k \in 1..Len(gs) : startOf(k) < p /\ p <= startOf(k) + glens[k]
        wts(k) == GroupWeights(gs[k], 1)
    IN /\ Sum(glens) = n
       /\ \A p \in 1..n :
            LET e == off + p  k == groupOf(p)  w == wts(k)[p - startOf(k)] IN
            /\ r.coo.b[e] = b - 1 /\ r.coo.g[e] = k - 1 /\ r.coo.t[e] = p - 1
            /\ IF IsMean(r, b) THEN Abs(r.coo.w[e] * w[2], w[1] * M) <= w[2] ELSE r.coo.w[e] = M
       /\ IsMean(r, b) => \A k \in 1..Len(gs) : glens[k] > 0 =>
                       Abs(Sum([p \in 1..glens[k] |-> r.coo.w[off + startOf(k) + p]]), M) <= glens[k]

MaxOf(s) == IF s = <<>> THEN 0 ELSE CHOOSE m \in ToSet(s) : \A x \in ToSet(s) : x <= m
PadOk(rows, cols, flat, ins, pad) ==     \* each row = the item's values followed only by padding
    /\ rows = Len(ins) /\ cols = MaxOf([k \in 1..Len(ins) |-> Len(ins[k])]) /\ Len(flat) = rows * cols
    /\ \A b \in 1..rows : \A p \in 1..cols :
          flat[(b - 1) * cols + p] = IF p <= Len(ins[b]) THEN ins[b][p] ELSE pad

JudgeOk(r) ==
    LET B == Len(r.groups)
        total == Sum(r.lengths)
        cl == <<
          <<"one_entry_per_token", Len(r.coo.b) = total /\ Len(r.coo.g) = total /\ Len(r.coo.t) = total /\ Len(r.coo.w) = total>>,
          <<"indices_inside_declared_size",
              /\ r.coo.size = <<B, MaxOf([b \in 1..B |-> Len(r.groups[b])]), MaxOf(r.lengths)>>
              /\ \A e \in 1..Len(r.coo.b) : r.coo.b[e] < r.coo.size[1] /\ r.coo.g[e] < r.coo.size[2] /\ r.coo.t[e] < r.coo.size[3]>>,
          <<"entries_and_weights_per_group", Len(r.coo.b) = total => \A b \in 1..B : ItemOk(r, b)>>,
          <<"group_lengths_reported", r.coo.gl = [b \in 1..B |-> Len(r.groups[b])]>>,
          <<"padding_mask", r.mask.rows = B /\ r.mask.cols = MaxOf(r.coo.gl)
                            /\ \A b \in 1..B : \A p \in 1..r.mask.cols : r.mask.v[(b - 1) * r.mask.cols + p] = (p <= r.coo.gl[b])>>,
          <<"padded_ids_are_values_then_padding", PadOk(r.tensor.rows, r.tensor.cols, r.tensor.ids, r.tensor.in_ids, r.pad_id)>>,
          <<"padded_labels_are_values_then_padding", PadOk(r.tensor.lrows, r.tensor.lcols, r.tensor.labels, r.tensor.in_labels, 0)>>,
          <<"true_lengths_reported", r.tensor.lens = [b \in 1..Len(r.tensor.in_ids) |-> Len(r.tensor.in_ids[b])]>>,
          \* the matrices of the other task kinds (generation, classification, conditional generation: ids, target ids with a
          \* pad id of their own, labels) over the same batch
          <<"every_task_kind_pads_values_then_padding",
              \A k \in 1..Len(r.others) : LET o == r.others[k] IN
                  /\ PadOk(o.rows, o.cols, o.flat, o.items, o.pad)
                  /\ (o.has_lens => o.lens = [b \in 1..Len(o.items) |-> Len(o.items[b])])>>
        >>
        bad == SelectSeq(cl, LAMBDA x : ~x[2])
    IN [why |-> [k \in 1..Len(bad) |-> bad[k][1]], drift |-> <<>>, skip |-> FALSE,
        nt |-> B >= 2 /\ \E b \in 1..B : r.lengths[b] # r.lengths[1]]

Judge(r) == IF r.st # "ok" THEN [why |-> <<r.st>>, drift |-> <<>>, skip |-> FALSE, nt |-> FALSE] ELSE JudgeOk(r)
INSTANCE Stepper
=============================================================================
