------------------------------ MODULE TextAbs ------------------------------
(***************************************************************************)
(* The abstract model of text shared by all text-valued specifications.    *)
(*                                                                         *)
(* A text is a sequence of symbols.  A symbol is what the library calls a  *)
(* Character (a code point, or a grapheme cluster in grapheme mode),       *)
(* described only by what the code can observe of it:                      *)
(*   i : identity (equal strings <=> equal i)                              *)
(*   w : all of its code points are Unicode White_Space                    *)
(*   n : UTF-8 byte length                (where a spec needs bytes)       *)
(*   m : some but not all code points are whitespace ("mixed" cluster)     *)
(*   c : number of code points, cb : byte length of every code point       *)
(* Specs only read the fields they need, so shorter records are fine.      *)
(***************************************************************************)
EXTENDS Naturals, Sequences, FiniteSets, SequencesExt

Min2(x, y) == IF x <= y THEN x ELSE y
Max2(x, y) == IF x >= y THEN x ELSE y
Inf == 1000000

RECURSIVE SeqMinAcc(_, _, _)
SeqMinAcc(s, k, acc) == IF k > Len(s) THEN acc ELSE SeqMinAcc(s, k + 1, Min2(acc, s[k]))
SeqMin(s) == SeqMinAcc(s, 1, Inf)

RECURSIVE SeqSumAcc(_, _, _)
SeqSumAcc(s, k, acc) == IF k > Len(s) THEN acc ELSE SeqSumAcc(s, k + 1, acc + s[k])
SeqSum(s) == SeqSumAcc(s, 1, 0)

Ids(s) == [k \in 1..Len(s) |-> s[k].i]
NoWs(s) == SelectSeq(s, LAMBDA x : ~x.w)
NoWsIds(s) == Ids(NoWs(s))
SameText(s, t) == Ids(s) = Ids(t)

\* all sequences over S with length <= n
SeqsUpTo(S, n) == UNION {[1..k -> S] : k \in 0..n}

\* A text is whitespace-clean: single non-leading, non-trailing whitespace symbols
\* (the library additionally writes them as U+0020; see Clean.tla)
NoDoubleWs(s) == /\ \A k \in 1..Len(s) - 1 : ~(s[k].w /\ s[k + 1].w)
                 /\ (Len(s) > 0 => ~s[1].w /\ ~s[Len(s)].w)
=============================================================================
