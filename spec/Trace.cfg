INIT SInit
NEXT SNext
INVARIANT SInv
CHECK_DEADLOCK FALSE
