----------------------------- MODULE Gen_Metrics -----------------------------
(***************************************************************************)
(* Enumerates inputs of the correction metrics for replay of C13.          *)
(*  "spelling"   : all triples (input, prediction, target) of word         *)
(*                 sequences up to MaxLen over the words x, y, xy (slots   *)
(*                 1, 3, 4: changed, merged and split words), incl. empty, *)
(*                 as one-sequence lists, x beta in {1/2, 1, 2}            *)
(*  "whitespace" : all respacings of every content up to MaxLen + 1 chars  *)
(*                 over {a, b} for input / prediction / target x 3 modes   *)
(*  "binary"     : all pairs of boolean vectors up to length MaxLen + 1    *)
(***************************************************************************)
EXTENDS Naturals, Sequences, FiniteSets, SequencesExt, TLC, Json, IOUtils
CONSTANTS MaxLen
Fam(f) == IOEnv.FAMILY = f
SeqsOver(S, n) == UNION {[1..k -> S] : k \in 0..n}
Betas == {<<0, 1>>, <<1, 2>>, <<1, 1>>, <<2, 1>>}      \* beta = 0 (precision only) is the boundary of the range

WS == SeqsOver({1, 3, 4}, MaxLen)
\* predictions also use slot 7 = xxy: "x y" with a letter written where the blank was
WSP == SeqsOver({1, 3, 4, 7}, MaxLen)
Spelling == IF ~Fam("spelling") THEN {} ELSE
    {[kind |-> "spelling", input |-> <<a>>, pred |-> <<p>>, target |-> <<t>>, bn |-> b[1], bd |-> b[2], g |-> FALSE, lead |-> FALSE] :
        a \in WS, p \in WSP, t \in WS, b \in Betas}
    \* lead: every text starts with the same word of three two-code-point characters, grapheme mode
    \cup {[kind |-> "spelling", input |-> <<a>>, pred |-> <<p>>, target |-> <<t>>, bn |-> 1, bd |-> 1, g |-> TRUE, lead |-> TRUE] :
        a \in WS, p \in WSP, t \in WS}

RECURSIVE Spaced(_, _, _)
Spaced(content, gaps, k) ==
    IF k > Len(content) THEN <<>>
    ELSE (IF k > 1 /\ (k - 1) \in gaps THEN <<1>> ELSE <<>>) \o <<content[k]>> \o Spaced(content, gaps, k + 1)
WsOf(cn) == {[kind |-> "whitespace", alpha |-> "cleanpair", input |-> <<Spaced(cn, gi, 1)>>, pred |-> <<Spaced(cn, gp, 1)>>,
              target |-> <<Spaced(cn, gt, 1)>>, bn |-> 1, bd |-> 1, g |-> TRUE, mode |-> m] :
               gi \in SUBSET (1..(Len(cn) - 1)), gp \in SUBSET (1..(Len(cn) - 1)), gt \in SUBSET (1..(Len(cn) - 1)),
               m \in {"insertions", "deletions", "both"}}
Whitespace == IF ~Fam("whitespace") THEN {} ELSE UNION {WsOf(cn) : cn \in SeqsOver({2, 3}, MaxLen + 1)}

BV == SeqsOver(BOOLEAN, MaxLen + 1)
Binary == IF ~Fam("binary") THEN {} ELSE
    {[kind |-> "binary", p |-> p, t |-> t, bn |-> b[1], bd |-> b[2]] : p \in BV, t \in {x \in BV : TRUE}, b \in Betas}

Cases == Spelling \cup Whitespace \cup {c \in Binary : Len(c.p) = Len(c.t)}
VARIABLE x
Init == x = 0 /\ ndJsonSerialize(IOEnv.OUT, SetToSeq(Cases))
Next == UNCHANGED x
=============================================================================
