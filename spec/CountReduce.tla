---------------------------- MODULE CountReduce ----------------------------
(***************************************************************************)
(* The counting stage shared by train_bpe (C19) and Dictionary::create     *)
(* (C20): W worker threads take lines from a shared iterator under a mutex,*)
(* count the line and send the partial counts through a bounded channel;   *)
(* the calling thread reduces (sums) until every sender is gone.           *)
(* Each line is identified with its index; `counted[l]` is how often line  *)
(* l has been added to the result.                                         *)
(* Property: the result is the sum over all lines exactly once, for every  *)
(* schedule and every thread count, and the reducer terminates.            *)
(***************************************************************************)
EXTENDS Naturals, Sequences, FiniteSets
CONSTANTS W, L, Cap
VARIABLES next, pc, held, chan, counted, done
vars == <<next, pc, held, chan, counted, done>>
Workers == 1..W

Init == /\ next = 1 /\ pc = [w \in Workers |-> "take"] /\ held = [w \in Workers |-> 0]
        /\ chan = <<>> /\ counted = [l \in 1..L |-> 0] /\ done = FALSE

Take(w) == /\ pc[w] = "take"
           /\ IF next <= L
              THEN /\ held' = [held EXCEPT ![w] = next] /\ next' = next + 1
                   /\ pc' = [pc EXCEPT ![w] = "send"]
              ELSE /\ pc' = [pc EXCEPT ![w] = "exit"] /\ UNCHANGED <<held, next>>
           /\ UNCHANGED <<chan, counted, done>>

\* Cap = 0 is a rendezvous channel: the send completes together with the receive
Send(w) == /\ pc[w] = "send"
           /\ IF Cap = 0
              THEN /\ counted' = [counted EXCEPT ![held[w]] = @ + 1] /\ chan' = chan
              ELSE /\ Len(chan) < Cap /\ chan' = Append(chan, held[w]) /\ counted' = counted
           /\ pc' = [pc EXCEPT ![w] = "take"]
           /\ UNCHANGED <<next, held, done>>

Reduce == /\ chan # <<>>
          /\ counted' = [counted EXCEPT ![Head(chan)] = @ + 1]
          /\ chan' = Tail(chan)
          /\ UNCHANGED <<next, pc, held, done>>

Finish == /\ ~done /\ chan = <<>> /\ \A w \in Workers : pc[w] = "exit"
          /\ done' = TRUE
          /\ UNCHANGED <<next, pc, held, chan, counted>>

Next == (\E w \in Workers : Take(w) \/ Send(w)) \/ Reduce \/ Finish
Spec == Init /\ [][Next]_vars /\ WF_vars(Next) /\ \A w \in Workers : WF_vars(Take(w) \/ Send(w))

AtMostOnce == \A l \in 1..L : counted[l] <= 1
ExactlyOnceAtEnd == done => \A l \in 1..L : counted[l] = 1
Terminates == <>done
=============================================================================
