------------------------------ MODULE Stepper ------------------------------
(***************************************************************************)
(* Generic trace-validation stepper for observation logs of the real code. *)
(*                                                                         *)
(* Rec is the sequence of recorded observations (one ndjson line per real  *)
(* call).  The log is cut into NChunks contiguous chunks, one initial      *)
(* state per chunk, so that TLC's workers validate them in parallel.  Each *)
(* step consumes one record and evaluates Judge on it; a record that       *)
(* breaks a property-layer predicate is reported with PrintT and counted   *)
(* (the stepper does not stop, so that a known finding cannot mask a new   *)
(* violation).  Judge(r) returns                                           *)
(*   [why   : sequence of names of violated property-layer predicates,     *)
(*    drift : sequence of names of mechanism-layer mismatches,             *)
(*    skip  : record is outside the property's precondition,               *)
(*    nt    : record exercises the property non-trivially]                 *)
(***************************************************************************)
EXTENDS Naturals, Sequences, TLC
CONSTANTS Rec, NChunks, Judge(_)
VARIABLES c, i, nfail, nskip, nnt, ndrift
svars == <<c, i, nfail, nskip, nnt, ndrift>>

N == Len(Rec)
Lo(k) == ((k - 1) * N) \div NChunks + 1
Hi(k) == (k * N) \div NChunks

SInit == /\ c \in 1..NChunks
         /\ i = Lo(c)
         /\ nfail = 0 /\ nskip = 0 /\ nnt = 0 /\ ndrift = 0

SStep == /\ i <= Hi(c)
         \* bound through a singleton set so that Judge is evaluated once (TLC re-evaluates
         \* LET definitions at every use inside an action)
         /\ \E v \in {Judge(Rec[i])} :
              /\ IF v.why = <<>> THEN TRUE ELSE PrintT(<<"FAIL", i, v.why>>)
              /\ IF v.drift = <<>> THEN TRUE ELSE PrintT(<<"DRIFT", i, v.drift>>)
              /\ nfail' = nfail + (IF v.why = <<>> THEN 0 ELSE 1)
              /\ ndrift' = ndrift + (IF v.drift = <<>> THEN 0 ELSE 1)
              /\ nskip' = nskip + (IF v.skip THEN 1 ELSE 0)
              /\ nnt' = nnt + (IF v.nt THEN 1 ELSE 0)
         /\ i' = i + 1
         /\ c' = c

SFinish == /\ i = Hi(c) + 1
           /\ PrintT(<<"STAT", c, Hi(c) + 1 - Lo(c), nfail, nskip, nnt, ndrift>>)
           /\ i' = i + 1
           /\ UNCHANGED <<c, nfail, nskip, nnt, ndrift>>

SNext == SStep \/ SFinish

\* every chunk must be consumed completely (checked by the orchestrator
\* through the STAT lines; as a TLC invariant: the stepper never overruns)
SInv == i <= Hi(c) + 2
=============================================================================
