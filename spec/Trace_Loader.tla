----------------------------- MODULE Trace_Loader -----------------------------
(***************************************************************************)
(* Validates groups of real TrainLoader runs (C08) against Loader.tla.     *)
(* A record is a group: same files / strategy / seed / epoch / pipeline;   *)
(* runs[1] is the reference run (single process, no threads, no skip /     *)
(* limit / fast-forward, one item per batch): its item sequence G defines  *)
(* the global index of every item.  Items are [f, l, inp, tgt, tid]:       *)
(* source file and line, and interned ids of the processed input text,     *)
(* the target text and the token ids + labels.                             *)
(***************************************************************************)
EXTENDS TLC, Json, IOUtils, Naturals, Integers, Sequences, FiniteSets, SequencesExt
Rec == ndJsonDeserialize(IOEnv.OBS)
NChunks == atoi(IOEnv.NCHUNKS)
VARIABLES c, i, nfail, nskip, nnt, ndrift

L == INSTANCE Loader WITH MaxN <- 0, MaxWorld <- 1, n <- 0, skip <- 0, limit <- 0, ff <- 0, world <- 1, i <- 0, out <- <<>>
MG == INSTANCE MultiGen WITH MaxSrc <- 0, MaxLen <- 0, Strategy <- "", Buggy <- FALSE,
                                lens <- <<>>, pos <- <<>>, fin <- <<>>, idx <- 0, out <- <<>>, done <- FALSE, hang <- FALSE

Flat(run) == FlattenSeq(run.batches)
Key(it) == <<it.f, it.l>>
Keys(items) == [k \in 1..Len(items) |-> Key(items[k])]
KeySet(items) == {Key(items[k]) : k \in 1..Len(items)}
SameCfg(a, b) == /\ a.rank = b.rank /\ a.world = b.world /\ a.skip = b.skip /\ a.limit = b.limit /\ a.ff = b.ff
                 /\ a.shuffle = b.shuffle /\ a.sort = b.sort /\ a.prefetch = b.prefetch
                 /\ a.batch_limit = b.batch_limit /\ a.ltype = b.ltype
SameButRank(a, b) == /\ a.world = b.world /\ a.skip = b.skip /\ a.limit = b.limit /\ a.ff = b.ff
                     /\ a.shuffle = b.shuffle /\ a.sort = b.sort /\ a.prefetch = b.prefetch
                     /\ a.batch_limit = b.batch_limit /\ a.ltype = b.ltype

\* Lines that cannot be parsed (r.bad, keys <<file, line>>) are dropped by the loader *after* the index selection: they keep
\* their place in the enumeration.  With such lines the global order cannot be read off the reference run; it is the
\* MultiGen order of the files (sequential / interleaved only).
JudgeWith(r, G) ==
    LET badKeys == IF "bad" \in DOMAIN r THEN {<<r.bad[k][1], r.bad[k][2]>> : k \in 1..Len(r.bad)} ELSE {}
        ord == IF r.strategy = "sequential" THEN MG!Concat(r.lens) ELSE MG!RoundRobin(r.lens)
        gk == IF badKeys = {} THEN Keys(G) ELSE [x \in 1..Len(ord) |-> <<ord[x][1] - 1, ord[x][2]>>]
        N == Len(gk)
        Good(s) == SelectSeq(s, LAMBDA key : key \notin badKeys)
        runs == r.runs
        R == 1..Len(runs)
        pick(sel) == {gk[x + 1] : x \in sel} \ badKeys
        procOf(key) == G[CHOOSE p \in 1..Len(G) : Key(G[p]) = key]
        known(run) == \A k \in 1..Len(Flat(run)) : Key(Flat(run)[k]) \in KeySet(G)
        allKnown == \A k \in R : known(runs[k])
        cl == <<
          <<"items_come_from_the_files", allKnown /\ KeySet(G) = {gk[x] : x \in 1..N} \ badKeys /\ Cardinality(KeySet(G)) = Len(G)>>,
          <<"each_global_index_processed_identically",
              allKnown => \A k \in R : \A p \in 1..Len(Flat(runs[k])) :
                  LET it == Flat(runs[k])[p]  g == procOf(Key(it)) IN it.inp = g.inp /\ it.tid = g.tid /\ it.tgt = g.tgt>>,
          <<"identical_for_every_thread_count_and_buffer_size",
              \A a, b \in R : SameCfg(runs[a], runs[b]) => runs[a].batches = runs[b].batches>>,
          <<"rank_streams_disjoint",
              \A a, b \in R : (SameButRank(runs[a], runs[b]) /\ runs[a].rank # runs[b].rank)
                                 => KeySet(Flat(runs[a])) \cap KeySet(Flat(runs[b])) = {}>>,
          <<"union_of_ranks_is_the_single_process_stream",
              \A a \in R : (\A rk \in 0..(runs[a].world - 1) : \E b \in R : SameButRank(runs[a], runs[b]) /\ runs[b].rank = rk)
                  => UNION {KeySet(Flat(runs[b])) : b \in {x \in R : SameButRank(runs[a], runs[x])}}
                       = pick(L!Selected(N, runs[a].skip, runs[a].limit, runs[a].ff, 0, 1))>>,
          <<"no_item_twice", \A k \in R : Cardinality(KeySet(Flat(runs[k]))) = Len(Flat(runs[k]))>>,
          <<"fast_forward_is_the_stream_after_its_first_k",
              \A k \in R : runs[k].world = 1 =>
                  LET whole == L!SelectedSeq(N, runs[k].skip, runs[k].limit, 0, 0, 1)
                      rest == SubSeq(whole, L!Min2(runs[k].ff, Len(whole)) + 1, Len(whole))
                      want == Good([x \in 1..Len(rest) |-> gk[rest[x] + 1]])
                  IN IF runs[k].shuffle \/ runs[k].sort THEN KeySet(Flat(runs[k])) = {want[x] : x \in 1..Len(want)}
                     ELSE Keys(Flat(runs[k])) = want>>,
          <<"no_empty_batch", \A k \in R : \A b \in 1..Len(runs[k].batches) : runs[k].batches[b] # <<>>>>
        >>
        bad == SelectSeq(cl, LAMBDA x : ~x[2])
        exact == \A k \in R :
                    LET sel == L!SelectedSeq(N, runs[k].skip, runs[k].limit, runs[k].ff, runs[k].rank, runs[k].world)
                        want == Good([x \in 1..Len(sel) |-> gk[sel[x] + 1]])
                    IN IF runs[k].shuffle \/ runs[k].sort THEN KeySet(Flat(runs[k])) = {want[x] : x \in 1..Len(want)}
                       ELSE Keys(Flat(runs[k])) = want
        order == r.strategy = "weighted" \/ badKeys # {} \/ [x \in 1..N |-> <<gk[x][1] + 1, gk[x][2]>>] = (IF r.strategy = "sequential" THEN MG!Concat(r.lens) ELSE MG!RoundRobin(r.lens))
        minItems == \A k \in R : runs[k].min_items = L!MinItems(N, runs[k].skip, runs[k].limit)
    IN [why |-> [k \in 1..Len(bad) |-> bad[k][1]],
        drift |-> (IF exact THEN <<>> ELSE <<"selection_differs_from_closed_form">>)
                  \o (IF order THEN <<>> ELSE <<"reference_order_differs_from_MultiGen">>)
                  \o (IF minItems THEN <<>> ELSE <<"min_items_differs">>),
        skip |-> FALSE,
        \* non-trivial: some run other than the reference yields at least two items
        nt |-> \E k \in R : k > 1 /\ Len(Flat(runs[k])) >= 2]

Judge(r) ==
    IF r.st # "ok" THEN [why |-> <<r.st>>, drift |-> <<>>, skip |-> FALSE, nt |-> TRUE]
    ELSE CHOOSE y \in {JudgeWith(r, G) : G \in {Flat(r.runs[1])}} : TRUE
INSTANCE Stepper
=============================================================================
