------------------------------ MODULE EditWord ------------------------------
(***************************************************************************)
(* edit_word of src/corrupt.rs (C15): one random edit of a word that never *)
(* touches excluded positions, with re-indexing of the exclusion set.      *)
(*                                                                         *)
(* A word is a sequence of symbol ids (>= 1).  BOW / EOW stand for the     *)
(* "<bow>" / "<eow>" context markers.  Tables:                             *)
(*   ins : set of [p, s, e]      insert context (prev, next) -> edit strings e (sequences)   *)
(*   rep : set of [p, s, n, e]   replace context (prev, cur, next) -> edit strings           *)
(*   del : set of deletable symbols, fullDelete; swp : set of swappable symbols             *)
(* excl is a set of 0-based positions.  Outcomes(kind) is the set of       *)
(* <<word', excl'>> one call may return when it picked `kind`.             *)
(***************************************************************************)
EXTENDS Naturals, Sequences, FiniteSets, SequencesExt

BOW == 9001
EOW == 9002
At(w, i) == IF i < 0 THEN BOW ELSE IF i >= Len(w) THEN EOW ELSE w[i + 1]     \* 0-based access with markers
Prev(w, i) == IF i = 0 THEN BOW ELSE w[i]
Splice(w, from, to, e) == SubSeq(w, 1, from) \o e \o SubSeq(w, to + 1, Len(w))  \* replace 0-based [from, to) by e

InsertExact(w, excl, ins) ==
    LET cands == {c \in {<<i, t>> : i \in 0..Len(w), t \in ins} :
                     /\ c[1] \notin excl /\ (c[1] = 0 \/ (c[1] - 1) \notin excl)
                     /\ c[2].p = Prev(w, c[1]) /\ c[2].s = At(w, c[1])}
    IN IF cands = {} THEN {<<w, excl>>}
       ELSE UNION {{<<Splice(w, c[1], c[1], e),
                      {IF x >= c[1] THEN x + Len(e) ELSE x : x \in excl} \cup {c[1] + k : k \in 0..(Len(e) - 1)}>> :
                        e \in c[2].e} : c \in cands}

DeleteExact(w, excl, del, fullDelete) ==
    LET cands == {i \in 0..(Len(w) - 1) : i \notin excl /\ w[i + 1] \in del /\ (fullDelete \/ Len(w) > 1)}
    IN IF cands = {} THEN {<<w, excl>>}
       ELSE {<<Splice(w, i, i + 1, <<>>), {IF x > i THEN x - 1 ELSE x : x \in excl}>> : i \in cands}

ReplaceExact(w, excl, rep) ==
    LET cands == {c \in {<<i, t>> : i \in 0..(Len(w) - 1), t \in rep} :
                     /\ c[1] \notin excl
                     /\ c[2].p = Prev(w, c[1]) /\ c[2].s = w[c[1] + 1] /\ c[2].n = At(w, c[1] + 1)}
    IN IF cands = {} THEN {<<w, excl>>}
       ELSE UNION {{<<Splice(w, c[1], c[1] + 1, e),
                      {IF x > c[1] THEN x + Len(e) - 1 ELSE x : x \in excl} \cup {c[1] + k : k \in 0..(Len(e) - 1)}>> :
                        e \in c[2].e} : c \in cands}

SwapExact(w, excl, swp) ==
    LET cands == {i \in 0..(Len(w) - 2) : i \notin excl /\ (i + 1) \notin excl /\ w[i + 1] \in swp /\ w[i + 2] \in swp}
    IN IF Len(w) <= 1 \/ cands = {} THEN {<<w, excl>>}
       ELSE {<<Splice(w, i, i + 2, <<w[i + 2], w[i + 1]>>), excl \cup {i, i + 1}>> : i \in cands}

\* kinds: subset of {"i", "d", "r", "s"}; tb = [ins, rep, del, fullDelete, swp]
Exact(w, excl, kinds, tb) ==
    IF kinds = {} THEN {<<w, excl>>}
    ELSE (IF "i" \in kinds THEN InsertExact(w, excl, tb.ins) ELSE {})
         \cup (IF "d" \in kinds THEN DeleteExact(w, excl, tb.del, tb.fullDelete) ELSE {})
         \cup (IF "r" \in kinds THEN ReplaceExact(w, excl, tb.rep) ELSE {})
         \cup (IF "s" \in kinds THEN SwapExact(w, excl, tb.swp) ELSE {})

-----------------------------------------------------------------------------
\* Property layer (what the statement promises, independent of the candidate rules):
\* the result is the word itself, or one edit of an enabled kind at a position that is
\* not excluded, with a string of the tables; the exclusion set is re-indexed and extended
AllEdits(tb, which) == IF which = "i" THEN UNION {t.e : t \in tb.ins} ELSE UNION {t.e : t \in tb.rep}
OneEdit(w, excl, kinds, tb, w2, excl2) ==
    \/ (w2 = w /\ excl2 = excl)
    \/ ("i" \in kinds /\ \E i \in 0..Len(w), e \in AllEdits(tb, "i") :
            /\ w2 = Splice(w, i, i, e)
            /\ excl2 = {IF x >= i THEN x + Len(e) ELSE x : x \in excl} \cup {i + k : k \in 0..(Len(e) - 1)})
    \/ ("d" \in kinds /\ \E i \in 0..(Len(w) - 1) :
            /\ i \notin excl /\ w2 = Splice(w, i, i + 1, <<>>)
            /\ excl2 = {IF x > i THEN x - 1 ELSE x : x \in excl})
    \/ ("r" \in kinds /\ \E i \in 0..(Len(w) - 1), e \in AllEdits(tb, "r") :
            /\ i \notin excl /\ w2 = Splice(w, i, i + 1, e)
            /\ excl2 = {IF x > i THEN x + Len(e) - 1 ELSE x : x \in excl} \cup {i + k : k \in 0..(Len(e) - 1)})
    \/ ("s" \in kinds /\ \E i \in 0..(Len(w) - 2) :
            /\ i \notin excl /\ (i + 1) \notin excl
            /\ w2 = Splice(w, i, i + 2, <<w[i + 2], w[i + 1]>>) /\ excl2 = excl \cup {i, i + 1})
ExclWithin(w2, excl2) == \A x \in excl2 : x < Len(w2)
=============================================================================
