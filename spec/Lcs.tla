--------------------------------- MODULE Lcs ---------------------------------
(***************************************************************************)
(* Word matching (match_words, edited_words; C18) on sequences of word     *)
(* ids: a word is [i : identity, l : identity of its case-folded form].    *)
(* LcsLen is the length of a longest common subsequence (row fold);        *)
(* ValidMatching states what match_words promises about its result.        *)
(***************************************************************************)
EXTENDS Naturals, Sequences, FiniteSets, SequencesExt

Max2(x, y) == IF x >= y THEN x ELSE y
Key(w, fold) == IF fold THEN w.l ELSE w.i

RECURSIVE LcsRow(_, _, _, _, _, _)
\* prev = row i-1 (length n+1), acc = row i so far
LcsRow(a, b, i, prev, acc, fold) ==
    IF Len(acc) = Len(b) + 1 THEN acc
    ELSE LET j == Len(acc) IN
         LcsRow(a, b, i, prev,
                Append(acc, Max2(Max2(prev[j + 1], acc[j]),
                                 prev[j] + (IF Key(a[i], fold) = Key(b[j], fold) THEN 1 ELSE 0))), fold)
\* the rows are folded over a with FoldLeft (evaluated iteratively by TLC: a text of tens of thousands of words does not
\* nest the evaluation that deep); acc = <<row, i>>
LcsRows(a, b, fold) ==
    FoldLeft(LAMBDA acc, w : <<LcsRow(a, b, acc[2], acc[1], <<0>>, fold), acc[2] + 1>>, <<[j \in 1..(Len(b) + 1) |-> 0], 1>>, a)[1]
LcsLen(a, b, fold) == LcsRows(a, b, fold)[Len(b) + 1]

\* m = sequence of <<ai, bi>> (0-based word indices)
ValidMatching(m, a, b, fold) ==
    /\ \A k \in 1..Len(m) : /\ m[k][1] < Len(a) /\ m[k][2] < Len(b)
                            /\ Key(a[m[k][1] + 1], fold) = Key(b[m[k][2] + 1], fold)
    /\ \A k \in 1..(Len(m) - 1) : m[k][1] < m[k + 1][1] /\ m[k][2] < m[k + 1][2]
    /\ Len(m) = LcsLen(a, b, fold)
=============================================================================
