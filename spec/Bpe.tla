-------------------------------- MODULE Bpe --------------------------------
(***************************************************************************)
(* Byte-pair encoding as applied by BPETokenizer (C02, C03) and the id     *)
(* layout of its vocabulary (C04).                                         *)
(*                                                                         *)
(* A text is a sequence of characters [w : whitespace, b : UTF-8 bytes].   *)
(* A merge table is a sequence of byte strings; entry k has merge id k-1   *)
(* and token id 255 + k.  WellFormed: every entry is the concatenation of  *)
(* two earlier tokens (single bytes or earlier entries), no duplicates.    *)
(*                                                                         *)
(* Property layer: the canonical merge machine.  Within every word (regex  *)
(* \s+\S+|^\S+, i.e. a maximal whitespace run followed by a maximal        *)
(* non-whitespace run; trailing whitespace belongs to no word) start from  *)
(* single bytes and repeatedly merge, among all adjacent token pairs whose *)
(* concatenation is a table entry, the one with the lowest merge id,       *)
(* leftmost on ties, until no pair is mergeable.                           *)
(* Named deviation: the code keeps candidate merges in a binary heap with  *)
(* lazy deletion; the spec models "pop the minimum valid candidate".       *)
(***************************************************************************)
EXTENDS Naturals, Sequences, FiniteSets, SequencesExt

\* index of byte string s in table tab (0 if absent)
RECURSIVE IdxAcc(_, _, _)
IdxAcc(tab, s, k) == IF k > Len(tab) THEN 0 ELSE IF tab[k] = s THEN k ELSE IdxAcc(tab, s, k + 1)
Idx(tab, s) == IdxAcc(tab, s, 1)

IsToken(tab, k, s) == Len(s) = 1 \/ \E j \in 1..(k - 1) : tab[j] = s
WellFormed(tab) ==
    /\ \A k \in 1..Len(tab) :
          /\ Len(tab[k]) >= 2
          /\ \E c \in 1..(Len(tab[k]) - 1) :
                /\ IsToken(tab, k, SubSeq(tab[k], 1, c))
                /\ IsToken(tab, k, SubSeq(tab[k], c + 1, Len(tab[k])))
    /\ \A j, k \in 1..Len(tab) : j # k => tab[j] # tab[k]

\* words of a text: sequences of bytes (leading whitespace included)
Bytes(chars) == FlattenSeq([k \in 1..Len(chars) |-> chars[k].b])

RECURSIVE WordsAcc(_, _, _, _, _)
\* cur = characters of the word being built, inWord = a non-whitespace character was seen
WordsAcc(t, k, cur, inWord, acc) ==
    IF k > Len(t)
    THEN IF inWord THEN Append(acc, cur) ELSE acc           \* trailing whitespace is dropped
    ELSE IF t[k].w
         THEN IF inWord THEN WordsAcc(t, k + 1, <<t[k]>>, FALSE, Append(acc, cur))
                        ELSE WordsAcc(t, k + 1, Append(cur, t[k]), FALSE, acc)
         ELSE WordsAcc(t, k + 1, Append(cur, t[k]), TRUE, acc)
Words(t) == WordsAcc(t, 1, <<>>, FALSE, <<>>)

\* the text without its trailing whitespace
RECURSIVE StripTrailing(_)
StripTrailing(t) == IF t # <<>> /\ t[Len(t)].w THEN StripTrailing(SubSeq(t, 1, Len(t) - 1)) ELSE t

\* one step of the merge machine on a sequence of tokens (byte strings):
\* the best candidate as <<merge index, position>> or <<0, 0>>
RECURSIVE BestAcc(_, _, _, _)
BestAcc(tab, toks, p, best) ==
    IF p >= Len(toks) THEN best
    ELSE LET id == Idx(tab, toks[p] \o toks[p + 1]) IN
         BestAcc(tab, toks, p + 1,
                 IF id # 0 /\ (best[1] = 0 \/ id < best[1]) THEN <<id, p>> ELSE best)
Best(tab, toks) == BestAcc(tab, toks, 1, <<0, 0>>)

MergeAt(toks, p) == SubSeq(toks, 1, p - 1) \o <<toks[p] \o toks[p + 1]>> \o SubSeq(toks, p + 2, Len(toks))

RECURSIVE MergeFix(_, _)
MergeFix(tab, toks) ==
    LET b == Best(tab, toks) IN IF b[1] = 0 THEN toks ELSE MergeFix(tab, MergeAt(toks, b[2]))

Singles(bytes) == [k \in 1..Len(bytes) |-> <<bytes[k]>>]
TokId(tab, tok) == IF Len(tok) = 1 THEN tok[1] ELSE 255 + Idx(tab, tok)
WordIds(tab, wordChars) ==
    LET toks == MergeFix(tab, Singles(Bytes(wordChars))) IN [k \in 1..Len(toks) |-> TokId(tab, toks[k])]
Encode(tab, t) == FlattenSeq([k \in 1..Len(Words(t)) |-> WordIds(tab, Words(t)[k])])

\* decoding: token id -> bytes
TokBytes(tab, id) == IF id < 256 THEN <<id>> ELSE tab[id - 255]
Decode(tab, ids) == FlattenSeq([k \in 1..Len(ids) |-> TokBytes(tab, ids[k])])

\* max_vocab_size: merges with id < limit - #special - 256 are kept (a prefix of the table)
Truncate(tab, keep) == SubSeq(tab, 1, IF keep < Len(tab) THEN keep ELSE Len(tab))
=============================================================================
