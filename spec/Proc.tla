-------------------------------- MODULE Proc --------------------------------
(***************************************************************************)
(* The preprocessing pipeline of src/data/preprocessing.rs with the        *)
(* combinators of src/data/utils.rs (chain, switch): an interpreter over   *)
(* configuration trees.                                                    *)
(*                                                                         *)
(* A configuration is a record with field op:                              *)
(*   none | clean(part) | nows(part) | fullws(part) | over(part) |         *)
(*   mark(key, val) | pre(part, txt) | suf(part, txt) | csub(max) |        *)
(*   bsub(max) | chain(kids) | switch(kids, cum)                           *)
(* part is "i" (input) or "t" (target); texts are sequences of characters  *)
(* as in Ws.tla, extended by n = UTF-8 byte length.                        *)
(* A processing state is [i, t, marks, err].                               *)
(*                                                                         *)
(* Named deviation: the random number generator is not modelled.  All      *)
(* switch nodes of one item see the same draw r (the seed travels          *)
(* unchanged through the pipeline), which is an input of the model (in     *)
(* millionths); the window chosen by a substring function is arbitrary.    *)
(***************************************************************************)
EXTENDS Ws, CharString

Part(st, p) == IF p = "i" THEN st.i ELSE st.t
WithPart(st, p, x) == IF p = "i" THEN [st EXCEPT !.i = x] ELSE [st EXCEPT !.t = x]
\* (the separator that Clean / FullWs insert is Ws!SP, which has no n field: one byte)
Lens(t) == [k \in 1..Len(t) |-> IF "n" \in DOMAIN t[k] THEN t[k].n ELSE 1]

\* switch: the first index whose cumulative probability is not below r, else the last
RECURSIVE PickFrom(_, _, _)
PickFrom(cum, r, k) == IF k < Len(cum) /\ r > cum[k] THEN PickFrom(cum, r, k + 1) ELSE k
Pick(cum, r) == PickFrom(cum, r, 1)

\* character windows of a text: 1-based inclusive <<from, to>> ranges
CharWins(t, maxc) ==
    IF t = <<>> THEN {<<1, 0>>}
    ELSE LET m == Min2(maxc, Len(t)) IN {<<s, s + m - 1>> : s \in 1..(Len(t) - m + 1)}
ByteWins(t, maxb) ==
    IF t = <<>> THEN {<<1, 0>>}
    ELSE LET w == SubseqB(Lens(t), maxb) IN {<<w[j][1] + 1, w[j][2]>> : j \in 1..Len(w)}

\* find_substring_ignoring_whitespace(target, sub), trimmed: the first place where the non-whitespace characters of
\* sub occur consecutively (whitespace in between ignored); ok = FALSE if there is none
Content(t) == [k \in 1..Len(NoWs(t)) |-> NoWs(t)[k].c]
NwPos(t) == SelectSeq([k \in 1..Len(t) |-> k], LAMBDA k : ~t[k].w)     \* positions of the non-whitespace characters
FindIgnoringWs(tgt, sub) ==
    LET cs == Content(sub)
        ct == Content(tgt)
        pos == NwPos(tgt)
        hits == {j \in 1..(Len(ct) - Len(cs) + 1) : SubSeq(ct, j, j + Len(cs) - 1) = cs}
    IN IF cs = <<>> THEN [ok |-> TRUE, txt |-> <<>>]
       ELSE IF hits = {} THEN [ok |-> FALSE, txt |-> <<>>]
       ELSE LET j == CHOOSE x \in hits : \A y \in hits : x <= y
            IN [ok |-> TRUE, txt |-> SubSeq(tgt, pos[j], pos[j + Len(cs) - 1])]

\* the substring preprocessing for a chosen window
SubstringWith(st, win) ==
    LET inp == SubSeq(st.i, win[1], win[2])
        tg == FindIgnoringWs(st.t, inp)
    IN IF ~tg.ok THEN [st EXCEPT !.err = TRUE] ELSE [st EXCEPT !.i = inp, !.t = tg.txt]

SetMark(marks, k, v) == [x \in (DOMAIN marks) \cup {k} |-> IF x = k THEN v ELSE marks[x]]

\* one primitive: the set of possible successor states
Prim(c, st) ==
    CASE c.op = "none" -> {st}
      [] c.op = "clean" -> {WithPart(st, c.part, Clean(Part(st, c.part)))}
      [] c.op = "nows" -> {WithPart(st, c.part, RemoveWs(Part(st, c.part)))}
      [] c.op = "fullws" -> {WithPart(st, c.part, FullWs(Part(st, c.part)))}
      [] c.op = "over" -> {IF c.part = "i" THEN [st EXCEPT !.i = st.t] ELSE [st EXCEPT !.t = st.i]}
      [] c.op = "mark" -> {[st EXCEPT !.marks = SetMark(st.marks, c.key, c.val)]}
      [] c.op = "pre" -> {WithPart(st, c.part, c.txt \o Part(st, c.part))}
      [] c.op = "suf" -> {WithPart(st, c.part, Part(st, c.part) \o c.txt)}
      [] c.op = "csub" -> IF st.i # <<>> /\ c.max = 0 THEN {[st EXCEPT !.err = TRUE]}   \* (panics, see CharString.tla)
                          ELSE {SubstringWith(st, w) : w \in CharWins(st.i, c.max)}
      [] c.op = "bsub" -> IF ByteWins(st.i, c.max) = {} THEN {[st EXCEPT !.err = TRUE]}     \* (panics: empty range)
                          ELSE {SubstringWith(st, w) : w \in ByteWins(st.i, c.max)}

IsPrim(c) == c.op \notin {"chain", "switch"}

\* denotational semantics: the set of possible final states; an error ends a chain at once
RECURSIVE Eval(_, _, _), EvalSeq(_, _, _, _)
Eval(c, st, r) ==
    IF st.err THEN {st}
    ELSE IF c.op = "chain" THEN EvalSeq(c.kids, 1, {st}, r)
    ELSE IF c.op = "switch" THEN Eval(c.kids[Pick(c.cum, r)], st, r)
    ELSE Prim(c, st)
EvalSeq(kids, k, S, r) ==
    IF k > Len(kids) THEN S
    ELSE EvalSeq(kids, k + 1, UNION {Eval(kids[k], s, r) : s \in S}, r)

\* comparison of states up to what the code exposes: code points of both texts, marks, error
Obs(st) == [i |-> Cps(st.i), t |-> Cps(st.t), marks |-> st.marks, err |-> st.err]
=============================================================================
