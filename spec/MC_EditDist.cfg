CONSTANTS MaxLen = 3 NSym = 3
SPECIFICATION Spec
INVARIANTS Sound Tight Progress Bounds
PROPERTY Terminates
CHECK_DEADLOCK FALSE
