------------------------------- MODULE MC_Norm -------------------------------
(* The algebra of the four normal forms over every closed text up to MaxLen code points of the model alphabet, checked *)
(* by TLC: each form is idempotent, NFC / NFKC of any other canonical / compatibility form is NFC / NFKC, decomposed    *)
(* forms contain no composite, composed forms no composable pair, the marks of a run are in canonical order, and        *)
(* normalising cluster by cluster equals normalising the whole text.                                                    *)
EXTENDS Norm, TLC
CONSTANTS MaxLen
VARIABLES t, done
vars == <<t, done>>
Init == t \in {x \in UNION {[1..n -> 1..14] : n \in 0..MaxLen} : Closed(x)} /\ done = FALSE
Next == ~done /\ done' = TRUE /\ UNCHANGED t
Spec == Init /\ [][Next]_vars
Schemes == {"nfc", "nfd", "nfkc", "nfkd"}
Idempotent == \A s \in Schemes : Normal(Normal(t, s), s) = Normal(t, s)
Lattice == /\ NFC(NFD(t)) = NFC(t) /\ NFD(NFC(t)) = NFD(t)
           /\ NFKC(NFKD(t)) = NFKC(t) /\ NFKD(NFKC(t)) = NFKD(t)
           /\ NFKC(NFC(t)) = NFKC(t) /\ NFKD(NFD(t)) = NFKD(t) /\ NFKC(NFD(t)) = NFKC(t)
NoComposites == /\ \A k \in 1..Len(NFD(t)) : NFD(t)[k] \notin {EACUTE, AACUTE, IACUTE}
                /\ \A k \in 1..Len(NFKD(t)) : NFKD(t)[k] \notin {EACUTE, AACUTE, IACUTE, FI, SPACUTE}
                /\ \A k \in 1..Len(NFKC(t)) : NFKC(t)[k] \notin {FI, SPACUTE}
NoComposable == \A s \in {"nfc", "nfkc"} : LET u == Normal(t, s) IN \A k \in 1..(Len(u) - 1) : ~(u[k] \in {E, A, I} /\ u[k + 1] = ACUTE)
Ordered == \A s \in Schemes : LET u == Normal(t, s) IN \A k \in 1..(Len(u) - 1) : ~(Ccc(u[k]) > Ccc(u[k + 1]) /\ Ccc(u[k + 1]) > 0)
ClusterWise == \A s \in Schemes : NormalG(t, s, TRUE) = Normal(t, s)
SameLetters == \* normalisation neither loses nor invents base letters: the fully decomposed forms agree
               NFKD(Normal(t, "nfc")) = NFKD(t) /\ NFKD(Normal(t, "nfkc")) = NFKD(t)
=============================================================================
