------------------------------ MODULE Trace_Infer ------------------------------
(* Validates recorded InferenceLoader runs against Infer.tla.                                                      *)
(* Record: items [k, nw, sizes], threads, limit, ltype, sort, batches [[item index, window index, #tokens]],        *)
(* err (an error was raised at the end), err_src (position named by a source error, -2 = window error, -1 = none).  *)
EXTENDS InferOps, TLC, Json, IOUtils
Rec == ndJsonDeserialize(IOEnv.OBS)
NChunks == atoi(IOEnv.NCHUNKS)
VARIABLES c, i, nfail, nskip, nnt, ndrift
FailingCl(cl) == LET bad == SelectSeq(cl, LAMBDA x : ~x[2]) IN [k \in 1..Len(bad) |-> bad[k][1]]
RECURSIVE Flat(_, _)
Flat(b, k) == IF k > Len(b) THEN <<>> ELSE b[k] \o Flat(b, k + 1)
Pairs(s) == [j \in 1..Len(s) |-> <<s[j][1], s[j][2]>>]
AsSet(s) == {s[j] : j \in 1..Len(s)}
SameUpToOrder(a, b) == Len(a) = Len(b) /\ AsSet(a) = AsSet(b) /\ Cardinality(AsSet(a)) = Len(a)
JudgeOk(r) ==
    LET s == [p \in 1..Len(r.items) |-> [k |-> r.items[p].k, nw |-> r.items[p].nw]]
        got == Pairs(Flat(r.batches, 1))
        want == Pairs(Expected(s))
        pred == Pairs(Predicted(s, r.threads))
        Same(a, b) == IF r.sort THEN SameUpToOrder(a, b) ELSE a = b
        \* errors the run can have met: every failing position in front of the place where the stream stopped (others may
        \* or may not have been pulled by the look-ahead)
        cl == <<
          <<"stream_is_the_windows_in_front_of_the_first_error", Same(got, want)>>,
          <<"an_error_is_reported_iff_an_item_failed_in_front_of_the_end", (FirstError(s) # 0) => r.err>>,
          <<"no_error_without_a_failing_item", (Failing(s) = {}) => ~r.err>>,
          <<"batches_are_not_empty", \A k \in 1..Len(r.batches) : r.batches[k] # <<>>>>,
          <<"count_limit_respected", r.ltype = "count" => \A k \in 1..Len(r.batches) : Len(r.batches[k]) <= r.limit>>
        >>
    IN [why |-> FailingCl(cl),
        drift |-> IF Same(got, pred) THEN <<>> ELSE <<"stream_differs_from_the_mechanism_model">>,
        skip |-> FALSE,
        nt |-> Failing(s) # {} /\ Len(want) >= 1]
Judge(r) == IF r.st # "ok" THEN [why |-> <<r.st>>, drift |-> <<>>, skip |-> FALSE, nt |-> FALSE] ELSE JudgeOk(r)
INSTANCE Stepper
=============================================================================
