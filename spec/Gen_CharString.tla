--------------------------- MODULE Gen_CharString ---------------------------
(* All texts up to MaxLen over 6 slots of three concretisation alphabets (ASCII, multi-byte,     *)
(* clusters) x both segmentation modes, for replay into CharString and the substring functions.  *)
EXTENDS Naturals, Sequences, FiniteSets, SequencesExt, TLC, Json, IOUtils
CONSTANTS MaxLen
S == UNION {[1..k -> 1..6] : k \in 0..MaxLen}
Cases == {[alpha |-> a, slots |-> s, g |-> g] : s \in S, a \in {"ascii", "multi", "cluster"}, g \in BOOLEAN}
VARIABLE x
Init == x = 0 /\ ndJsonSerialize(IOEnv.OUT, SetToSeq(Cases))
Next == UNCHANGED x
=============================================================================
