------------------------------- MODULE Gen_Lcs -------------------------------
(* All pairs of word sequences up to MaxLen over the slots x, X, y (case        *)
(* variants and repeats) x ignore_case x separator choice, for replay of C18.   *)
EXTENDS Naturals, Sequences, FiniteSets, SequencesExt, TLC, Json, IOUtils
CONSTANTS MaxLen
S == UNION {[1..k -> 1..3] : k \in 0..MaxLen}
\* walpha: the concretisation of the slots (ASCII x, X, y; the non-ASCII case pairs u-umlaut, U-umlaut, zhe;
\* or case pairs whose lower case has another byte length: U+2C65 / U+023A, k / Kelvin sign)
Cases == {[aslots |-> a, bslots |-> b, fold |-> f, sep |-> sp, walpha |-> wa] : a \in S, b \in S, f \in BOOLEAN, sp \in 0..1, wa \in {"ascii", "uni", "uni2"}}
VARIABLE x
Init == x = 0 /\ ndJsonSerialize(IOEnv.OUT, SetToSeq(Cases))
Next == UNCHANGED x
=============================================================================
