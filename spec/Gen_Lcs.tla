------------------------------- MODULE Gen_Lcs -------------------------------
(* All pairs of word sequences up to MaxLen over the slots x, X, y (case        *)
(* variants and repeats) x ignore_case x separator choice, for replay of C18.   *)
EXTENDS Naturals, Sequences, FiniteSets, SequencesExt, TLC, Json, IOUtils
CONSTANTS MaxLen
S == UNION {[1..k -> 1..3] : k \in 0..MaxLen}
\* walpha: the concretisation of the slots (ASCII x, X, y; the non-ASCII case pairs u-umlaut, U-umlaut, zhe;
\* or case pairs whose lower case has another byte length: U+2C65 / U+023A, k / Kelvin sign)
Cases == {[aslots |-> a, bslots |-> b, fold |-> f, sep |-> sp, walpha |-> wa] : a \in S, b \in S, f \in BOOLEAN, sp \in 0..1, wa \in {"ascii", "uni", "uni2"}}
\* slot 4 = xy: a word whose tail is another word (a cut of the common tail of the two texts can fall inside it)
S4 == UNION {[1..k -> 1..4] : k \in 0..MaxLen}
Has4(w) == \E k \in 1..Len(w) : w[k] = 4
TailCases == {[aslots |-> p[1], bslots |-> p[2], fold |-> f, sep |-> 0, walpha |-> "ascii"] :
                 p \in {q \in S4 \X S4 : Has4(q[1]) \/ Has4(q[2])}, f \in BOOLEAN}
VARIABLE x
Init == x = 0 /\ ndJsonSerialize(IOEnv.OUT, SetToSeq(Cases) \o SetToSeq(TailCases))
Next == UNCHANGED x
=============================================================================
