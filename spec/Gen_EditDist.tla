---------------------------- MODULE Gen_EditDist ----------------------------
(* Enumerates the bounded input space of C12 for replay into the real code: *)
(* all pairs of slot sequences up to MaxLen over NSym slots (slot 1 is the  *)
(* whitespace symbol of every concretisation alphabet) x both flags.        *)
EXTENDS TextAbs, TLC, Json, IOUtils
CONSTANTS MaxLen, NSym
Cases == {[a |-> a, b |-> b, swap |-> s, sid |-> d] :
             a \in SeqsUpTo(1..NSym, MaxLen), b \in SeqsUpTo(1..NSym, MaxLen),
             s \in BOOLEAN, d \in BOOLEAN}
VARIABLE x
Init == x = 0 /\ ndJsonSerialize(IOEnv.OUT, SetToSeq(Cases))
Next == UNCHANGED x
=============================================================================
