---------------------------- MODULE MC_BpeTrain ----------------------------
(* Model values for BpeTrain: the word pool (tuples cannot be written in a .cfg). *)
EXTENDS BpeTrain
MCWords == {<<1>>, <<1, 2>>, <<1, 1, 1>>, <<1, 2, 1, 2>>, <<2, 1>>, <<2, 2, 1>>, <<1, 1, 1, 1>>, <<3, 1, 2>>}
=============================================================================
