------------------------------ MODULE Trace_Lcs ------------------------------
(* Validates recorded match_words / edited_words calls (C18) against Lcs.tla.  *)
EXTENDS Lcs, TLC, Json, IOUtils
Rec == ndJsonDeserialize(IOEnv.OBS)
NChunks == atoi(IOEnv.NCHUNKS)
VARIABLES c, i, nfail, nskip, nnt, ndrift

ToSetOf(s) == {s[k] : k \in 1..Len(s)}
JudgeOk(r) ==
    LET cl == <<
          <<"matching_is_increasing_equal_and_longest", ValidMatching(r.m, r.a, r.b, r.fold)>>,
          <<"word_counts", r.alen = Len(r.a) /\ r.blen = Len(r.b)>>,
          <<"case_sensitive_matching_valid", ValidMatching(r.mcs, r.a, r.b, FALSE)>>,
          <<"edited_words_are_the_complement",
              /\ ToSetOf(r.ea) = (0..(Len(r.a) - 1)) \ {r.mcs[k][1] : k \in 1..Len(r.mcs)}
              /\ ToSetOf(r.eb) = (0..(Len(r.b) - 1)) \ {r.mcs[k][2] : k \in 1..Len(r.mcs)}
              /\ Len(r.ea) = Cardinality(ToSetOf(r.ea)) /\ Len(r.eb) = Cardinality(ToSetOf(r.eb))>>
        >>
        bad == SelectSeq(cl, LAMBDA x : ~x[2])
    IN [why |-> [k \in 1..Len(bad) |-> bad[k][1]], drift |-> <<>>, skip |-> FALSE,
        \* non-trivial: a non-empty matching that is not the identity pairing of equal-length texts
        nt |-> r.m # <<>> /\ (Len(r.a) # Len(r.b) \/ Len(r.m) < Len(r.a))]

Judge(r) == IF r.st # "ok" THEN [why |-> <<r.st>>, drift |-> <<>>, skip |-> FALSE, nt |-> FALSE] ELSE JudgeOk(r)
INSTANCE Stepper
=============================================================================
