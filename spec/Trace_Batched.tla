---------------------------- MODULE Trace_Batched ----------------------------
(* Validates complete iterations of the real Batched iterator and direct calls *)
(* of find_subsequences_of_max_size_k (C06) against Batched.tla.               *)
EXTENDS TLC, Json, IOUtils, Naturals, Sequences, FiniteSets, SequencesExt
Rec == ndJsonDeserialize(IOEnv.OBS)
NChunks == atoi(IOEnv.NCHUNKS)
VARIABLES c, i, nfail, nskip, nnt, ndrift

B == INSTANCE Batched WITH SizeSet <- {}, MaxN <- 0, MaxLimit <- 1, MaxPf <- 1,
                           cfg <- <<>>, up <- <<>>, buf <- <<>>, out <- <<>>, done <- FALSE

Clamp(x) == IF x = 0 THEN 1 ELSE x

\* mechanism layer: the exact batch sequence of the deterministic modes
RECURSIVE ExpPlain(_, _, _, _)
ExpPlain(src, limit, lt, acc) ==
    LET g == B!Greedy(<<>>, src, limit, lt) IN
    IF g[1] = <<>> THEN acc ELSE ExpPlain(g[2], limit, lt, Append(acc, g[1]))

RECURSIVE ExpSorted(_, _, _, _, _, _)
ExpSorted(buf, up, limit, pf, lt, acc) ==
    LET r == B!Refill(buf, up, limit, pf, lt) IN
    IF r[1] = <<>> THEN acc
    ELSE LET s == B!SortBySize(r[1])
             g == B!Greedy(<<>>, B!Rev(s), limit, lt)
         IN ExpSorted(SubSeq(s, 1, Len(s) - Len(g[1])), r[2], limit, pf, lt, Append(acc, g[1]))

\* mechanism layer for the shuffled modes: every observed batch is an enabled step
IdSet(s) == {s[k].id : k \in 1..Len(s)}
Without(s, ids) == SelectSeq(s, LAMBDA x : x.id \notin ids)
RECURSIVE Walk(_, _, _, _, _, _, _, _)
Walk(batches, n, buf, up, limit, pf, lt, sorted) ==
    LET r == B!Refill(buf, up, limit, pf, lt) IN
    IF n > Len(batches) THEN r[1] = <<>>
    ELSE LET b == batches[n]
             rest == Without(r[1], IdSet(b))
             okShuffle == /\ IdSet(b) \subseteq IdSet(r[1]) /\ Len(b) >= 1
                          /\ (rest = <<>> \/ \E k \in 1..Len(rest) : B!Lim(Append(b, rest[k]), lt) > limit)
             s == B!SortBySize(r[1])
             w == B!SubseqK(s, limit, lt)
             okWindow == IF w = <<>> THEN b = <<s[Len(s)]>>
                         ELSE \E k \in 1..Len(w) : b = SubSeq(s, w[k][1] + 1, w[k][2])
         IN /\ r[1] # <<>>
            /\ IF sorted THEN okWindow ELSE okShuffle
            /\ Walk(batches, n + 1, IF sorted THEN Without(s, IdSet(b)) ELSE rest, r[2], limit, pf, lt, sorted)

JudgeBatched(r) ==
    LET items == B!Items(r.sizes)
        limit == Clamp(r.limit)
        pf == Clamp(r.pf)
        bs == r.batches
        plain == ~r.sort /\ ~r.shuffle
        cl == <<
          <<"terminates", r.ended>>,
          <<"no_empty_batch", B!NonEmpty(bs)>>,
          <<"partition", r.ended => B!Partition(bs, Len(r.sizes))>>,
          <<"no_duplicates", B!NoDupSeq(B!AllIds(bs))>>,
          <<"items_unchanged", \A k \in 1..Len(bs) : \A n \in 1..Len(bs[k]) :
                 bs[k][n].id \in 1..Len(r.sizes) /\ bs[k][n].sz = r.sizes[bs[k][n].id]>>,
          <<"within_limit", B!WithinLimit(bs, limit, r.ltype)>>,
          <<"deterministic_in_seed", r.batches = r.batches2>>,
          <<"plain_input_order", plain => B!InputOrder(bs)>>,
          <<"plain_greedy_maximal", plain => B!GreedyMaximal(bs, limit, r.ltype)>>
        >>
        bad == SelectSeq(cl, LAMBDA x : ~x[2])
        mech == IF ~r.ended THEN TRUE
                ELSE IF plain THEN bs = ExpPlain(items, limit, r.ltype, <<>>)
                ELSE IF r.sort /\ ~r.shuffle THEN bs = ExpSorted(<<>>, items, limit, pf, r.ltype, <<>>)
                ELSE Walk(bs, 1, <<>>, items, limit, pf, r.ltype, r.sort)
    IN [why |-> [k \in 1..Len(bad) |-> bad[k][1]],
        drift |-> IF mech THEN <<>> ELSE <<"batch_sequence_not_a_behaviour_of_Batched">>,
        skip |-> FALSE,
        \* non-trivial: at least two batches, one of them with more than one item
        nt |-> Len(bs) >= 2 /\ \E k \in 1..Len(bs) : Len(bs[k]) > 1]

JudgeSubseq(r) ==
    LET v == B!Items(r.sizes)
        w == r.windows
        ok == /\ \A n \in 1..Len(w) : /\ w[n][1] < w[n][2] /\ w[n][2] <= Len(v)
                                      /\ B!Sz(v, w[n][1], w[n][2], r.ltype) <= r.k
              /\ (w = <<>>) <=> (\A p \in 1..Len(v) : B!Lim(<<v[p]>>, r.ltype) > r.k)
    IN [why |-> IF ok THEN <<>> ELSE <<"window_search">>,
        drift |-> IF w = B!SubseqK(v, r.k, r.ltype) THEN <<>> ELSE <<"windows_differ_from_transcribed_loop">>,
        skip |-> FALSE, nt |-> Len(w) >= 2]

Judge(r) ==
    IF r.st # "ok"
    THEN [why |-> <<r.st>>, drift |-> <<>>, skip |-> FALSE, nt |-> FALSE]
    ELSE IF r.kind = "subseq" THEN JudgeSubseq(r) ELSE JudgeBatched(r)

INSTANCE Stepper
=============================================================================
