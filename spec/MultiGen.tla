------------------------------ MODULE MultiGen ------------------------------
(***************************************************************************)
(* MultiTrainDataGenerator of src/data/loading.rs (C07): several sources   *)
(* combined with the sequential, interleaved or weighted strategy.         *)
(*                                                                         *)
(* Mechanism: the state of the code (cursor idx, finished flags) and the   *)
(* two steps of the loop inside next(): pulling from the current source    *)
(* either yields an item (followed by the post-yield re-selection) or      *)
(* finds it exhausted (flag, stop if all flagged, otherwise re-select).    *)
(* A public next() call is PullNone* PullSome, or PullNone* ending in done.*)
(* Buggy = TRUE is the re-selection of the pinned commit for the           *)
(* interleaved strategy, which cannot return to the current source and     *)
(* spins forever when it is the only unfinished one (negative control).    *)
(***************************************************************************)
EXTENDS Naturals, Sequences, FiniteSets, SequencesExt

CONSTANTS MaxSrc, MaxLen, Strategy, Buggy

VARIABLES lens, pos, fin, idx, out, done, hang
vars == <<lens, pos, fin, idx, out, done, hang>>

NS == Len(lens)
Srcs == 1..NS
Succ(i) == (i % NS) + 1

\* cyclic search for the next unfinished source after i (at most NS probes)
RECURSIVE Probe(_, _, _, _)
Probe(i, f, k, self) ==
    IF k = 0 THEN 0
    ELSE IF ~f[i] /\ i # self THEN i
    ELSE Probe(Succ(i), f, k - 1, self)

NextIdx(i, f) ==
    CASE Strategy = "sequential" -> IF f[i] THEN {Succ(i)} ELSE {i}
      [] Strategy = "interleaved" ->
            LET j == Probe(Succ(i), f, NS, i) IN
            IF j # 0 THEN {j}
            ELSE IF Buggy THEN {0}          \* 0 = the search never returns
            ELSE {i}
      [] Strategy = "weighted" -> {j \in Srcs : ~f[j]}

MinLen == IF Strategy = "weighted" THEN 1 ELSE 0
Init == /\ lens \in UNION {[1..k -> MinLen..MaxLen] : k \in 1..MaxSrc}
        /\ pos = [s \in 1..Len(lens) |-> 0]
        /\ fin = [s \in 1..Len(lens) |-> FALSE]
        /\ idx = 1
        /\ out = <<>>
        /\ done = FALSE
        /\ hang = FALSE

Select(i, f) == \E j \in NextIdx(i, f) :
                   IF j = 0 THEN hang' = TRUE /\ idx' = idx
                            ELSE hang' = hang /\ idx' = j

PullSome == /\ ~done /\ ~hang
            /\ pos[idx] < lens[idx]
            /\ out' = Append(out, <<idx, pos[idx]>>)
            /\ pos' = [pos EXCEPT ![idx] = @ + 1]
            /\ Select(idx, fin)
            /\ UNCHANGED <<lens, fin, done>>

PullNone == /\ ~done /\ ~hang
            /\ pos[idx] = lens[idx]
            /\ fin' = [fin EXCEPT ![idx] = TRUE]
            /\ IF \A s \in Srcs : fin'[s]
               THEN done' = TRUE /\ UNCHANGED <<idx, hang>>
               ELSE done' = done /\ Select(idx, fin')
            /\ UNCHANGED <<lens, pos, out>>

Next == PullSome \/ PullNone
Spec == Init /\ [][Next]_vars /\ WF_vars(Next)

-----------------------------------------------------------------------------
\* Property layer: what a user sees is `out`, the end of the stream, and (not) hanging.
\* (folded iteratively: the vectors of the long runs have tens of thousands of sources)
Total(l) == FoldLeft(LAMBDA acc, x : acc + x, 0, l)

\* items of source s appear in source order
Tagged(o, s) == SelectSeq(o, LAMBDA x : x[1] = s)
PerSourceOrder(o, l) ==
    /\ \A k \in 1..Len(o) : o[k][1] \in 1..Len(l)
    /\ \A s \in 1..Len(l) : LET t == Tagged(o, s) IN
          /\ Len(t) <= l[s]
          /\ \A k \in 1..Len(t) : t[k][2] = k - 1
ExactlyOnce(o, l) == PerSourceOrder(o, l) /\ Len(o) = Total(l)

\* sequential: one source after another
RECURSIVE ConcatFrom(_, _, _)
ConcatFrom(l, s, acc) ==
    IF s > Len(l) THEN acc
    ELSE ConcatFrom(l, s + 1, acc \o [k \in 1..l[s] |-> <<s, k - 1>>])
Concat(l) == ConcatFrom(l, 1, <<>>)

\* interleaved: round robin over the sources that still have items
RECURSIVE RRAcc(_, _, _, _, _)
RRAcc(l, p, i, acc, fuel) ==
    IF \A s \in 1..Len(l) : p[s] = l[s] THEN acc
    ELSE IF p[i] < l[i]
         THEN RRAcc(l, [p EXCEPT ![i] = @ + 1], (i % Len(l)) + 1, Append(acc, <<i, p[i]>>), fuel)
         ELSE RRAcc(l, p, (i % Len(l)) + 1, acc, fuel)
RoundRobin(l) == RRAcc(l, [s \in 1..Len(l) |-> 0], 1, <<>>, 0)

\* the same orders computed on the non-empty sources only (an empty source is skipped without a trace): for vectors with
\* tens of thousands of empty sources.  CompressInv (checked by TLC on every vector of the model) ties them together.
NonEmpty(l) == SetToSortSeq({s \in 1..Len(l) : l[s] > 0}, LAMBDA x, y : x < y)
Lift(o, ne) == [k \in 1..Len(o) |-> <<ne[o[k][1]], o[k][2]>>]
ConcatC(l) == LET ne == NonEmpty(l) IN Lift(Concat([k \in 1..Len(ne) |-> l[ne[k]]]), ne)
RoundRobinC(l) == LET ne == NonEmpty(l) IN IF ne = <<>> THEN <<>> ELSE Lift(RoundRobin([k \in 1..Len(ne) |-> l[ne[k]]]), ne)

IsPrefixOf(a, b) == Len(a) <= Len(b) /\ SubSeq(b, 1, Len(a)) = a

Expected(l) == IF Strategy = "sequential" THEN Concat(l) ELSE RoundRobin(l)

OrderInv == PerSourceOrder(out, lens)
StrategyInv == Strategy \in {"sequential", "interleaved"} => IsPrefixOf(out, Expected(lens))
DoneInv == done => ExactlyOnce(out, lens)
CompressInv == Concat(lens) = ConcatC(lens) /\ RoundRobin(lens) = RoundRobinC(lens)
NoHang == ~hang
Terminates == <>done
=============================================================================
