---------------------------- MODULE Trace_PipeObs ----------------------------
(***************************************************************************)
(* Property layer of C05 / C09 evaluated on recorded Pipe executions: a    *)
(* monitor over the observable events only (upstream pulls, processing     *)
(* calls, what the consumer received, end / drop, thread exit).  One       *)
(* record = one run (controlled schedule or free-running).  The predicates *)
(* are the invariants InOrder, AtMostOnce, Complete, LookAhead, AfterDrop  *)
(* and the liveness consequences of Pipe.tla, restated on the log.         *)
(***************************************************************************)
EXTENDS Naturals, Sequences, FiniteSets, SequencesExt, TLC, Json, IOUtils
Rec == ndJsonDeserialize(IOEnv.OBS)
NChunks == atoi(IOEnv.NCHUNKS)
VARIABLES c, i, nfail, nskip, nnt, ndrift

M0 == [pulls |-> 0, out |-> <<>>, calls |-> <<>>, dropped |-> FALSE, pullsAtDrop |-> 0,
       ended |-> FALSE, allExited |-> FALSE, stuck |-> FALSE, maxLook |-> 0,
       active |-> {}, maxActive |-> 0, activeAtDrop |-> 0, pullOk |-> TRUE, lateRecv |-> FALSE]

Max2(x, y) == IF x >= y THEN x ELSE y

MStep(m, e) ==
    LET m1 ==
        CASE e.e = "Pull" -> IF e.k THEN [m EXCEPT !.pulls = @ + 1, !.pullOk = @ /\ e.x = m.pulls] ELSE m
          [] e.e = "Call" -> [m EXCEPT !.calls = Append(@, e.x), !.active = @ \cup {e.w}]
          [] e.e = "AfterAdvance" -> [m EXCEPT !.active = @ \ {e.w}]
          [] e.e = "Recv" -> [m EXCEPT !.out = Append(@, e.x), !.lateRecv = @ \/ m.dropped \/ m.ended]
          [] e.e = "End" -> [m EXCEPT !.ended = TRUE]
          [] e.e = "Drop" -> [m EXCEPT !.dropped = TRUE, !.pullsAtDrop = m.pulls,
                                       !.activeAtDrop = Cardinality(m.active)]
          [] e.e \in {"AllExited", "ProducerExited"} -> [m EXCEPT !.allExited = TRUE]
          [] e.e = "Stuck" -> [m EXCEPT !.stuck = TRUE]
          [] OTHER -> m
    IN [m1 EXCEPT !.maxLook = IF m1.dropped THEN @ ELSE Max2(@, m1.pulls - Len(m1.out)),
                  !.maxActive = Max2(@, Cardinality(m1.active))]

RECURSIVE MFold(_, _, _)
MFold(m, ev, k) == IF k > Len(ev) THEN m ELSE MFold(MStep(m, ev[k]), ev, k + 1)

NoDup(s) == Cardinality({s[k] : k \in 1..Len(s)}) = Len(s)
\* The consumer logs Recv after recv() returned, so one item may be received but not yet logged:
\* always in free-running runs, and in controlled runs in which the controller let the consumer
\* enter a blocking recv() (recorded as "RecvBlocked"), whose completion is then asynchronous.
AsyncConsumer(r) == r.mode = "free" \/ \E k \in 1..Len(r.acts) : r.acts[k] = "RecvBlocked"
\* mechanism layer: the exact look-ahead of the code as written (channel of capacity W, one item per worker)
Bound(r) == (IF r.W = 0 THEN 1 ELSE r.cap + r.W) + (IF AsyncConsumer(r) THEN 1 ELSE 0)
\* property layer (C09): "a constant depending on thread count and buffer size, not on the input length" - any small
\* multiple of (threads + buffer) is accepted; what must be excluded is look-ahead that grows with the upstream,
\* which the long-upstream runs (N >> Generous) expose
Generous(threads, buffer) == 4 * (threads + buffer) + 8

\* Buffered (C09): same observables, its own constants
BFree(r) == r.ctl = "free"
BPulls(r, m) == IF BFree(r) THEN Max2(m.pulls, r.total_pulls) ELSE m.pulls
BClauses(r, m) == <<
    <<"buffered_in_order", \A k \in 1..Len(m.out) : m.out[k] = k - 1>>,
    <<"buffered_complete", m.ended => Len(m.out) = r.N>>,
    <<"buffered_lookahead", m.maxLook <= Generous(1, r.cap)>>,
    <<"buffered_pulls_after_drop", m.dropped => BPulls(r, m) <= m.pullsAtDrop + Generous(1, r.cap)>>,
    <<"buffered_producer_exits", (r.drained /\ ~m.stuck) => m.allExited>>,
    <<"progress", ~m.stuck>>
>>

PClauses(r, m) == <<
    <<"upstream_sequential", m.pullOk>>,
    <<"in_order", \A k \in 1..Len(m.out) : m.out[k] = k - 1>>,
    <<"processed_at_most_once", NoDup(m.calls)>>,
    <<"complete_at_end", m.ended => (Len(m.out) = r.N /\ {m.calls[k] : k \in 1..Len(m.calls)} = 0..(r.N - 1))>>,
    <<"nothing_after_end", ~m.lateRecv>>,
    <<"iteration_ends", (r.drained /\ ~m.dropped /\ ~m.stuck) => m.ended>>,
    <<"bounded_lookahead", m.maxLook <= Generous(r.W, r.W)>>,
    <<"bounded_pulls_after_drop", m.dropped => m.pulls <= m.pullsAtDrop + Generous(r.W, r.W)>>,
    <<"threads_exit", (r.drained /\ ~m.stuck) => m.allExited>>,
    <<"progress", ~m.stuck>>
>>

\* mechanism layer (DRIFT): the exact bounds of the code as written
\* free-running: the drop is logged just before it is executed, so everything the
\* workers may still legally pull ahead is allowed for; controlled: exactly W
PMech(r, m) ==
    (IF m.maxLook <= Bound(r) THEN <<>> ELSE <<"lookahead_above_channel_plus_workers">>) \o
    (IF m.dropped => m.pulls <= m.pullsAtDrop + (IF r.mode = "free" THEN 2 * r.W + r.cap ELSE r.W)
     THEN <<>> ELSE <<"pulls_after_drop_above_one_per_worker">>)
BMech(r, m) ==
    (IF m.maxLook <= r.cap + 1 + (IF BFree(r) THEN 1 ELSE 0) THEN <<>> ELSE <<"buffered_lookahead_above_capacity_plus_one">>) \o
    (IF m.dropped => BPulls(r, m) <= m.pullsAtDrop + 1 THEN <<>> ELSE <<"buffered_more_than_one_pull_after_drop">>)
Mech(r, m) == IF r.mode = "buffered" THEN BMech(r, m) ELSE IF r.mode = "child" THEN <<>> ELSE PMech(r, m)

\* panic clause of C09: a child process whose processing function panics at item `fail`
\* must terminate (the parent records its exit status or "hang" after 10 s)
\* (exit status 42 = the consumer reached the end of the stream: the panic cut the stream short without ending the process)
CClauses(r) == << <<"terminates_on_panic", r.exit # "hang">>,
                  <<"panic_ends_the_process", r.exit # "code:42">> >>

Clauses(r, m) == IF r.mode = "buffered" THEN BClauses(r, m)
                 ELSE IF r.mode = "child" THEN CClauses(r)
                 ELSE PClauses(r, m)

\* bulk runs (tens of thousands of items, no event log): the output is recorded as its maximal runs of consecutive values
\* <<first, length>>, the calls of the processing function as the number of calls and of distinct items
BulkClauses(r) == <<
    <<"in_order", Len(r.runs) <= 1>>,
    <<"complete_at_end", r.ended /\ (IF r.N = 0 THEN r.runs = <<>> ELSE r.runs = << <<0, r.N>> >>)>>,
    <<"processed_at_most_once", r.calls = r.distinct /\ r.distinct = r.N>>
  >>
Judge(r) ==
    IF r.st # "ok"
    THEN [why |-> <<r.st>>, drift |-> <<>>, skip |-> FALSE, nt |-> FALSE]
    ELSE IF r.mode = "bulk"
    THEN LET bad == SelectSeq(BulkClauses(r), LAMBDA x : ~x[2])
         IN [why |-> [k \in 1..Len(bad) |-> bad[k][1]], drift |-> <<>>, skip |-> FALSE, nt |-> r.N > 65536]
    ELSE LET m == MFold(M0, r.ev, 1)
             cl == Clauses(r, m)
             bad == SelectSeq(cl, LAMBDA x : ~x[2])
             \* intended-path conformance (spec -> code replay): the actions the real
             \* code performed under the schedule are the actions of the TLC path
             pathDrift == IF r.path # <<>> /\ (Len(r.acts) < Len(r.path) \/ SubSeq(r.acts, 1, Len(r.path)) # r.path)
                          THEN <<"path_mismatch">> ELSE <<>>
         IN [why |-> [k \in 1..Len(bad) |-> bad[k][1]],
             drift |-> pathDrift \o Mech(r, m),
             skip |-> FALSE,
             \* non-trivial: two workers were between processing and turn hand-over at
             \* the same time, or a drop happened while a worker was active
             nt |-> IF r.mode = "child" THEN TRUE ELSE IF r.mode = "buffered" THEN m.dropped \/ m.maxLook >= r.cap + 1
                    ELSE m.maxActive >= 2 \/ (m.dropped /\ m.activeAtDrop >= 1)]

INSTANCE Stepper
=============================================================================
