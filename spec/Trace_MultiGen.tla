--------------------------- MODULE Trace_MultiGen ---------------------------
(* Validates complete iterations of the real MultiTrainDataGenerator (C07).  *)
(* Record: lens, strategy, seed, out = <<tag, source-of-payload, position>>, *)
(* out2 = second run with the same seed, ended.                              *)
EXTENDS TLC, Json, IOUtils, Naturals, Sequences, FiniteSets
Rec == ndJsonDeserialize(IOEnv.OBS)
NChunks == atoi(IOEnv.NCHUNKS)
VARIABLES c, i, nfail, nskip, nnt, ndrift

\* the property-layer operators of MultiGen, with the strategy taken from the record
M(s) == INSTANCE MultiGen WITH MaxSrc <- 0, MaxLen <- 0, Strategy <- s, Buggy <- FALSE,
                               lens <- <<>>, pos <- <<>>, fin <- <<>>, idx <- 0, out <- <<>>,
                               done <- FALSE, hang <- FALSE

Pairs(o) == [k \in 1..Len(o) |-> <<o[k][1], o[k][3]>>]

Clauses(r) ==
    LET o == Pairs(r.out) IN <<
    <<"terminates", r.ended>>,
    <<"tag_is_source", \A k \in 1..Len(r.out) : r.out[k][1] = r.out[k][2]>>,
    <<"per_source_order", M(r.strategy)!PerSourceOrder(o, r.lens)>>,
    <<"exactly_once", r.ended => M(r.strategy)!ExactlyOnce(o, r.lens)>>,
    <<"sequential_is_concatenation", r.strategy = "sequential" => M(r.strategy)!IsPrefixOf(o, M(r.strategy)!ConcatC(r.lens))>>,
    <<"interleaved_is_round_robin", r.strategy = "interleaved" => M(r.strategy)!IsPrefixOf(o, M(r.strategy)!RoundRobinC(r.lens))>>,
    <<"reproducible_from_seed", r.out = r.out2>>
    >>
\* not part of the property (C07 does not speak about ExactSizeIterator::len): mechanism layer, DRIFT only
Mech(r) == IF r.reported_len = M(r.strategy)!Total(r.lens) THEN <<>> ELSE <<"reported_length_is_not_the_total">>

Judge(r) ==
    IF r.st = "hang"
    THEN [why |-> <<"hang">>, drift |-> <<>>, skip |-> FALSE, nt |-> TRUE]
    ELSE IF r.st # "ok"
    THEN [why |-> <<r.st>>, drift |-> <<>>, skip |-> FALSE, nt |-> FALSE]
    ELSE LET cl == Clauses(r)
             bad == SelectSeq(cl, LAMBDA x : ~x[2])
         IN [why |-> [k \in 1..Len(bad) |-> bad[k][1]], drift |-> Mech(r), skip |-> FALSE,
             \* non-trivial: at least two sources, of different lengths or one empty
             nt |-> Len(r.lens) >= 2 /\ Cardinality({r.lens[k] : k \in 1..Len(r.lens)}) >= 2]

INSTANCE Stepper
=============================================================================
