------------------------------- MODULE Gen_Norm -------------------------------
(* Closed texts up to MaxLen code points x 4 schemes x both modes x input / target part; JSON literals: bodies of up to *)
(* MaxLen pieces over 9 piece kinds x opening / closing quote present x trailing piece.                                 *)
EXTENDS Norm, TLC, Json, IOUtils
CONSTANTS MaxLen
NormCases == IF IOEnv.FAMILY # "norm" THEN {} ELSE
    {[kind |-> "norm", t |-> t, scheme |-> s, g |-> g, part |-> p] :
        t \in {x \in UNION {[1..n -> 1..14] : n \in 0..MaxLen} : Closed(x)}, s \in {"nfc", "nfd", "nfkc", "nfkd"}, g \in BOOLEAN, p \in {"input"}}
Pieces == {[k |-> "c", n |-> 97, x |-> ""], [k |-> "c", n |-> 228, x |-> ""], [k |-> "c", n |-> 32, x |-> ""], [k |-> "e", n |-> 0, x |-> "n"],
           [k |-> "e", n |-> 0, x |-> "q"], [k |-> "e", n |-> 0, x |-> "b"], [k |-> "u", n |-> 233, x |-> ""], [k |-> "nl", n |-> 0, x |-> ""],
           [k |-> "bad", n |-> 0, x |-> ""], [k |-> "q", n |-> 0, x |-> ""]}
JsonCases == IF IOEnv.FAMILY # "json" THEN {} ELSE
    {[kind |-> "json", lit |-> [open |-> o, body |-> b, close |-> c, trail |-> tr], part |-> p] :
        b \in UNION {[1..n -> Pieces] : n \in 0..(MaxLen - 1)}, o \in BOOLEAN, c \in BOOLEAN,
        tr \in {<<>>, <<[k |-> "c", n |-> 97, x |-> ""]>>}, p \in {"input", "target"}}
Cases == NormCases \cup JsonCases
VARIABLE x
Init == x = 0 /\ ndJsonSerialize(IOEnv.OUT, SetToSeq(Cases))
Next == UNCHANGED x
=============================================================================
