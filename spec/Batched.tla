------------------------------ MODULE Batched ------------------------------
(***************************************************************************)
(* The batching iterator Batched of src/data/loading.rs (C06), with the    *)
(* window search find_subsequences_of_max_size_k of src/utils.rs.          *)
(*                                                                         *)
(* Items are records [id, sz].  One action per public next() call and      *)
(* mode.  Mechanism: the one-slot remainder / shuffle buffer `buf`, the    *)
(* refill loop, stable sort by size, pop-from-the-back, window choice.     *)
(* Named deviation: for the shuffled modes the buffer is re-shuffled on    *)
(* every call and its order is never observed otherwise, so the spec       *)
(* chooses an arbitrary permutation (shuffle) / window (sort + shuffle)    *)
(* instead of modelling the random number generator.                       *)
(***************************************************************************)
EXTENDS Naturals, Sequences, FiniteSets, SequencesExt

Max2(a, b) == IF a >= b THEN a ELSE b

RECURSIVE MaxSzAcc(_, _, _)
MaxSzAcc(s, k, acc) == IF k > Len(s) THEN acc ELSE MaxSzAcc(s, k + 1, Max2(acc, s[k].sz))
MaxSz(s) == MaxSzAcc(s, 1, 0)

\* BatchLimit::limit(): item count, or count x largest size
Lim(s, ltype) == IF ltype = "count" THEN Len(s) ELSE Len(s) * MaxSz(s)

\* batch_from: greedy, always at least one item; returns <<batch, rest>> where the
\* first element of rest (if any) is the overshooting item (the remainder)
RECURSIVE Greedy(_, _, _, _)
Greedy(items, rest, limit, ltype) ==
    IF rest = <<>> THEN <<items, <<>>>>
    ELSE LET x == Head(rest) IN
         IF Lim(Append(items, x), ltype) > limit /\ items # <<>>
         THEN <<items, rest>>
         ELSE Greedy(Append(items, x), Tail(rest), limit, ltype)

\* refill: pull while the buffer does not overshoot limit x prefetch; returns <<buf, up>>
RECURSIVE Refill(_, _, _, _, _)
Refill(buf, up, limit, pf, ltype) ==
    IF Lim(buf, ltype) <= limit * pf /\ up # <<>>
    THEN Refill(Append(buf, Head(up)), Tail(up), limit, pf, ltype)
    ELSE <<buf, up>>

\* stable sort by size (insertion after all items that are not larger)
RECURSIVE InsertSorted(_, _, _)
InsertSorted(s, x, k) ==
    IF k > Len(s) \/ s[k].sz > x.sz
    THEN SubSeq(s, 1, k - 1) \o <<x>> \o SubSeq(s, k, Len(s))
    ELSE InsertSorted(s, x, k + 1)
RECURSIVE SortAcc(_, _, _)
SortAcc(s, k, acc) == IF k > Len(s) THEN acc ELSE SortAcc(s, k + 1, InsertSorted(acc, s[k], 1))
SortBySize(s) == SortAcc(s, 1, <<>>)

Rev(s) == [k \in 1..Len(s) |-> s[Len(s) + 1 - k]]

-----------------------------------------------------------------------------
\* find_subsequences_of_max_size_k, transcribed loop: 0-based half-open windows <<start, end>>
Sz(v, s, e, ltype) == Lim(SubSeq(v, s + 1, e), ltype)

RECURSIVE FirstFit(_, _, _, _)
FirstFit(v, s, k, ltype) ==
    IF s < Len(v) /\ Sz(v, s, s + 1, ltype) > k THEN FirstFit(v, s + 1, k, ltype) ELSE s

RECURSIVE SubLoop(_, _, _, _, _, _, _)
SubLoop(v, k, ltype, start, end, prev, acc) ==
    IF ~(start < Len(v) /\ end <= Len(v)) THEN acc
    ELSE LET cur == Sz(v, start, end, ltype) IN
         IF cur <= k
         THEN SubLoop(v, k, ltype, start, end + 1, cur,
                      IF end >= Len(v) THEN Append(acc, <<start, end>>) ELSE acc)
         ELSE IF prev <= k
         THEN SubLoop(v, k, ltype, start + 1, end, cur, Append(acc, <<start, end - 1>>))
         ELSE SubLoop(v, k, ltype, start + 1, Max2(end, start + 2), cur, acc)

SubseqK(v, k, ltype) ==
    LET s0 == FirstFit(v, 0, k, ltype) IN
    IF s0 >= Len(v) THEN <<>>
    ELSE SubLoop(v, k, ltype, s0, s0 + 1, Sz(v, s0, s0 + 1, ltype), <<>>)

\* what the batching code needs from it
SubseqOk(v, k, ltype) ==
    LET w == SubseqK(v, k, ltype) IN
    /\ \A n \in 1..Len(w) : /\ w[n][1] < w[n][2] /\ w[n][2] <= Len(v)
                            /\ Sz(v, w[n][1], w[n][2], ltype) <= k
    /\ (w = <<>>) <=> (\A p \in 1..Len(v) : Lim(<<v[p]>>, ltype) > k)

-----------------------------------------------------------------------------
\* The iterator.  cfg = [limit, pf, ltype, sort, shuffle] (already clamped to >= 1)
CONSTANTS SizeSet, MaxN, MaxLimit, MaxPf

VARIABLES cfg, up, buf, out, done
vars == <<cfg, up, buf, out, done>>

Items(szs) == [k \in 1..Len(szs) |-> [id |-> k, sz |-> szs[k]]]

Init == /\ cfg \in [limit : 1..MaxLimit, pf : 1..MaxPf, ltype : {"count", "padded"},
                    sort : BOOLEAN, shuffle : BOOLEAN]
        /\ \E szs \in UNION {[1..n -> SizeSet] : n \in 0..MaxN} : up = Items(szs)
        /\ buf = <<>>
        /\ out = <<>>
        /\ done = FALSE

Emit(b) == out' = Append(out, b)

NextPlain ==
    /\ ~done /\ ~cfg.sort /\ ~cfg.shuffle
    /\ LET g == Greedy(<<>>, buf \o up, cfg.limit, cfg.ltype) IN
       IF g[1] = <<>>
       THEN done' = TRUE /\ UNCHANGED <<up, buf, out>>
       ELSE /\ Emit(g[1])
            /\ buf' = IF g[2] = <<>> THEN <<>> ELSE <<Head(g[2])>>
            /\ up' = IF g[2] = <<>> THEN <<>> ELSE Tail(g[2])
            /\ done' = FALSE
    /\ UNCHANGED cfg

\* pop from the back of `order` until the batch is full; the remainder goes back
PopBatch(order) ==
    LET g == Greedy(<<>>, Rev(order), cfg.limit, cfg.ltype) IN
    /\ Emit(g[1])
    /\ buf' = SubSeq(order, 1, Len(order) - Len(g[1]))

NextSorted ==
    /\ ~done /\ cfg.sort /\ ~cfg.shuffle
    /\ LET r == Refill(buf, up, cfg.limit, cfg.pf, cfg.ltype) IN
       IF r[1] = <<>>
       THEN done' = TRUE /\ UNCHANGED <<up, buf, out>>
       ELSE /\ PopBatch(SortBySize(r[1]))
            /\ up' = r[2]
            /\ done' = FALSE
    /\ UNCHANGED cfg

Perms(s) == {p \in [1..Len(s) -> 1..Len(s)] : \A a, b \in 1..Len(s) : a # b => p[a] # p[b]}

NextShuffled ==
    /\ ~done /\ ~cfg.sort /\ cfg.shuffle
    /\ LET r == Refill(buf, up, cfg.limit, cfg.pf, cfg.ltype) IN
       IF r[1] = <<>>
       THEN done' = TRUE /\ UNCHANGED <<up, buf, out>>
       ELSE /\ \E p \in Perms(r[1]) : PopBatch([k \in 1..Len(r[1]) |-> r[1][p[k]]])
            /\ up' = r[2]
            /\ done' = FALSE
    /\ UNCHANGED cfg

NextSortedShuffled ==
    /\ ~done /\ cfg.sort /\ cfg.shuffle
    /\ LET r == Refill(buf, up, cfg.limit, cfg.pf, cfg.ltype)
           s == SortBySize(r[1])
           w == SubseqK(s, cfg.limit, cfg.ltype)
       IN
       IF r[1] = <<>>
       THEN done' = TRUE /\ UNCHANGED <<up, buf, out>>
       ELSE /\ IF w = <<>>
               THEN Emit(<<s[Len(s)]>>) /\ buf' = SubSeq(s, 1, Len(s) - 1)
               ELSE \E n \in 1..Len(w) :
                       /\ Emit(SubSeq(s, w[n][1] + 1, w[n][2]))
                       /\ buf' = SubSeq(s, 1, w[n][1]) \o SubSeq(s, w[n][2] + 1, Len(s))
            /\ up' = r[2]
            /\ done' = FALSE
    /\ UNCHANGED cfg

Next == NextPlain \/ NextSorted \/ NextShuffled \/ NextSortedShuffled
Spec == Init /\ [][Next]_vars /\ WF_vars(Next)

-----------------------------------------------------------------------------
\* Property layer: predicates over the emitted batches (sequences of [id, sz]) and the input
AllIds(batches) == FlattenSeq([k \in 1..Len(batches) |-> [n \in 1..Len(batches[k]) |-> batches[k][n].id]])
NoDupSeq(s) == Cardinality({s[k] : k \in 1..Len(s)}) = Len(s)
NonEmpty(batches) == \A k \in 1..Len(batches) : batches[k] # <<>>
WithinLimit(batches, limit, ltype) ==
    \A k \in 1..Len(batches) : Len(batches[k]) > 1 => Lim(batches[k], ltype) <= limit
Partition(batches, n) == LET ids == AllIds(batches) IN NoDupSeq(ids) /\ {ids[k] : k \in 1..Len(ids)} = 1..n
\* plain mode: input order, and no batch could have taken the next item
InputOrder(batches) == LET ids == AllIds(batches) IN \A k \in 1..Len(ids) : ids[k] = k
GreedyMaximal(batches, limit, ltype) ==
    \A k \in 1..(Len(batches) - 1) :
        batches[k + 1] # <<>> => Lim(Append(batches[k], batches[k + 1][1]), ltype) > limit

N0 == Len(AllIds(out)) + Len(buf) + Len(up)

NoLoss == LET ids == AllIds(out) \o [k \in 1..Len(buf) |-> buf[k].id] \o [k \in 1..Len(up) |-> up[k].id]
          IN NoDupSeq(ids) /\ {ids[k] : k \in 1..Len(ids)} = 1..N0
LimitInv == NonEmpty(out) /\ WithinLimit(out, cfg.limit, cfg.ltype)
PlainInv == (~cfg.sort /\ ~cfg.shuffle) => InputOrder(out) /\ GreedyMaximal(out, cfg.limit, cfg.ltype)
DoneInv == done => (buf = <<>> /\ up = <<>> /\ Partition(out, N0))
SubseqInv == SubseqOk(SortBySize(buf \o up), cfg.limit, cfg.ltype)
Terminates == <>done
=============================================================================
