------------------------------ MODULE Trace_Proc ------------------------------
(* Validates recorded preprocessing() runs against Proc.tla: the observed final (input, target, marks, error)    *)
(* must be one of the outcomes Eval allows for the recorded configuration, initial pair and switch draw r.       *)
(* Record: cfg (txt fields as character views), iv / tv (views of the initial texts), r (draw in millionths),    *)
(* near (r within 1e-6 of a switch threshold), out = [i, t: code points; marks: sequence of <<k, v>>; err].      *)
EXTENDS Proc, TLC, Json, IOUtils
Rec == ndJsonDeserialize(IOEnv.OBS)
NChunks == atoi(IOEnv.NCHUNKS)
VARIABLES c, i, nfail, nskip, nnt, ndrift

MarkFn(m) == [k \in {m[j][1] : j \in 1..Len(m)} |-> LET j == CHOOSE q \in 1..Len(m) : m[q][1] = k IN m[j][2]]
RECURSIVE PrimOpsOf(_)
PrimOpsOf(n) == IF n.op \in {"chain", "switch"} THEN UNION {PrimOpsOf(n.kids[k]) : k \in 1..Len(n.kids)} ELSE {n.op}
WsOps == {"none", "clean", "nows", "fullws", "mark"}

JudgeOk(r) ==
    LET st0 == [i |-> r.iv, t |-> r.tv, marks |-> <<>>, err |-> FALSE]
        outs == Eval(r.cfg, st0, r.r)
        obs == [i |-> r.out.i, t |-> r.out.t, marks |-> MarkFn(r.out.marks), err |-> r.out.err]
        \* on an error the code returns no texts: only the error flag is compared
        match == \E s \in outs : IF s.err THEN obs.err ELSE Obs(s) = obs
        ops == PrimOpsOf(r.cfg)
        ws == {r.wsids[k] : k \in 1..Len(r.wsids)}
        cl == <<
          <<"outcome_is_allowed_by_the_pipeline_semantics", match>>,
          <<"whitespace_only_pipelines_keep_the_content",
              (ops \subseteq WsOps) => (~obs.err /\ SelectSeq(obs.i, LAMBDA x : x \notin ws) = SelectSeq(Cps(r.iv), LAMBDA x : x \notin ws)
                                                 /\ SelectSeq(obs.t, LAMBDA x : x \notin ws) = SelectSeq(Cps(r.tv), LAMBDA x : x \notin ws))>>,
          <<"substring_of_an_aligned_pair_is_aligned",
              (Content(r.iv) = Content(r.tv) /\ ops \subseteq WsOps \cup {"csub", "bsub"} /\ ~obs.err) =>
                  SelectSeq(obs.i, LAMBDA x : x \notin ws) = SelectSeq(obs.t, LAMBDA x : x \notin ws)>>,
          <<"same_seed_same_result", r.again>>
        >>
        bad == SelectSeq(cl, LAMBDA x : ~x[2])
    IN [why |-> [q \in 1..Len(bad) |-> bad[q][1]], drift |-> <<>>,
        \* a draw within 1e-6 of a switch threshold cannot be classified from the log
        skip |-> r.near,
        nt |-> Cardinality(ops \ {"none"}) >= 2 \/ ops \cap {"csub", "bsub"} # {}]

Judge(r) == IF r.st # "ok" THEN [why |-> <<r.st>>, drift |-> <<>>, skip |-> FALSE, nt |-> FALSE]
            ELSE IF r.near THEN [why |-> <<>>, drift |-> <<>>, skip |-> TRUE, nt |-> FALSE] ELSE JudgeOk(r)
INSTANCE Stepper
=============================================================================
