------------------------------- MODULE MC_Bpe -------------------------------
(***************************************************************************)
(* Design-level check for C02/C03: the merge machine as a state machine    *)
(* (one MergeStep per transition) over all well-formed tables with up to   *)
(* MaxTab entries over NB byte symbols and all words up to MaxWord bytes.  *)
(* Invariant: the tokens always concatenate to the word's bytes (lossless  *)
(* in every state); the machine terminates; the fixed point equals         *)
(* MergeFix; decoding the emitted ids returns the bytes.                   *)
(***************************************************************************)
EXTENDS Bpe, TLC
CONSTANTS NB, MaxTab, MaxWord, MaxEntry
ByteSet == 1..NB
Strs(n) == UNION {[1..k -> ByteSet] : k \in 2..n}
Tables == {t \in UNION {[1..k -> Strs(MaxEntry)] : k \in 0..MaxTab} : WellFormed(t)}
WordsB == UNION {[1..k -> ByteSet] : k \in 0..MaxWord}

VARIABLES tab, word, toks
vars == <<tab, word, toks>>
Init == tab \in Tables /\ word \in WordsB /\ toks = Singles(word)
MergeStep == /\ Best(tab, toks)[1] # 0
             /\ toks' = MergeAt(toks, Best(tab, toks)[2])
             /\ UNCHANGED <<tab, word>>
Next == MergeStep
Spec == Init /\ [][Next]_vars /\ WF_vars(Next)

Lossless == FlattenSeq(toks) = word
TokensKnown == \A k \in 1..Len(toks) : Len(toks[k]) = 1 \/ Idx(tab, toks[k]) # 0
FixedPoint == (Best(tab, toks)[1] = 0) =>
                 /\ toks = MergeFix(tab, Singles(word))
                 /\ Decode(tab, [k \in 1..Len(toks) |-> TokId(tab, toks[k])]) = word
\* "a word whose merge chain is in the table becomes a single token": if the whole word is an
\* entry whose two halves are produced by the machine, it ends as one token - checked on the
\* weaker, unconditional form: a single-token result is always the entry itself
SingleIsEntry == (Len(toks) = 1 /\ Len(word) >= 2) => Idx(tab, word) # 0
Terminates == <>(Best(tab, toks)[1] = 0)
=============================================================================
