--------------------------------- MODULE Norm ---------------------------------
(***************************************************************************)
(* Unicode normalisation as text-utils applies it (unicode::normalize and  *)
(* the Normalize preprocessing) and the JsonDecode preprocessing.          *)
(*                                                                         *)
(* Normalisation over a closed model alphabet of code points (slots):      *)
(*   1 e   2 U+0301 (combining acute, class 230)   3 é U+00E9   4 a        *)
(*   5 á U+00E1   6 i   7 í U+00ED   8 f   9 ﬁ U+FB01 (ligature)           *)
(*  10 ´ U+00B4 (spacing acute)  11 space   12 U+0327 (cedilla, class 202) *)
(*  13 CR  14 LF                                                           *)
(* Canonical decompositions: é = e ́, á = a ́, í = i ́.  Compatibility       *)
(* decompositions: ﬁ = f i, ´ = space ́.  Canonical ordering: the cedilla  *)
(* (class 202) goes in front of the acute (class 230).  Composition: e / a *)
(* / i followed by the acute (nothing of the same or a higher class in     *)
(* between) composes; the alphabet has no other composites (in particular  *)
(* none with the cedilla), so the texts are taken without an e / a / i     *)
(* directly in front of a cedilla.                                         *)
(* With use_graphemes every grapheme cluster is normalised on its own and  *)
(* the results are concatenated.                                           *)
(***************************************************************************)
EXTENDS Naturals, Sequences, FiniteSets, SequencesExt

E == 1  ACUTE == 2  EACUTE == 3  A == 4  AACUTE == 5  I == 6  IACUTE == 7  F == 8  FI == 9  SPACUTE == 10  SP == 11
CEDILLA == 12  CR == 13  LF == 14
IsMark(x) == x \in {ACUTE, CEDILLA}
Ccc(x) == IF x = ACUTE THEN 230 ELSE IF x = CEDILLA THEN 202 ELSE 0

Canon(x) == CASE x = EACUTE -> <<E, ACUTE>> [] x = AACUTE -> <<A, ACUTE>> [] x = IACUTE -> <<I, ACUTE>> [] OTHER -> <<x>>
Compat(x) == CASE x = FI -> <<F, I>> [] x = SPACUTE -> <<SP, ACUTE>> [] OTHER -> Canon(x)
Decompose(t, k) == FlattenSeq([n \in 1..Len(t) |-> IF k THEN Compat(t[n]) ELSE Canon(t[n])])

\* canonical ordering: inside every run of marks, stable sort by combining class (one bubble pass is enough here per
\* adjacent pair; repeated until nothing moves)
RECURSIVE Reorder(_)
Reorder(t) ==
    IF \E n \in 1..(Len(t) - 1) : Ccc(t[n]) > Ccc(t[n + 1]) /\ Ccc(t[n + 1]) > 0
    THEN LET n == CHOOSE m \in 1..(Len(t) - 1) : Ccc(t[m]) > Ccc(t[m + 1]) /\ Ccc(t[m + 1]) > 0 /\ \A j \in 1..(m - 1) : ~(Ccc(t[j]) > Ccc(t[j + 1]) /\ Ccc(t[j + 1]) > 0)
         IN Reorder([j \in 1..Len(t) |-> IF j = n THEN t[n + 1] ELSE IF j = n + 1 THEN t[n] ELSE t[j]])
    ELSE t
NFD(t) == Reorder(Decompose(t, FALSE))
NFKD(t) == Reorder(Decompose(t, TRUE))

Composite(s, m) == IF m # ACUTE THEN 0 ELSE CASE s = E -> EACUTE [] s = A -> AACUTE [] s = I -> IACUTE [] OTHER -> 0
\* composition: out = result so far, st = position in out of the last starter (0 = none), last = class of the last
\* character appended behind it (0 = none / starter)
RECURSIVE ComposeAcc(_, _, _, _, _)
ComposeAcc(t, k, out, st, last) ==
    IF k > Len(t) THEN out
    ELSE LET x == t[k]
             c == IF st > 0 /\ (last = 0 \/ last < Ccc(x)) /\ Ccc(x) > 0 THEN Composite(out[st], x) ELSE 0
         IN IF c # 0 THEN ComposeAcc(t, k + 1, [out EXCEPT ![st] = c], st, last)
            ELSE IF Ccc(x) = 0 THEN ComposeAcc(t, k + 1, Append(out, x), Len(out) + 1, 0)
            ELSE ComposeAcc(t, k + 1, Append(out, x), st, Ccc(x))
Compose(t) == ComposeAcc(t, 1, <<>>, 0, 0)
NFC(t) == Compose(NFD(t))
NFKC(t) == Compose(NFKD(t))
Normal(t, scheme) == CASE scheme = "nfc" -> NFC(t) [] scheme = "nfd" -> NFD(t) [] scheme = "nfkc" -> NFKC(t) [] OTHER -> NFKD(t)

\* grapheme clusters: a mark extends what is in front of it (not a control), CR LF is one cluster
StartsCluster(t, k) == k = 1 \/ ~((IsMark(t[k]) /\ t[k - 1] \notin {CR, LF}) \/ (t[k - 1] = CR /\ t[k] = LF))
Clusters(t) == LET st == SetToSortSeq({k \in 1..Len(t) : StartsCluster(t, k)}, LAMBDA x, y : x < y)
               IN [n \in 1..Len(st) |-> SubSeq(t, st[n], (IF n = Len(st) THEN Len(t) ELSE st[n + 1] - 1))]
NormalG(t, scheme, g) == IF g THEN FlattenSeq([n \in 1..Len(Clusters(t)) |-> Normal(Clusters(t)[n], scheme)]) ELSE Normal(t, scheme)
\* texts inside the closed alphabet: no e / a / i directly in front of a cedilla (their composites are not slots)
\* (a cedilla anywhere in the run of marks behind them is reordered next to the letter)
RECURSIVE BaseOf(_, _)
BaseOf(t, k) == IF k = 0 THEN 0 ELSE IF IsMark(t[k]) THEN BaseOf(t, k - 1) ELSE t[k]
Closed(t) == \A k \in 1..Len(t) : t[k] = CEDILLA => BaseOf(t, k - 1) \notin {E, A, I, EACUTE, AACUTE, IACUTE, FI}

-----------------------------------------------------------------------------
\* JsonDecode: the text must be one JSON string literal.  A literal is given as a sequence of pieces:
\*   "q" the quote character, "c:<n>" a plain character (code n), "nl" a raw line feed, "e:<x>" a two-character escape
\*   (\n, \t, \", \\, \/), "u:<n>" a \u escape, "bad" a backslash followed by a letter that is no escape
\* Decode returns [ok, txt]: the decoded code points.
PieceOk(p) == p.k \in {"c", "e", "u"}
PieceTxt(p) == CASE p.k = "c" -> <<p.n>> [] p.k = "u" -> <<p.n>>
                 [] p.k = "e" -> <<(CASE p.x = "n" -> 10 [] p.x = "t" -> 9 [] p.x = "q" -> 34 [] p.x = "b" -> 92 [] OTHER -> 47)>>
                 [] OTHER -> <<>>
\* lit = [open : BOOLEAN, body : pieces, close : BOOLEAN, trail : pieces after the closing quote]; what counts is the text as
\* written: quote pieces in the body open or close the string like the two optional outer quotes do
Q == [k |-> "q", n |-> 0, x |-> ""]
Flat(lit) == (IF lit.open THEN <<Q>> ELSE <<>>) \o lit.body \o (IF lit.close THEN <<Q>> ELSE <<>>) \o lit.trail
\* JSON allows whitespace (blank, line feed, ...) around the value
IsJsonWs(p) == p.k = "nl" \/ (p.k = "c" /\ p.n \in {32, 9, 13, 10})
RECURSIVE StripL(_), StripR(_)
StripL(f) == IF f # <<>> /\ IsJsonWs(f[1]) THEN StripL(Tail(f)) ELSE f
StripR(f) == IF f # <<>> /\ IsJsonWs(f[Len(f)]) THEN StripR(SubSeq(f, 1, Len(f) - 1)) ELSE f
Decode(lit) ==
    LET f == StripR(StripL(Flat(lit)))
        n == Len(f)
    IN IF n >= 2 /\ f[1].k = "q" /\ f[n].k = "q" /\ \A j \in 2..(n - 1) : PieceOk(f[j])
       THEN [ok |-> TRUE, txt |-> FlattenSeq([j \in 1..(n - 2) |-> PieceTxt(f[j + 1])])]
       ELSE [ok |-> FALSE, txt |-> <<>>]
=============================================================================
