------------------------------- MODULE InferOps -------------------------------
(* Variable-free operators of the inference-loader specification (shared by Infer.tla and Trace_Infer.tla):        *)
(* Expected = what "the first error ends the stream" means; Predicted = what the mechanism as written delivers for  *)
(* w workers (every source error stops one worker only, the first window failure that reaches the consumer stops     *)
(* the stream).  Items are [k : "ok" | "src" | "pipe", nw]; delivered windows are <<item index, window index, pos>>. *)
EXTENDS Naturals, Sequences, FiniteSets
Failing(s) == {p \in 1..Len(s) : s[p].k # "ok"}
FirstError(s) == IF Failing(s) = {} THEN 0 ELSE CHOOSE p \in Failing(s) : \A q \in Failing(s) : p <= q
RECURSIVE WindowsUpTo(_, _, _)
WindowsUpTo(s, p, e) ==      \* windows of the items at positions p..e-1, item index = position - 1
    IF p >= e THEN <<>> ELSE [j \in 1..s[p].nw |-> <<p - 1, j - 1, p>>] \o WindowsUpTo(s, p + 1, e)
Expected(s) == WindowsUpTo(s, 1, IF FirstError(s) = 0 THEN Len(s) + 1 ELSE FirstError(s))

RECURSIVE Outcome(_, _, _, _, _)
Outcome(s, p, idx, kills, acc) ==      \* the delivered sequence predicted for W workers (kills = workers left)
    IF p > Len(s) \/ kills = 0 THEN acc
    ELSE IF s[p].k = "src" THEN Outcome(s, p + 1, idx, kills - 1, acc)
    ELSE IF s[p].k = "pipe" THEN acc
    ELSE Outcome(s, p + 1, idx + 1, kills, acc \o [j \in 1..s[p].nw |-> <<idx, j - 1, p>>])
Predicted(s, w) == Outcome(s, 1, 0, IF w = 0 THEN 1 ELSE w, <<>>)
=============================================================================
