----------------------------- MODULE MC_EditWord -----------------------------
(***************************************************************************)
(* Design-level check for C15: chains of edit_word calls as a state        *)
(* machine (as corrupt_spelling drives it: the returned exclusion set is   *)
(* fed back) over words of distinct symbols, all exclusion subsets, all    *)
(* kind subsets and several table variants.  Invariants: the exclusion set *)
(* stays inside the word; action property: every excluded symbol survives  *)
(* at its re-indexed position; every mechanism step is a property step.    *)
(***************************************************************************)
EXTENDS EditWord, TLC
CONSTANTS MaxLen, MaxChain

T1 == [ins |-> {[p |-> BOW, s |-> 1, e |-> {<<7>>}], [p |-> 1, s |-> 2, e |-> {<<7, 8>>, <<>>}], [p |-> 2, s |-> EOW, e |-> {<<9>>}],
                [p |-> 3, s |-> EOW, e |-> {<<9>>}], [p |-> BOW, s |-> EOW, e |-> {<<7>>}]},
       rep |-> {[p |-> BOW, s |-> 1, n |-> 2, e |-> {<<7>>, <<>>}], [p |-> 1, s |-> 2, n |-> 3, e |-> {<<7, 8>>}],
                [p |-> 2, s |-> 3, n |-> EOW, e |-> {<<9>>}], [p |-> BOW, s |-> 1, n |-> EOW, e |-> {<<7, 8, 9>>}]},
       del |-> {1, 2, 3, 7}, fullDelete |-> FALSE, swp |-> {1, 2, 3, 4, 7, 8, 9}]
T2 == [T1 EXCEPT !.fullDelete = TRUE, !.swp = {1, 3}]
Tables == {T1, T2}

VARIABLES w, excl, kinds, tb, steps
vars == <<w, excl, kinds, tb, steps>>
Init == /\ w \in {[k \in 1..n |-> k] : n \in 0..MaxLen}
        /\ excl \in SUBSET (0..(Len(w) - 1))
        /\ kinds \in SUBSET {"i", "d", "r", "s"}
        /\ tb \in Tables
        /\ steps = 0
Edit == /\ steps < MaxChain
        /\ \E o \in Exact(w, excl, kinds, tb) : w' = o[1] /\ excl' = o[2]
        /\ steps' = steps + 1
        /\ UNCHANGED <<kinds, tb>>
Next == Edit
Spec == Init /\ [][Next]_vars

ExclInside == ExclWithin(w, excl)
\* the mechanism only produces steps the property layer allows
StepsAllowed == \A o \in Exact(w, excl, kinds, tb) : OneEdit(w, excl, kinds, tb, o[1], o[2]) /\ ExclWithin(o[1], o[2])
\* excluded symbols are never altered: the multiset of excluded symbols only grows
ExcludedSymbols(ww, ee) == {ww[x + 1] : x \in {y \in ee : y < Len(ww)}}
ExcludedSurvive == [][ExcludedSymbols(w, excl) \subseteq ExcludedSymbols(w', excl')]_vars
=============================================================================
