----------------------------- MODULE Trace_Pipe -----------------------------
(***************************************************************************)
(* Trace validation of recorded Pipe executions against the mechanism      *)
(* layer of Pipe.tla.  Rec is a log of runs; every run of this module's W  *)
(* is one initial state, its events are consumed one per step:             *)
(*       IsEvent(name) /\ <logged fields bound> /\ SpecAction(w)           *)
(* Two state changes of the code are lock-free and cannot be logged at     *)
(* their linearisation point: the channel put inside send() (between the   *)
(* BeforeSend and AfterSend events) and the turn store (between AfterSend  *)
(* and AfterAdvance).  They are applied lazily: when the next event can    *)
(* only be explained if the pending Send / Advance of some worker already  *)
(* happened, the two actions are composed, and the later AfterSend /       *)
(* AfterAdvance event of that worker is consumed as a stutter (`early`).   *)
(* Every reconstructed state is checked against Pipe's invariants.         *)
(* A run that cannot be matched is reported as DRIFT (the model no longer  *)
(* describes the code); property-layer verdicts come from Trace_PipeObs.   *)
(***************************************************************************)
EXTENDS Pipe, TLC, Json, IOUtils
Rec == ndJsonDeserialize(IOEnv.OBS)
Runs == {k \in 1..Len(Rec) : Rec[k].st = "ok" /\ Rec[k].W = W /\ Rec[k].N <= N}

VARIABLES run, l, early, pend
tvars == <<vars, run, l, early, pend>>

Ev == Rec[run].ev
E == Ev[l]

TInit == /\ run \in Runs
         /\ l = 1
         /\ early = [w \in Workers |-> "none"]
         /\ pend = <<>>
         /\ len = Rec[run].N
         /\ hook = TRUE
         /\ src = 0
         /\ pc = [w \in Workers |-> "top"]
         /\ tk = [w \in Workers |-> 0]
         /\ sok = [w \in Workers |-> TRUE]
         /\ sendNext = 0
         /\ chan = <<>>
         /\ out = <<>>
         /\ cons = "run"
         /\ calls = [i \in 0..(N - 1) |-> 0]
         /\ aborted = FALSE
         /\ srcAtDrop = 0

IsEvent(name) == l <= Len(Ev) /\ E.e = name /\ l' = l + 1 /\ run' = run
Stutter == UNCHANGED vars

TPull == /\ IsEvent("Pull")
         /\ IF E.k THEN src < len /\ src = E.x ELSE src = len
         /\ Take(E.w)
         /\ UNCHANGED <<early, pend>>

TCall == /\ IsEvent("Call")
         /\ tk[E.w] = E.x
         /\ Compute(E.w)
         /\ UNCHANGED <<early, pend>>

TSpin == /\ IsEvent("Spin")
         /\ pc[E.w] = "computed" /\ tk[E.w] = E.x
         /\ Stutter /\ UNCHANGED <<early, pend>>

\* the turn check passed: either it is this worker's turn, or the pending
\* store of its predecessor has already happened (lazy Advance)
TBeforeSend ==
    /\ IsEvent("BeforeSend")
    /\ tk[E.w] = E.x /\ pc[E.w] = "computed"
    /\ \/ /\ sendNext = tk[E.w]
          /\ SpinOk(E.w)
          /\ UNCHANGED <<early, pend>>
       \/ /\ sendNext # tk[E.w]
          /\ \E v \in Workers :
                /\ pc[v] = "sent" /\ early[v] = "none" /\ tk[v] + 1 = tk[E.w]
                /\ sendNext' = tk[v] + 1
                /\ pc' = [pc EXCEPT ![v] = IF sok[v] THEN "top" ELSE "exit", ![E.w] = "ready"]
                /\ early' = [early EXCEPT ![v] = "adv"]
                /\ pend' = pend
                /\ UNCHANGED <<hook, len, src, tk, sok, chan, out, cons, calls, aborted, srcAtDrop>>

TAfterSend ==
    /\ IsEvent("AfterSend")
    /\ tk[E.w] = E.x
    /\ \/ /\ early[E.w] = "send"
          /\ sok[E.w] = E.k
          /\ early' = [early EXCEPT ![E.w] = "none"]
          /\ pend' = pend
          /\ Stutter
       \/ /\ early[E.w] = "none"
          /\ Send(E.w)
          /\ sok'[E.w] = E.k
          /\ UNCHANGED <<early, pend>>
       \/ \* named deviation: the put happened just before the consumer's drop was
          \* logged / executed, the send still reports success
          /\ early[E.w] = "none" /\ pc[E.w] = "ready" /\ closed /\ E.k
          /\ sok' = [sok EXCEPT ![E.w] = TRUE]
          /\ pc' = [pc EXCEPT ![E.w] = "sent"]
          /\ UNCHANGED <<hook, len, src, tk, sendNext, chan, out, cons, calls, aborted, srcAtDrop, early, pend>>
       \/ \* the channel looks full only because the consumer has already taken the head
          \* but not yet logged its Recv (free-running runs): lazy Recv, then Send
          /\ early[E.w] = "none" /\ pc[E.w] = "ready" /\ ~closed /\ ~aborted /\ E.k
          /\ Len(chan) = Cap /\ pend = <<>> /\ cons = "run"
          /\ out' = Append(out, Head(chan))
          /\ pend' = <<Head(chan)>>
          /\ chan' = Append(Tail(chan), tk[E.w])
          /\ sok' = [sok EXCEPT ![E.w] = TRUE]
          /\ pc' = [pc EXCEPT ![E.w] = "sent"]
          /\ UNCHANGED <<hook, len, src, tk, sendNext, cons, calls, aborted, srcAtDrop, early>>

TAfterAdvance ==
    /\ IsEvent("AfterAdvance")
    /\ \/ /\ early[E.w] = "adv"
          /\ early' = [early EXCEPT ![E.w] = "none"]
          /\ pend' = pend
          /\ Stutter
       \/ /\ early[E.w] = "none"
          /\ Advance(E.w)
          /\ UNCHANGED <<early, pend>>

TExit == /\ IsEvent("Exit")
         /\ pc[E.w] = "exit"
         /\ Stutter /\ UNCHANGED <<early, pend>>

TAllExited == /\ IsEvent("AllExited")
              /\ \A w \in Workers : Gone(w)
              /\ Stutter /\ UNCHANGED <<early, pend>>

\* the consumer received x: it was at the head of the channel, or the pending
\* put of the turn holder has already happened (lazy Send)
TRecv ==
    /\ IsEvent("Recv")
    /\ \/ /\ pend = <<E.x>>
          /\ pend' = <<>>
          /\ Stutter /\ UNCHANGED early
       \/ /\ pend = <<>> /\ chan # <<>> /\ Head(chan) = E.x
          /\ Recv
          /\ UNCHANGED <<early, pend>>
       \/ /\ pend = <<>> /\ chan = <<>> /\ cons = "run" /\ ~aborted
          /\ \E w \in Workers :
                /\ pc[w] = "ready" /\ tk[w] = E.x /\ early[w] = "none"
                /\ pc' = [pc EXCEPT ![w] = "sent"]
                /\ sok' = [sok EXCEPT ![w] = TRUE]
                /\ out' = Append(out, E.x)
                /\ early' = [early EXCEPT ![w] = "send"]
                /\ pend' = pend
                /\ UNCHANGED <<hook, len, src, tk, sendNext, chan, cons, calls, aborted, srcAtDrop>>

TEnd == IsEvent("End") /\ End /\ UNCHANGED <<early, pend>>
TDrop == IsEvent("Drop") /\ Drop /\ UNCHANGED <<early, pend>>

TEvent == \/ TPull \/ TCall \/ TSpin \/ TBeforeSend \/ TAfterSend \/ TAfterAdvance
          \/ TExit \/ TAllExited \/ TRecv \/ TEnd \/ TDrop

\* a run is accepted when all of its events were consumed
TAccept == /\ l = Len(Ev) + 1
           /\ PrintT(<<"STAT", run, Len(Ev), 0, 0, 0, 0>>)
           /\ l' = l + 1
           /\ UNCHANGED <<vars, run, early, pend>>

\* no disjunct explains the next event: report and stop this run
TReject == /\ l <= Len(Ev)
           /\ ~ENABLED TEvent
           /\ PrintT(<<"DRIFT", run, <<"event", ToString(l), E.e>>>>)
           /\ PrintT(<<"STAT", run, Len(Ev), 0, 0, 0, 1>>)
           /\ l' = Len(Ev) + 2
           /\ UNCHANGED <<vars, run, early, pend>>

TNext == TEvent \/ TAccept \/ TReject
=============================================================================
