---------------------------- MODULE Trace_Metrics ----------------------------
(* Validates recorded calls of the correction metrics (C13).                   *)
EXTENDS Metrics, TLC, Json, IOUtils
Rec == ndJsonDeserialize(IOEnv.OBS)
NChunks == atoi(IOEnv.NCHUNKS)
VARIABLES c, i, nfail, nskip, nnt, ndrift

L == INSTANCE Lcs
W == INSTANCE Ws
E == INSTANCE EditDist

Failing(cl) == LET bad == SelectSeq(cl, LAMBDA x : ~x[2]) IN [k \in 1..Len(bad) |-> bad[k][1]]
V(cl, nt) == [why |-> Failing(cl), drift |-> <<>>, skip |-> FALSE, nt |-> nt]
Bounded(v) == Finite3(v) /\ InUnit(v.f) /\ InUnit(v.p) /\ InUnit(v.r)
Counts(r) == [k \in 1..Len(r.counts) |-> [e |-> r.counts[k].e, tp |-> r.counts[k].tp, fp |-> r.counts[k].fp, fn |-> r.counts[k].fn]]

\* ---- spelling correction --------------------------------------------------
SpellSeqOk(r, k) ==
    LET cnt == r.counts[k]
        miss == Len(r.tv[k]) - L!LcsLen(r.iv[k], r.tv[k], FALSE)
        changed == Len(r.iv[k]) - L!LcsLen(r.iv[k], r.pv[k], FALSE)
        same(a, b) == [n \in 1..Len(a) |-> a[n].i] = [n \in 1..Len(b) |-> b[n].i]
    IN /\ cnt.tp + cnt.fn = miss
       /\ cnt.fp <= changed
       /\ (same(r.pv[k], r.tv[k]) => (cnt.fp = 0 /\ cnt.fn = 0))
       /\ ((same(r.pv[k], r.iv[k]) /\ ~same(r.iv[k], r.tv[k])) => cnt.tp = 0)
       /\ (cnt.e <=> (miss = 0 /\ changed = 0))
JSpelling(r) ==
    LET allCounted == \A k \in 1..Len(r.counts) : r.counts[k].ok
        cs == Counts(r)
    IN V(<<
      <<"spelling_f1_is_total", r.micro.res = "ok" /\ r.seqavg.res = "ok" /\ allCounted>>,
      <<"spelling_f1_finite_and_in_unit_interval",
          (r.micro.res = "ok" => Bounded(r.micro.v)) /\ (r.seqavg.res = "ok" => Bounded(r.seqavg.v))>>,
      <<"spelling_counts_calibrated", allCounted => \A k \in 1..r.n : SpellSeqOk(r, k)>>,
      <<"micro_is_fbeta_of_summed_counts", (allCounted /\ r.micro.res = "ok" /\ Finite3(r.micro.v)) => MicroOk(r.micro.v, cs, r.bn, r.bd)>>,
      <<"sequence_average_is_mean_of_per_sequence_values",
          (allCounted /\ r.seqavg.res = "ok" /\ Finite3(r.seqavg.v)) => SeqAvgOk(r.seqavg.v, cs, r.bn, r.bd)>>
    >>, r.n >= 1 /\ \E k \in 1..Len(r.counts) : r.counts[k].tp + r.counts[k].fp + r.counts[k].fn > 0)

\* ---- whitespace correction ------------------------------------------------
OpSet(ops, mode) == {<<k, ops[k]>> : k \in {j \in 1..Len(ops) : (ops[j] = "i" /\ mode # "deletions") \/ (ops[j] = "d" /\ mode # "insertions")}}
WsSeq(r, k) ==
    LET gt == W!Ops(r.icv[k], r.tcv[k])
        pr == W!Ops(r.icv[k], r.pcv[k])
    IN IF gt = <<"fail">> \/ pr = <<"fail">> THEN [ok |-> FALSE, e |-> FALSE, tp |-> 0, fp |-> 0, fn |-> 0]
       ELSE LET g == OpSet(gt, r.mode)  p == OpSet(pr, r.mode) IN
            [ok |-> TRUE, e |-> g = {} /\ p = {}, tp |-> Cardinality(g \cap p), fp |-> Cardinality(p \ g), fn |-> Cardinality(g \ p)]
JWhitespace(r) ==
    LET exp == [k \in 1..r.n |-> WsSeq(r, k)]
        aligned == \A k \in 1..r.n : exp[k].ok
        ok == r.micro.res = "ok" /\ r.seqavg.res = "ok"
        cs == [k \in 1..r.n |-> [e |-> exp[k].e, tp |-> exp[k].tp, fp |-> exp[k].fp, fn |-> exp[k].fn]]
    IN V(<<
      <<"whitespace_f1_is_total_on_aligned_texts", aligned => ok>>,
      <<"whitespace_f1_error_not_panic_otherwise", ~aligned => (r.micro.res = "err" /\ r.seqavg.res = "err")>>,
      <<"whitespace_f1_finite_and_in_unit_interval", ok => (Bounded(r.micro.v) /\ Bounded(r.seqavg.v))>>,
      <<"whitespace_counts_are_the_set_comparison",
          (aligned /\ ok) => (Len(r.counts) = r.n /\ \A k \in 1..r.n :
                                 r.counts[k].tp = exp[k].tp /\ r.counts[k].fp = exp[k].fp /\ r.counts[k].fn = exp[k].fn)>>,
      <<"micro_is_fbeta_of_summed_counts", (aligned /\ ok /\ Finite3(r.micro.v)) => MicroOk(r.micro.v, cs, r.bn, r.bd)>>,
      <<"sequence_average_is_mean_of_per_sequence_values", (aligned /\ ok /\ Finite3(r.seqavg.v)) => SeqAvgOk(r.seqavg.v, cs, r.bn, r.bd)>>
    >>, aligned /\ \E k \in 1..r.n : exp[k].tp + exp[k].fp + exp[k].fn > 0)

\* ---- accuracy / binary F1 / mean edit distance -------------------------------
Count(p, t, pv, tv) == Cardinality({k \in 1..Len(p) : p[k] = pv /\ t[k] = tv})
JBinary(r) ==
    LET tp == Count(r.p, r.t, TRUE, TRUE)  fp == Count(r.p, r.t, TRUE, FALSE)  fn == Count(r.p, r.t, FALSE, TRUE)
        eq == Cardinality({k \in 1..Len(r.p) : r.p[k] = r.t[k]})
    IN V(<<
      <<"binary_f1_total", r.f1.res = "ok" /\ r.acc.res = "ok">>,
      <<"binary_f1_formula", r.f1.res = "ok" => (Bounded(r.f1.v) /\ FBetaOk(r.f1.v, tp, fp, fn, r.bn, r.bd))>>,
      <<"accuracy_formula", r.acc.res = "ok" => (IsNum(r.acc.v) /\ Near(r.acc.v.v, eq, Max2(Len(r.p), 1)))>>
    >>, tp + fp + fn > 0)

Strip(v) == [k \in 1..Len(v) |-> [i |-> v[k].i, w |-> v[k].w]]
RECURSIVE SumDist(_, _, _, _, _)
SumDist(av, bv, k, acc, norm) ==
    IF k > Len(av) THEN acc
    ELSE LET d == E!Dist(Strip(av[k]), Strip(bv[k]), FALSE, FALSE)
             den == Max2(Max2(Len(av[k]), Len(bv[k])), 1)
         IN SumDist(av, bv, k + 1, acc + (IF norm THEN Fix(d, den) ELSE d * M), norm)
JMed(r) ==
    LET n == Max2(Len(r.av), 1) IN
    V(<<
      <<"mean_edit_distance_total_and_finite", r.med.res = "ok" /\ r.mned.res = "ok" /\ IsNum(r.med.v) /\ IsNum(r.mned.v)>>,
      <<"mean_edit_distance_formula", (r.med.res = "ok" /\ IsNum(r.med.v)) => Abs(r.med.v.v * n, SumDist(r.av, r.bv, 1, 0, FALSE)) <= 2 * n>>,
      <<"mean_normalized_edit_distance_formula",
          (r.mned.res = "ok" /\ IsNum(r.mned.v)) => (Abs(r.mned.v.v * n, SumDist(r.av, r.bv, 1, 0, TRUE)) <= 2 * n /\ InUnit(r.mned.v))>>
    >>, Len(r.av) >= 1)

Judge(r) ==
    IF r.st # "ok" THEN [why |-> <<r.st>>, drift |-> <<>>, skip |-> FALSE, nt |-> TRUE]
    ELSE CASE r.kind = "spelling" -> JSpelling(r)
           [] r.kind = "whitespace" -> JWhitespace(r)
           [] r.kind = "binary" -> JBinary(r)
           [] OTHER -> JMed(r)
INSTANCE Stepper
=============================================================================
