-------------------------------- MODULE Infer --------------------------------
(***************************************************************************)
(* The inference loader of src/data/mod.rs (InferenceLoader::new):         *)
(*                                                                         *)
(*   source.scan(store error, end) .enumerate() .pipe(windows+tokenize, W) *)
(*         .scan(store error, end) .flatten() .batched() .buffered()       *)
(*                                                                         *)
(* Items are "ok" (with a number of windows), "src" (the source iterator   *)
(* fails at this position) or "pipe" (the window function fails on this    *)
(* text).  Both scans write the same one-place error slot, which the       *)
(* consumer reads when the stream is over.                                 *)
(*                                                                         *)
(* Mechanism layer, as the code is: Iterator::scan is not fused - after    *)
(* its closure returned None the next call pulls the next source item - and*)
(* every pipe worker stops at the first None it sees itself.  enumerate    *)
(* sits behind the scan, so a skipped item does not consume an index.      *)
(* Batching and buffering are the subject of C06 / C09 and are left out:   *)
(* the model delivers windows one by one.                                  *)
(***************************************************************************)
EXTENDS InferOps

CONSTANTS Items,      \* the set of item sequences considered; an item is [k : "ok" | "src" | "pipe", nw : number of windows]
          W           \* pipe workers; 0 = the unthreaded pipe (a plain map)

VARIABLES items, pos, cnt, wk, held, nextSend, chan, slot, delivered, cons
vars == <<items, pos, cnt, wk, held, nextSend, chan, slot, delivered, cons>>

Workers == 1..(IF W = 0 THEN 1 ELSE W)      \* the unthreaded pipe behaves like one worker that is the consumer itself

Init == /\ items \in Items
        /\ pos = 1 /\ cnt = 0
        /\ wk = [w \in Workers |-> "idle"]          \* idle | busy | exit
        /\ held = [w \in Workers |-> <<0, 0>>]      \* <<index given by enumerate, source position>>
        /\ nextSend = 0 /\ chan = <<>>
        /\ slot = 0                                 \* 0 = empty, else the source position of the stored error
        /\ delivered = <<>>                         \* <<item index, window index, source position>> as seen by the consumer
        /\ cons = "run"                             \* run | stopped (result scan ended the stream) | done

\* a worker asks the (shared, locked) upstream for the next item
Pull(w) ==
    /\ wk[w] = "idle" /\ cons # "done"
    /\ IF pos > Len(items)
       THEN wk' = [wk EXCEPT ![w] = "exit"] /\ UNCHANGED <<pos, cnt, held, slot>>
       ELSE /\ pos' = pos + 1
            /\ IF items[pos].k = "src"
               THEN \* source scan: store the error, return None - this worker stops, the others go on
                    /\ slot' = pos /\ wk' = [wk EXCEPT ![w] = "exit"] /\ UNCHANGED <<cnt, held>>
               ELSE /\ held' = [held EXCEPT ![w] = <<cnt, pos>>] /\ cnt' = cnt + 1
                    /\ wk' = [wk EXCEPT ![w] = "busy"] /\ UNCHANGED slot
    /\ UNCHANGED <<items, nextSend, chan, delivered, cons>>

\* results leave the pipe in index order (C05)
Send(w) ==
    /\ wk[w] = "busy" /\ held[w][1] = nextSend
    /\ chan' = Append(chan, held[w]) /\ nextSend' = nextSend + 1
    /\ wk' = [wk EXCEPT ![w] = IF cons = "stopped" THEN "exit" ELSE "idle"]
    /\ UNCHANGED <<items, pos, cnt, held, slot, delivered, cons>>

\* consumer side: result scan, flatten (fused: never polls again after the first None)
Take ==
    /\ cons = "run" /\ chan # <<>>
    /\ LET h == Head(chan) IN
       IF items[h[2]].k = "pipe"
       THEN slot' = h[2] /\ cons' = "stopped" /\ UNCHANGED delivered
       ELSE /\ delivered' = delivered \o [j \in 1..items[h[2]].nw |-> <<h[1], j - 1, h[2]>>]
            /\ UNCHANGED <<slot, cons>>
    /\ chan' = Tail(chan)
    /\ UNCHANGED <<items, pos, cnt, wk, held, nextSend>>

Finish ==
    /\ cons \in {"run", "stopped"} /\ (cons = "stopped" \/ (chan = <<>> /\ \A w \in Workers : wk[w] = "exit"))
    /\ cons' = "done"
    /\ UNCHANGED <<items, pos, cnt, wk, held, nextSend, chan, slot, delivered>>

Next == (\E w \in Workers : Pull(w) \/ Send(w)) \/ Take \/ Finish
Spec == Init /\ [][Next]_vars /\ WF_vars(Next)

-----------------------------------------------------------------------------
\* Property layer (what a user expects from "the first error ends the stream and is reported")
FirstErrorEndsTheStream == cons = "done" => delivered = Expected(items)
ErrorIsReported == cons = "done" => ((slot # 0) <=> (Failing(items) # {}))
ReportedErrorIsTheFirst == (cons = "done" /\ slot # 0) => slot = FirstError(items)
IndexIsPosition == \A j \in 1..Len(delivered) : delivered[j][1] = delivered[j][3] - 1

\* what the mechanism does guarantee: the stream goes on until as many source errors were met as there are workers
\* (or the first window failure reaches the consumer); indices are consecutive; some error that was met is reported
MechanismOutcome == cons = "done" => delivered = Predicted(items, W)
SomeMetErrorIsReported == (cons = "done" /\ slot # 0) => items[slot].k # "ok"
Terminates == <>(cons = "done")
=============================================================================
