------------------------------- MODULE Gen_Chat -------------------------------
(* Chats up to MaxMsgs messages over roles u, b, zz (unknown) x texts x partial flags, x three templates          *)
(* (no start/end; start and end; a role template without / with two patterns, which new() must reject).           *)
EXTENDS Naturals, Sequences, FiniteSets, SequencesExt, TLC, Json, IOUtils
CONSTANTS MaxMsgs
Msgs == [role : {"u", "b", "zz"}, text : {"", "hi {text} ä"}, partial : BOOLEAN]
Chats == UNION {[1..n -> Msgs] : n \in 0..MaxMsgs}
Cases == {[kind |-> "chat", tpl |-> t, chat |-> c] : t \in 1..4, c \in Chats}
VARIABLE x
Init == x = 0 /\ ndJsonSerialize(IOEnv.OUT, SetToSeq(Cases))
Next == UNCHANGED x
=============================================================================
