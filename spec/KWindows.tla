------------------------------ MODULE KWindows ------------------------------
(***************************************************************************)
(* src/utils.rs: find_subsequences_of_max_size_k (the sliding window that  *)
(* text::possible_byte_substrings and the batch builder of the loader use),*)
(* accumulate, run_length_encode / run_length_decode; and the two window   *)
(* enumerations of src/text.rs built on them.                              *)
(*                                                                         *)
(* A value is its weight (a natural number); a window is <<a, b>> =        *)
(* positions a..b-1 (0-based, half open, as in the code).  Size functions: *)
(*   "sum"    the sum of the weights (bytes of characters; items of a      *)
(*            batch under a batch-size limit have weight 1)                *)
(*   "padded" largest weight x number of values (padded item size)         *)
(* Both are monotone: a window is never larger than a window around it.    *)
(*                                                                         *)
(* The finder is written as the state machine of the code - one Step per   *)
(* evaluation of the loop condition - and, separately, as what it means:   *)
(* the fitting windows that cannot be extended on either side.             *)
(***************************************************************************)
EXTENDS Naturals, Sequences, FiniteSets, SequencesExt

SumSeq(s) == FoldLeft(LAMBDA acc, x : acc + x, 0, s)
MaxSeq(s) == FoldLeft(LAMBDA acc, x : IF x > acc THEN x ELSE acc, 0, s)
\* ("last" - the weight of the last value - is not monotone: the negative control of MC_KWindows)
Size(v, a, b, f) == LET w == SubSeq(v, a + 1, b) IN IF f = "sum" THEN SumSeq(w) ELSE IF f = "padded" THEN MaxSeq(w) * Len(w)
                                                    ELSE IF w = <<>> THEN 0 ELSE w[Len(w)]
Max2(x, y) == IF x > y THEN x ELSE y

-----------------------------------------------------------------------------
\* the machine: pc = "ff" (fast forward to the first value that fits on its own), "loop", "done"
M0 == [pc |-> "ff", start |-> 0, end |-> 0, prev |-> 0, out |-> <<>>]
Step(v, k, f, s) ==
    LET n == Len(v) IN
    IF s.pc = "ff" THEN
        IF s.start < n /\ Size(v, s.start, s.start + 1, f) > k THEN [s EXCEPT !.start = @ + 1]
        ELSE IF s.start >= n THEN [s EXCEPT !.pc = "done"]
        ELSE [s EXCEPT !.pc = "loop", !.end = s.start + 1, !.prev = Size(v, s.start, s.start + 1, f)]
    ELSE IF s.pc = "loop" THEN
        IF ~(s.start < n /\ s.end <= n) THEN [s EXCEPT !.pc = "done"]
        ELSE LET sz == Size(v, s.start, s.end, f) IN
             IF sz <= k THEN [s EXCEPT !.out = IF s.end >= n THEN Append(@, <<s.start, s.end>>) ELSE @, !.end = @ + 1, !.prev = sz]
             ELSE IF s.prev <= k THEN [s EXCEPT !.out = Append(@, <<s.start, s.end - 1>>), !.start = @ + 1, !.prev = sz]
             ELSE [s EXCEPT !.start = @ + 1, !.end = Max2(@, s.start + 2), !.prev = sz]
    ELSE s
RECURSIVE RunFrom(_, _, _, _)
RunFrom(v, k, f, s) == IF s.pc = "done" THEN s.out ELSE RunFrom(v, k, f, Step(v, k, f, s))
Run(v, k, f) == RunFrom(v, k, f, M0)

\* what it means
Fits(v, k, f, a, b) == a < b /\ Size(v, a, b, f) <= k
MaximalWindows(v, k, f) ==
    LET n == Len(v)
        ws == {w \in (0..n) \X (0..n) : /\ Fits(v, k, f, w[1], w[2])
                                         /\ (w[1] = 0 \/ ~Fits(v, k, f, w[1] - 1, w[2]))
                                         /\ (w[2] = n \/ ~Fits(v, k, f, w[1], w[2] + 1))}
    IN SetToSortSeq(ws, LAMBDA x, y : x[1] < y[1])

-----------------------------------------------------------------------------
\* accumulate: running totals; run-length coding: maximal runs
Accumulate(v) == [i \in 1..Len(v) |-> SumSeq(SubSeq(v, 1, i))]
RunStarts(v) == {i \in 1..Len(v) : i = 1 \/ v[i] # v[i - 1]}
RECURSIVE RunLen(_, _)
RunLen(v, i) == IF i + 1 > Len(v) \/ v[i + 1] # v[i] THEN 1 ELSE 1 + RunLen(v, i + 1)
Rle(v) == LET st == SetToSortSeq(RunStarts(v), LAMBDA x, y : x < y) IN [j \in 1..Len(st) |-> <<v[st[j]], RunLen(v, st[j])>>]
Unrle(e) == FoldLeft(LAMBDA acc, p : acc \o [j \in 1..p[2] |-> p[1]], <<>>, e)
\* the declarative reading of an encoding: it decodes to v, no empty run, neighbouring runs differ
IsRleOf(e, v) == /\ Unrle(e) = v
                 /\ \A j \in 1..Len(e) : e[j][2] >= 1
                 /\ \A j \in 1..(Len(e) - 1) : e[j][1] # e[j + 1][1]

-----------------------------------------------------------------------------
\* text.rs: the windows as byte ranges <<start byte, end byte, number of characters>>; v = byte widths of the characters
Bytes(v, a) == SumSeq(SubSeq(v, 1, a))
ByteWindows(v, maxb) == IF v = <<>> THEN << <<0, 0, 0>> >>
                        ELSE LET ws == MaximalWindows(v, maxb, "sum") IN [j \in 1..Len(ws) |-> <<Bytes(v, ws[j][1]), Bytes(v, ws[j][2]), ws[j][2] - ws[j][1]>>]
\* every window of exactly min(maxc, n) characters
CharWindows(v, maxc) == IF v = <<>> THEN << <<0, 0, 0>> >>
                        ELSE LET n == Len(v)
                                 m == IF maxc < n THEN maxc ELSE n
                             IN [j \in 1..(n - m + 1) |-> <<Bytes(v, j - 1), Bytes(v, j - 1 + m), m>>]
=============================================================================
