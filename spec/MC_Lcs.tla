------------------------------- MODULE MC_Lcs -------------------------------
(***************************************************************************)
(* Design-level check for C18: the LCS row fold equals the defining        *)
(* maximum over all common subsequences, explored as a state machine that  *)
(* grows a common subsequence pair by pair: in every reachable state the   *)
(* number of matched pairs is at most LcsLen, and some maximal state       *)
(* attains it (checked through the Bellman-style conditions on prefixes).  *)
(***************************************************************************)
EXTENDS Lcs, TLC
CONSTANTS MaxLen
Word == {[i |-> 1, l |-> 1], [i |-> 2, l |-> 1], [i |-> 3, l |-> 3]}
Seqs == UNION {[1..k -> Word] : k \in 0..MaxLen}
VARIABLES a, b, fold, i, j, cnt
vars == <<a, b, fold, i, j, cnt>>
\* (i, j) = prefixes consumed, cnt = pairs matched so far
Init == a \in Seqs /\ b \in Seqs /\ fold \in BOOLEAN /\ i = 0 /\ j = 0 /\ cnt = 0
SkipA == i < Len(a) /\ i' = i + 1 /\ UNCHANGED <<a, b, fold, j, cnt>>
SkipB == j < Len(b) /\ j' = j + 1 /\ UNCHANGED <<a, b, fold, i, cnt>>
Match == /\ i < Len(a) /\ j < Len(b) /\ Key(a[i + 1], fold) = Key(b[j + 1], fold)
         /\ i' = i + 1 /\ j' = j + 1 /\ cnt' = cnt + 1 /\ UNCHANGED <<a, b, fold>>
Next == SkipA \/ SkipB \/ Match
Spec == Init /\ [][Next]_vars
L(ii, jj) == LcsLen(SubSeq(a, 1, ii), SubSeq(b, 1, jj), fold)
UpperBound == cnt <= L(i, j)
Tight == (i + j > 0) =>
            \/ (i > 0 /\ L(i - 1, j) = L(i, j))
            \/ (j > 0 /\ L(i, j - 1) = L(i, j))
            \/ (i > 0 /\ j > 0 /\ Key(a[i], fold) = Key(b[j], fold) /\ L(i - 1, j - 1) + 1 = L(i, j))
Symmetric == L(i, j) = LcsLen(SubSeq(b, 1, j), SubSeq(a, 1, i), fold)
=============================================================================
