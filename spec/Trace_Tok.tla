------------------------------ MODULE Trace_Tok ------------------------------
(***************************************************************************)
(* Validates recorded tokenizer sessions (one record = one configuration   *)
(* with everything the real tokenizer answered and a list of texts).       *)
(* Clause names carry the property they belong to (C01, C02, C03, C04,     *)
(* C17); the orchestrator reports only the clauses of the property being   *)
(* checked.  Layout equalities against the spec's exact id layout are      *)
(* mechanism-level (DRIFT).                                                *)
(***************************************************************************)
EXTENDS Tok, TLC, Json, IOUtils
Rec == ndJsonDeserialize(IOEnv.OBS)
NChunks == atoi(IOEnv.NCHUNKS)
VARIABLES c, i, nfail, nskip, nnt, ndrift

B == INSTANCE Bpe
NONE == <<999>>

Failing(cl) == LET bad == SelectSeq(cl, LAMBDA x : ~x[2]) IN [k \in 1..Len(bad) |-> bad[k][1]]

\* Everything that depends only on the configuration is computed once per record
\* (TLC does not memoise operator applications) and passed around as the record x:
\*   S = special vocabulary, nreg = number of regular ids, sid[k] = observed id of special k (0: none),
\*   unk = observed unk id, pre / suf = bytes of the prefix / suffix spellings
FindFrom(vocab, bytes, lo, top) ==     \* smallest id in lo..top-1 with that vocabulary entry, or top
    LET cand == {id \in lo..(top - 1) : id + 1 <= Len(vocab) /\ vocab[id + 1] = bytes} IN
    IF cand = {} THEN top ELSE CHOOSE id \in cand : \A id2 \in cand : id <= id2

CtxWith(r, S, nreg) ==
    LET find(b) == FindFrom(r.vocab, b, nreg, r.vs)
        nameBytes(n) == LET ks == {k \in 1..Len(S) : S[k].n = n} IN
                        IF ks = {} THEN NONE ELSE S[CHOOSE k \in ks : TRUE].b
    IN [S |-> S, nreg |-> nreg, sid |-> [k \in 1..Len(S) |-> find(S[k].b)],
        unk |-> IF r.kind = "char" THEN find(r.unk.b) ELSE 0,
        padb |-> nameBytes(r.sp.pad),
        preb |-> [k \in 1..Len(r.sp.prefix) |-> nameBytes(r.sp.prefix[k])],
        sufb |-> [k \in 1..Len(r.sp.suffix) |-> nameBytes(r.sp.suffix[k])]]
\* S and nreg are bound through singleton sets: evaluated once (see Stepper)
Ctx(r) == CHOOSE y \in {CtxWith(r, S, n) : S \in {Specials(r)}, n \in {NumRegular(r)}} : TRUE

\* ---- C04: the id space is consistent ---------------------------------------
IsSpecialId(r, x, id, bytes) ==
    /\ id >= x.nreg /\ id < r.vs /\ id + 1 <= Len(r.vocab)
    /\ bytes # NONE /\ r.vocab[id + 1] = bytes

C04(r, x) == <<
    <<"C04:get_vocab_has_vocab_size_entries", Len(r.vocab) = r.vs>>,
    <<"C04:id_to_token_equals_get_vocab",
        \A id \in 0..(r.vs - 1) : id + 1 <= Len(r.vocab) => r.i2t[id + 1] = r.vocab[id + 1]>>,
    <<"C04:id_to_token_none_above_vocab_size",
        \A id \in r.vs..(Len(r.i2t) - 1) : r.i2t[id + 1] = NONE>>,
    \* token_to_id returns an id whose token is that byte string (its own id when the string is unique)
    <<"C04:token_to_id_inverts",
        \A id \in 0..(Len(r.vocab) - 1) :
            r.utf8[id + 1] =>
               LET back == r.t2i[id + 1] IN
               /\ back >= 0 /\ back + 1 <= Len(r.vocab) /\ r.vocab[back + 1] = r.vocab[id + 1]
               /\ ((id < x.nreg /\ back < x.nreg) => back = id)>>,
    <<"C04:pad_id_is_special", IsSpecialId(r, x, r.pad_id, x.padb)>>,
    <<"C04:prefix_ids_are_special",
        Len(r.prefix_ids) = Len(r.sp.prefix)
        /\ \A k \in 1..Len(r.prefix_ids) : IsSpecialId(r, x, r.prefix_ids[k], x.preb[k])>>,
    <<"C04:suffix_ids_are_special",
        Len(r.suffix_ids) = Len(r.sp.suffix)
        /\ \A k \in 1..Len(r.suffix_ids) : IsSpecialId(r, x, r.suffix_ids[k], x.sufb[k])>>,
    <<"C04:every_special_token_has_a_special_id", \A k \in 1..Len(x.S) : x.sid[k] < r.vs>>,
    <<"C04:unk_is_special", r.kind = "char" => x.unk < r.vs>>,
    <<"C04:single_regular_id_decodes_to_its_bytes",
        \A id \in 0..(x.nreg - 1) :
            id + 1 <= Len(r.vocab) =>
                \* a token that is text decodes to its bytes; one that is not (a lone byte >= 0x80) may fail to decode, but never
                \* decodes to other bytes
                IF r.utf8[id + 1] THEN r.dec1[id + 1] = r.vocab[id + 1] ELSE r.dec1[id + 1] = NONE>>
    >>

\* ---- per text -----------------------------------------------------------------
Wrap(r, body) == r.prefix_ids \o body \o r.suffix_ids

ByteText(r, x, t) ==
    LET v == t.v
        segs == Scan(v, x.S, FALSE)
        body == ByteBody(v, x.S, segs, LAMBDA k : x.sid[k])
        np == Len(r.prefix_ids)
        ns == Len(r.suffix_ids)
        all == AllBytes(v)
        gsObs == IF t.groups = <<>> THEN <<>> ELSE t.groups[1].groups
    IN <<
    <<"C01:byte_ids_are_prefix_bytes_suffix", t.ids = Wrap(r, body)>>,
    <<"C01:byte_ids_ignoring_special_tokens", t.ids_ig = Wrap(r, all)>>,
    <<"C01:byte_decode_keeps_everything", t.dec_keep = FlattenSeq(x.preb) \o all \o FlattenSeq(x.sufb)>>,
    <<"C01:byte_decode_body_is_text", t.dec_body = all>>,
    <<"C01:byte_decode_ignoring_is_text", t.dec_ig = all>>,
    <<"C17:groups_sum_to_token_count", GroupsLen(gsObs) = Len(t.ids)>>,
    <<"C17:one_group_per_character_and_special_token", Len(gsObs) = np + ns + NumChars(v, segs, r.g)>>,
    <<"C17:groups_are_the_characters", gsObs = ByteGroups(v, segs, r.g, r.groups = "code_points", np, ns)>>
    >>

CharText(r, x, t) ==
    LET v == t.v
        segs == Scan(v, x.S, FALSE)
        body == CharBody(v, x.S, segs, r.g, LAMBDA k : x.sid[k], x.unk)
        plain == \A n \in 1..Len(segs) : segs[n].t = "r"
    IN <<
    <<"C01:char_one_id_per_character", Len(t.ids) = Len(r.prefix_ids) + Len(r.suffix_ids) + NumChars(v, segs, r.g)>>,
    <<"C01:char_ids", t.ids = Wrap(r, body)>>,
    <<"C01:char_round_trip_over_alphabet", (plain /\ InAlphabet(v, r.g)) => t.dec_body = AllBytes(v)>>
    >>

BpeChars(v) == [k \in 1..Len(v) |-> [w |-> v[k].w, b |-> v[k].b]]
VocabBytes(r, ids) == FlattenSeq([k \in 1..Len(ids) |-> IF ids[k] + 1 <= Len(r.vocab) THEN r.vocab[ids[k] + 1] ELSE NONE])
BpeText(r, tab, t) ==
    LET v == BpeChars(t.v)
        np == Len(r.prefix_ids)
        ns == Len(r.suffix_ids)
        body == IF Len(t.ids_ig) >= np + ns THEN SubSeq(t.ids_ig, np + 1, Len(t.ids_ig) - ns) ELSE <<>>
        want == B!Bytes(B!StripTrailing(v))
    IN <<
    <<"C02:ids_are_valid_vocabulary_ids", \A k \in 1..Len(t.ids_ig) : t.ids_ig[k] < r.vs>>,
    <<"C02:prefix_and_suffix_ids", Len(t.ids_ig) >= np + ns /\ t.ids_ig = Wrap(r, body)>>,
    <<"C02:token_bytes_concatenate_to_text", VocabBytes(r, body) = want>>,
    <<"C02:decode_is_text_without_trailing_whitespace", t.dec_ig = want>>,
    <<"C03:canonical_merges", body = B!Encode(tab, v)>>
    >>

HasSpecialOrMultiByte(S, t) ==
    (\E p \in 1..Len(t.v) : Len(t.v[p].b) > 1) \/ (\E p \in 1..Len(t.v) : Matches(t.v, S, p) # {})

JudgeWith(r, x) ==
    LET tab == KeptTab(r)
        wellFormed == r.kind # "bpe" \/ B!WellFormed(tab)
        perText(t) == CASE r.kind = "byte" -> ByteText(r, x, t)
                        [] r.kind = "char" -> CharText(r, x, t)
                        [] OTHER -> BpeText(r, tab, t)
        usable(t) == r.kind = "bpe" \/ ~Ambiguous(t.v, x.S, 1)
        texts == SelectSeq(r.texts, usable)
        bad == Failing(C04(r, x) \o FlattenSeq([k \in 1..Len(texts) |-> perText(texts[k])]))
        layout == IF r.vocab = Regular(r) \o [k \in 1..Len(x.S) |-> x.S[k].b] THEN <<>> ELSE <<"vocabulary_layout_differs_from_Tok.tla">>
    IN IF ~wellFormed
       THEN [why |-> <<>>, drift |-> <<>>, skip |-> TRUE, nt |-> FALSE]
       ELSE [why |-> SetToSeq(ToSet(bad)), drift |-> layout, skip |-> Len(texts) < Len(r.texts),
             \* non-trivial: a text with a special token occurrence or a multi-byte character (byte/char),
             \* a text on which at least two merges apply (bpe)
             nt |-> IF r.kind = "bpe"
                    THEN \E k \in 1..Len(texts) : Len(texts[k].ids_ig) + 2 <= Len(AllBytes(texts[k].v))
                    ELSE \E k \in 1..Len(texts) : HasSpecialOrMultiByte(x.S, texts[k])]

\* x is bound through a singleton set: evaluated once (see Stepper)
JudgeOk(r) == CHOOSE y \in {JudgeWith(r, x) : x \in {Ctx(r)}} : TRUE

\* very long inputs (more than 65 535 bytes): only what can be checked in linear time - the text has no trailing
\* whitespace, so decoding the ids returns it exactly; every id is a vocabulary id; the byte tokenizer emits the bytes
JudgeLong(r) ==
    LET cl == <<
          <<"C02:decode_is_text_without_trailing_whitespace", r.which = "bpe" => r.dec = r.text>>,
          <<"C02:ids_are_valid_vocabulary_ids", r.which = "bpe" => \A k \in 1..Len(r.ids) : r.ids[k] < r.vs>>,
          \* the merge loop ran to its fixed point: no two neighbouring tokens concatenate to a table entry (the table has no
          \* whitespace, so neighbours across a word boundary never do)
          <<"C03:canonical_merges", r.which = "bpe" =>
              LET tb(id) == IF id < 256 THEN <<id>> ELSE IF id - 255 <= Len(r.tab) THEN r.tab[id - 255] ELSE <<>>
                  entries == {r.tab[k] : k \in 1..Len(r.tab)}
              IN \A k \in 1..(Len(r.ids) - 1) : (tb(r.ids[k]) \o tb(r.ids[k + 1])) \notin entries>>,
          <<"C01:byte_ids_are_prefix_bytes_suffix", r.which = "byte" => r.ids = r.text>>,
          <<"C01:byte_decode_body_is_text", r.which = "byte" => r.dec = r.text>>,
          \* the token groups of the byte tokenizer (grapheme mode, no prefix / suffix): one per character, covering every id
          <<"C17:groups_sum_to_token_count", (r.which = "byte" /\ r.ngroups >= 0) => r.gsum = Len(r.ids)>>,
          <<"C17:one_group_per_character_and_special_token", (r.which = "byte" /\ r.ngroups >= 0) => r.ngroups = r.nchars>>
        >>
        bad == SelectSeq(cl, LAMBDA x : ~x[2])
    IN [why |-> [k \in 1..Len(bad) |-> bad[k][1]], drift |-> <<>>, skip |-> FALSE, nt |-> TRUE]

Judge(r) ==
    IF r.st # "ok"
    THEN [why |-> <<r.st>>, drift |-> <<>>, skip |-> FALSE, nt |-> FALSE]
    ELSE IF r.kind = "long" THEN JudgeLong(r)
    ELSE JudgeOk(r)

INSTANCE Stepper
=============================================================================
