------------------------------- MODULE MC_Words -------------------------------
(* The three regex scans as step machines (one match attempt per step), for every text up to MaxLen code points over  *)
(* Slots and every needle up to MaxSub: what the scan has produced so far is what the declarative reading of the      *)
(* expressions demands for the consumed prefix, and at the end the two agree.                                         *)
EXTENDS Words, TLC
CONSTANTS MaxLen, MaxSub, Slots
VARIABLES kind, t, sub, g, pos, out
vars == <<kind, t, sub, g, pos, out>>
Texts(n) == UNION {[1..k -> Slots] : k \in 0..n}
Init == /\ kind \in {"count", "parts", "find"}
        /\ t \in Texts(MaxLen)
        /\ sub \in (IF kind = "find" THEN Texts(MaxSub) ELSE {<<>>})
        /\ g \in (IF kind = "find" THEN BOOLEAN ELSE {FALSE})
        /\ (kind = "parts" => \A k \in 1..Len(t) : ~IsWs(t[k]))
        /\ pos = 1 /\ out = <<>>
Done == pos = 0
\* one step of the count scan: the next match of \s+\S+|^\S+ at or behind pos
CountStep == /\ kind = "count" /\ ~Done
             /\ LET w == WsRun(t, pos)
                    n == NonWsRun(t, pos + w)
                IN IF pos <= Len(t) /\ n > 0 /\ (w > 0 \/ pos = 1)
                   THEN out' = Append(out, <<pos, pos + w, pos + w + n>>) /\ pos' = pos + w + n
                   ELSE out' = out /\ pos' = 0
\* one start position of the parts scan
PartsStep == /\ kind = "parts" /\ ~Done
             /\ IF pos > Len(t) THEN out' = out /\ pos' = 0
                ELSE IF InWordClass(t[pos]) /\ (pos = 1 \/ ~IsWordChar(t[pos - 1]))
                     THEN LET z == PartEnd(t, pos, pos + ClassRun(t, pos))
                          IN IF z = 0 THEN out' = out /\ pos' = pos + 1
                             ELSE out' = Append(out, <<pos - 1, SubSeq(t, pos, z - 1)>>) /\ pos' = z
                     ELSE out' = out /\ pos' = pos + 1
\* one start position of the substring search
FindStep == /\ kind = "find" /\ ~Done
            /\ IF pos > Len(t) + 1 THEN out' = NoMatch /\ pos' = 0
               ELSE LET z == Try(t, Groups(sub, g), pos, 1)
                    IN IF z # 0 THEN out' = <<pos, z>> /\ pos' = 0 ELSE out' = out /\ pos' = pos + 1
Next == (CountStep \/ PartsStep \/ FindStep) /\ UNCHANGED <<kind, t, sub, g>>
Spec == Init /\ [][Next]_vars /\ WF_vars(Next)

CountInv == (kind = "count" /\ Done) =>
    /\ out = CountMatches(t, 1)
    /\ \A lead \in BOOLEAN : Keys(t, lead) = DeclKeys(t, lead)
    \* the keys with their whitespace are disjoint pieces of the text, in order, and nothing but trailing whitespace is left
    /\ \A k \in 1..Len(out) : out[k][1] = (IF k = 1 THEN 1 ELSE out[k - 1][3])
    /\ LET e == IF out = <<>> THEN 1 ELSE out[Len(out)][3] IN \A j \in e..Len(t) : IsWs(t[j])
PartsInv == (kind = "parts" /\ Done) => /\ out = Parts(t) /\ out = ScanParts(t, 1)
PartsStepInv == (kind = "parts" /\ ~Done) =>
    \* every part that ends before the scan position has been emitted
    \A a \in RunStarts(t) : (IsPart(t, a) /\ a + ClassRun(t, a) <= pos) => \E k \in 1..Len(out) : out[k][1] = a - 1
GS == Groups(sub, g)
FindStepInv == (kind = "find" /\ ~Done) => \A p \in 1..(pos - 1) : \A z \in p..(Len(t) + 1) : ~MatchesAt(t, GS, p, z)
FindInv == (kind = "find" /\ Done) =>
    /\ out = Find(t, sub, g)
    /\ IF out = NoMatch THEN \A p \in 1..(Len(t) + 1) : \A z \in p..(Len(t) + 1) : ~MatchesAt(t, GS, p, z)
       ELSE /\ MatchesAt(t, GS, out[1], out[2])
            /\ \A p \in 1..(out[1] - 1) : \A z \in p..(Len(t) + 1) : ~MatchesAt(t, GS, p, z)
            /\ (out[2] = Len(t) + 1 \/ ~IsWs(t[out[2]]))
            /\ (out[1] = 1 \/ ~IsWs(t[out[1] - 1]))
            /\ NoWsCps(SubSeq(t, out[1], out[2] - 1)) = NoWsCps(FlattenSeq(GS))
    \* a needle without non-whitespace characters matches the leading whitespace of the text
    /\ (GS = <<>> => out = <<1, 1 + WsRun(t, 1)>>)
Terminates == <>Done
=============================================================================
