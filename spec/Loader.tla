-------------------------------- MODULE Loader --------------------------------
(***************************************************************************)
(* Index selection of TrainLoader::init_iter (C08):                        *)
(*   data.enumerate().take(limit).skip(skip + ff + rank).step_by(world)    *)
(* with the per-item seed  seed + epoch + global index.  The global index  *)
(* of an item is its position in the multi-source stream (MultiGen.tla);   *)
(* the rest of the pipeline (Pipe, Batched, Buffered) is order preserving  *)
(* (C05, C06, C09), so a loader run is characterised by the sequence of    *)
(* selected global indices.                                                *)
(*                                                                         *)
(* The machine pulls the indices 0, 1, 2, ... of a stream of length N      *)
(* through the adaptor chain for every rank of a world in lock step; the   *)
(* invariants are the sharding / split / resume clauses of the property.   *)
(***************************************************************************)
EXTENDS Naturals, Sequences, FiniteSets, SequencesExt

Min2(a, b) == IF a <= b THEN a ELSE b
\* limit < 0 stands for "no limit"
Bound(n, limit) == IF limit < 0 THEN n ELSE Min2(n, limit)
IsSelected(i, n, skip, limit, ff, rank, world) ==
    /\ i < Bound(n, limit) /\ i >= skip + ff + rank /\ (i - (skip + ff + rank)) % world = 0
Selected(n, skip, limit, ff, rank, world) == {i \in 0..(n - 1) : IsSelected(i, n, skip, limit, ff, rank, world)}
SelectedSeq(n, skip, limit, ff, rank, world) == SetToSortSeq(Selected(n, skip, limit, ff, rank, world), LAMBDA a, b : a < b)
ItemSeed(seed, epoch, i) == seed + epoch + i
\* min_items as reported by the loader
MinItems(n, skip, limit) == IF Bound(n, limit) >= skip THEN Bound(n, limit) - skip ELSE 0

CONSTANTS MaxN, MaxWorld
VARIABLES n, skip, limit, ff, world, i, out     \* out[r] = indices emitted so far for rank r (0-based ranks -> index r+1)
vars == <<n, skip, limit, ff, world, i, out>>

Init == /\ n \in 0..MaxN /\ skip \in 0..MaxN /\ limit \in {0 - 1} \cup 0..MaxN /\ ff \in 0..MaxN /\ world \in 1..MaxWorld
        /\ i = 0 /\ out = [r \in 1..world |-> <<>>]

\* one element of the enumerated stream passes through take / skip / step_by of every rank
Pull == /\ i < n
        /\ out' = [r \in 1..world |->
                     IF /\ (limit < 0 \/ i < limit)                       \* take(limit)
                        /\ i >= skip + ff + (r - 1)                       \* skip(skip + ff + rank)
                        /\ (i - (skip + ff + (r - 1))) % world = 0        \* step_by(world)
                     THEN Append(out[r], i) ELSE out[r]]
        /\ i' = i + 1
        /\ UNCHANGED <<n, skip, limit, ff, world>>
Next == Pull
Spec == Init /\ [][Next]_vars /\ WF_vars(Next)

Done == i = n
ToSetOf(s) == {s[k] : k \in 1..Len(s)}
\* the adaptor chain computes exactly the closed form
ClosedForm == Done => \A r \in 1..world : out[r] = SelectedSeq(n, skip, limit, ff, r - 1, world)
\* rank streams are pairwise disjoint
Disjoint == \A r1, r2 \in 1..world : r1 # r2 => ToSetOf(out[r1]) \cap ToSetOf(out[r2]) = {}
\* their union is the single-process stream restricted by skip (+ ff) and limit
UnionIsSingle == Done => UNION {ToSetOf(out[r]) : r \in 1..world} = Selected(n, skip, limit, ff, 0, 1)
\* skip = k and limit = k split the data without overlap and cover it
SplitAtK == \A k \in 0..MaxN :
               LET train == Selected(n, k, 0 - 1, 0, 0, 1)  val == Selected(n, 0, k, 0, 0, 1) IN
               train \cap val = {} /\ train \cup val = 0..(n - 1)
\* single process: fast_forward(k) = the uninterrupted stream after its first k items
Resume == (Done /\ world = 1) =>
             LET whole == SelectedSeq(n, skip, limit, 0, 0, 1) IN
             out[1] = SubSeq(whole, Min2(ff, Len(whole)) + 1, Len(whole))
\* a world of W resumed after m items per rank (fast_forward = m * W)
ResumeWorld == (Done /\ ff % world = 0) =>
             \A r \in 1..world :
                LET whole == SelectedSeq(n, skip, limit, 0, r - 1, world)  m == ff \div world IN
                out[r] = SubSeq(whole, Min2(m, Len(whole)) + 1, Len(whole))
Terminates == <>Done
=============================================================================
