---------------------------- MODULE LoaderShard ----------------------------
(***************************************************************************)
(* Unbounded arithmetic core of C08's sharding / split / resume clauses    *)
(* (Loader.tla checks the same statements with TLC for n <= MaxN):         *)
(* machine-checked with TLAPS (SMT back end) for every stream length,      *)
(* skip, limit and fast-forward offset, for worlds of 1 to 4 ranks.        *)
(*                                                                         *)
(* An index i of the enumerated stream is selected for rank r of a world   *)
(* of w ranks iff  i < lim  /\  i >= off + r  /\  (i - (off + r)) % w = 0  *)
(* where lim = min(n, limit) and off = skip + fast_forward.                *)
(***************************************************************************)
EXTENDS Integers, TLAPS

Sel(i, lim, off, r, w) == i < lim /\ i >= off + r /\ (i - (off + r)) % w = 0
\* the single-process stream (world of one rank: step_by(1) selects everything behind the offset)
Single(i, lim, off) == i < lim /\ i >= off
THEOREM SingleIsWorldOfOne == \A i, lim, off \in Nat : Single(i, lim, off) <=> Sel(i, lim, off, 0, 1)
<1> SUFFICES ASSUME NEW i \in Nat, NEW lim \in Nat, NEW off \in Nat PROVE Single(i, lim, off) <=> Sel(i, lim, off, 0, 1)
    OBVIOUS
<1>1 \A x \in Int : x % 1 = 0  BY SMTT(120)
<1> QED BY <1>1, SMTT(120) DEF Sel, Single

\* every index of the single-process stream belongs to exactly one rank (w = 2, 3, 4)
THEOREM Shard2 ==
    \A i, lim, off \in Nat :
        /\ Single(i, lim, off) <=> (Sel(i, lim, off, 0, 2) \/ Sel(i, lim, off, 1, 2))
        /\ ~(Sel(i, lim, off, 0, 2) /\ Sel(i, lim, off, 1, 2))
BY SMT DEF Sel, Single

THEOREM Shard3 ==
    \A i, lim, off \in Nat :
        /\ Single(i, lim, off) <=> (Sel(i, lim, off, 0, 3) \/ Sel(i, lim, off, 1, 3) \/ Sel(i, lim, off, 2, 3))
        /\ ~(Sel(i, lim, off, 0, 3) /\ Sel(i, lim, off, 1, 3))
        /\ ~(Sel(i, lim, off, 0, 3) /\ Sel(i, lim, off, 2, 3))
        /\ ~(Sel(i, lim, off, 1, 3) /\ Sel(i, lim, off, 2, 3))
<1> SUFFICES ASSUME NEW i \in Nat, NEW lim \in Nat, NEW off \in Nat
             PROVE /\ Single(i, lim, off) <=> (Sel(i, lim, off, 0, 3) \/ Sel(i, lim, off, 1, 3) \/ Sel(i, lim, off, 2, 3))
                   /\ ~(Sel(i, lim, off, 0, 3) /\ Sel(i, lim, off, 1, 3))
                   /\ ~(Sel(i, lim, off, 0, 3) /\ Sel(i, lim, off, 2, 3))
                   /\ ~(Sel(i, lim, off, 1, 3) /\ Sel(i, lim, off, 2, 3))
    OBVIOUS
<1>1 CASE i < off
    BY <1>1, SMTT(120) DEF Sel, Single
<1>2 CASE i >= off
    <2> DEFINE d == i - off
    <2>1 d \in Nat /\ i = off + d  BY <1>2
    <2>2 d % 3 = 0 \/ d % 3 = 1 \/ d % 3 = 2  BY <2>1, SMTT(120)
    <2>3 CASE d % 3 = 0
        <3>1 (i - (off + 0)) % 3 = 0  BY <2>1, <2>3, SMTT(120)
        <3>2 i >= off + 1 => (i - (off + 1)) % 3 = 2  BY <2>1, <2>3, SMTT(120)
        <3>3 i >= off + 2 => (i - (off + 2)) % 3 = 1  BY <2>1, <2>3, SMTT(120)
        <3>4 Single(i, lim, off) <=> Sel(i, lim, off, 0, 3)  BY <2>1, <3>1 DEF Sel, Single
        <3>5 ~Sel(i, lim, off, 1, 3)  BY <3>2 DEF Sel
        <3>6 ~Sel(i, lim, off, 2, 3)  BY <3>3 DEF Sel
        <3> QED BY <3>4, <3>5, <3>6
    <2>4 CASE d % 3 = 1  BY <2>1, <2>4, SMTT(120) DEF Sel, Single
    <2>5 CASE d % 3 = 2  BY <2>1, <2>5, SMTT(120) DEF Sel, Single
    <2> QED BY <2>2, <2>3, <2>4, <2>5
<1> QED BY <1>1, <1>2

THEOREM Shard4 ==
    \A i, lim, off \in Nat :
        /\ Single(i, lim, off) <=> (\/ Sel(i, lim, off, 0, 4) \/ Sel(i, lim, off, 1, 4)
                                    \/ Sel(i, lim, off, 2, 4) \/ Sel(i, lim, off, 3, 4))
        /\ \A r, s \in 0..3 : (Sel(i, lim, off, r, 4) /\ Sel(i, lim, off, s, 4)) => r = s
<1> SUFFICES ASSUME NEW i \in Nat, NEW lim \in Nat, NEW off \in Nat
             PROVE /\ Single(i, lim, off) <=> (\/ Sel(i, lim, off, 0, 4) \/ Sel(i, lim, off, 1, 4)
                                               \/ Sel(i, lim, off, 2, 4) \/ Sel(i, lim, off, 3, 4))
                   /\ \A r, s \in 0..3 : (Sel(i, lim, off, r, 4) /\ Sel(i, lim, off, s, 4)) => r = s
    OBVIOUS
<1>1 CASE i < off
    BY <1>1, SMTT(120) DEF Sel, Single
<1>2 CASE i >= off
    <2> DEFINE d == i - off
    <2>1 d \in Nat /\ i = off + d  BY <1>2
    <2>2 d % 4 = 0 \/ d % 4 = 1 \/ d % 4 = 2 \/ d % 4 = 3
        <3>1 \A x \in Nat : x % 4 = 0 \/ x % 4 = 1 \/ x % 4 = 2 \/ x % 4 = 3  BY SMTT(120)
        <3> QED BY <2>1, <3>1
    <2>3 CASE d % 4 = 0
        <3>1 (i - (off + 0)) % 4 = 0  BY <2>1, <2>3, SMTT(120)
        <3>2 i >= off + 1 => (i - (off + 1)) % 4 = 3  BY <2>1, <2>3, SMTT(120)
        <3>3 i >= off + 2 => (i - (off + 2)) % 4 = 2  BY <2>1, <2>3, SMTT(120)
        <3>4 i >= off + 3 => (i - (off + 3)) % 4 = 1  BY <2>1, <2>3, SMTT(120)
        <3>5 Single(i, lim, off) <=> Sel(i, lim, off, 0, 4)  BY <2>1, <3>1 DEF Sel, Single
        <3>6 ~Sel(i, lim, off, 1, 4)  BY <3>2 DEF Sel
        <3>7 ~Sel(i, lim, off, 2, 4)  BY <3>3 DEF Sel
        <3>8 ~Sel(i, lim, off, 3, 4)  BY <3>4 DEF Sel
        <3> QED BY <3>5, <3>6, <3>7, <3>8
    <2>4 CASE d % 4 = 1  BY <2>1, <2>4, SMTT(120) DEF Sel, Single
    <2>5 CASE d % 4 = 2  BY <2>1, <2>5, SMTT(120) DEF Sel, Single
    <2>6 CASE d % 4 = 3  BY <2>1, <2>6, SMTT(120) DEF Sel, Single
    <2> QED BY <2>2, <2>3, <2>4, <2>5, <2>6
<1> QED BY <1>1, <1>2

\* skip = k (training) and limit = k (validation) split a stream of n items without overlap and without loss
Min2(a, b) == IF a <= b THEN a ELSE b
THEOREM SplitAtK ==
    \A i, n, k \in Nat :
        i < n => /\ (Single(i, n, k) \/ Single(i, Min2(n, k), 0))
                 /\ ~(Single(i, n, k) /\ Single(i, Min2(n, k), 0))
BY SMT DEF Sel, Single, Min2

\* resuming: with w ranks, fast-forwarding by m * w removes exactly the first m items of every rank's stream.
\* The j-th item (j = 0, 1, ...) of rank r's uninterrupted stream is  skip + r + j * w.
Item(skip, r, w, j) == skip + r + j * w
THEOREM ItemsAreTheSelection ==
    \A i, lim, skip \in Nat : \A r \in 0..3 :
        /\ (Sel(i, lim, skip, r, 4) <=> (i < lim /\ \E j \in Nat : i = Item(skip, r, 4, j)))
<1> SUFFICES ASSUME NEW i \in Nat, NEW lim \in Nat, NEW skip \in Nat, NEW r \in 0..3
             PROVE Sel(i, lim, skip, r, 4) <=> (i < lim /\ \E j \in Nat : i = Item(skip, r, 4, j))
    OBVIOUS
<1>1 ASSUME Sel(i, lim, skip, r, 4) PROVE \E j \in Nat : i = Item(skip, r, 4, j)
    <2> DEFINE j0 == (i - (skip + r)) \div 4
    <2>1 j0 \in Nat /\ i = skip + r + j0 * 4  BY <1>1, SMT DEF Sel
    <2> QED BY <2>1 DEF Item
<1>2 ASSUME NEW j \in Nat, i = Item(skip, r, 4, j), i < lim PROVE Sel(i, lim, skip, r, 4)
    BY <1>2, SMT DEF Sel, Item
<1> QED BY <1>1, <1>2 DEF Sel

THEOREM ResumeWorld4 ==
    \A lim, skip, m \in Nat : \A r \in 0..3 : \A i \in Nat :
        Sel(i, lim, skip + m * 4, r, 4) <=> (Sel(i, lim, skip, r, 4) /\ i >= Item(skip, r, 4, m))
BY SMT DEF Sel, Item
=============================================================================
