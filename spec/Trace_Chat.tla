------------------------------ MODULE Trace_Chat ------------------------------
(* Validates recorded ChatTemplate::new / format calls and the ChatDecode preprocessing against Chat.tla.         *)
(* Record: tpl = [start, end, roles [name, n (number of {text} patterns), pre, post]], newok (new() accepted),    *)
(* chat [role, text, partial], out = [err, txt] (format), dec = [err, txt] (ChatDecode on the JSON chat).         *)
EXTENDS Chat, TLC, Json, IOUtils
Rec == ndJsonDeserialize(IOEnv.OBS)
NChunks == atoi(IOEnv.NCHUNKS)
VARIABLES c, i, nfail, nskip, nnt, ndrift
Failing(cl) == LET bad == SelectSeq(cl, LAMBDA x : ~x[2]) IN [k \in 1..Len(bad) |-> bad[k][1]]
JudgeOk(r) ==
    LET cl == <<
          <<"new_accepts_exactly_single_pattern_templates", r.newok = Valid(r.tpl)>>,
          <<"format_is_start_messages_end", r.newok => FormatOk(r.tpl, r.chat, r.out)>>,
          <<"format_equals_the_fold", r.newok => r.out = Format(r.tpl, r.chat)>>,
          <<"chat_decode_is_format_of_the_json_chat", r.newok => r.dec = r.out>>
        >>
    IN [why |-> Failing(cl), drift |-> <<>>, skip |-> FALSE, nt |-> Len(r.chat) >= 2]
Judge(r) == IF r.st # "ok" THEN [why |-> <<r.st>>, drift |-> <<>>, skip |-> FALSE, nt |-> FALSE] ELSE JudgeOk(r)
INSTANCE Stepper
=============================================================================
