--------------------------- MODULE Trace_EditDist ---------------------------
(* Validates recorded calls of distance / prefix_distance / operations /    *)
(* distances (C12) against EditDist.  One record per (a, b, flags).         *)
EXTENDS EditDist, TLC, Json, IOUtils
Rec == ndJsonDeserialize(IOEnv.OBS)
NChunks == atoi(IOEnv.NCHUNKS)
VARIABLES c, i, nfail, nskip, nnt, ndrift

Clauses(r) ==
    LET D == Dist(r.a, r.b, r.swap, r.sid)
        den == NormDen(r.a, r.b)
    IN <<
       <<"distance", r.d = D>>,
       <<"distances", r.ds = <<D, Dist(r.b, r.a, r.swap, r.sid)>> >>,
       <<"norm_finite", r.nd.t = "num">>,
       <<"norm_value", r.nd.t = "num" => RatOk(r.nd.v, D, den)>>,
       <<"norm_zero_if_equal", (Ids(r.a) = Ids(r.b) /\ r.nd.t = "num") => r.nd.v = 0>>,
       <<"norm_range", r.nd.t = "num" => (r.nd.v >= 0 /\ r.nd.v <= 1000000)>>,
       <<"prefix", r.pd = PrefixDist(r.a, r.b, r.swap, r.sid)>>,
       <<"ops_len", Len(r.ops) = D>>,
       <<"ops_script", ValidScript(r.a, r.b, r.ops, r.swap, r.sid)>>
    >>

\* a text of tens of thousands of characters against a very short one (lengths and distances beyond 16 bits): the clauses
\* that are linear in the long side (the distance is symmetric; the script is checked by its length only)
LongClauses(r) ==
    LET D == Dist(r.a, r.b, r.swap, r.sid)
    IN <<
       <<"distance", r.d = D>>,
       <<"distances", r.ds = <<D, D>> >>,
       \* to three decimals (TLC integers are 32-bit: the exact comparison multiplies by 10^6)
       <<"norm_value", r.nd.t = "num" /\ (LET q == (D * 1000) \div NormDen(r.a, r.b) IN (r.nd.v \div 1000) \in {q - 1, q, q + 1})>>,
       <<"prefix", r.pd = PrefixDist(r.a, r.b, r.swap, r.sid)>>,
       <<"ops_len", Len(r.ops) = D>>
    >>

Judge(r) ==
    IF r.st # "ok"
    THEN [why |-> <<r.st>>, drift |-> <<>>, skip |-> FALSE, nt |-> FALSE]
    ELSE LET cl == IF Len(r.a) > 5000 THEN LongClauses(r) ELSE Clauses(r)
             bad == SelectSeq(cl, LAMBDA x : ~x[2])
         IN [why |-> [k \in 1..Len(bad) |-> bad[k][1]],
             drift |-> <<>>,
             skip |-> FALSE,
             \* non-trivial: both strings non-empty and different
             nt |-> Len(r.a) > 0 /\ Len(r.b) > 0 /\ Ids(r.a) # Ids(r.b)]

INSTANCE Stepper
=============================================================================
