--------------------------- MODULE Trace_EditDist ---------------------------
(* Validates recorded calls of distance / prefix_distance / operations /    *)
(* distances (C12) against EditDist.  One record per (a, b, flags).         *)
EXTENDS EditDist, TLC, Json, IOUtils
Rec == ndJsonDeserialize(IOEnv.OBS)
NChunks == atoi(IOEnv.NCHUNKS)
VARIABLES c, i, nfail, nskip, nnt, ndrift

Clauses(r) ==
    LET D == Dist(r.a, r.b, r.swap, r.sid)
        den == NormDen(r.a, r.b)
    IN <<
       <<"distance", r.d = D>>,
       <<"distances", r.ds = <<D, Dist(r.b, r.a, r.swap, r.sid)>> >>,
       <<"norm_finite", r.nd.t = "num">>,
       <<"norm_value", r.nd.t = "num" => RatOk(r.nd.v, D, den)>>,
       <<"norm_zero_if_equal", (Ids(r.a) = Ids(r.b) /\ r.nd.t = "num") => r.nd.v = 0>>,
       <<"norm_range", r.nd.t = "num" => (r.nd.v >= 0 /\ r.nd.v <= 1000000)>>,
       <<"prefix", r.pd = PrefixDist(r.a, r.b, r.swap, r.sid)>>,
       <<"ops_len", Len(r.ops) = D>>,
       <<"ops_script", ValidScript(r.a, r.b, r.ops, r.swap, r.sid)>>
    >>

\* a text of tens of thousands of characters against a very short one (lengths and distances beyond 16 bits): the clauses
\* that are linear in the long side (the distance is symmetric; the script is checked by its length only)
\* both texts long with a long common beginning (more than 2^20 matrix cells): the distance is that of the two texts behind
\* their longest common prefix (an optimal alignment keeps a common prefix matched), which is folded off first
CommonPrefixLen(a, b) ==
    LET m == IF Len(a) <= Len(b) THEN Len(a) ELSE Len(b)
    IN FoldLeft(LAMBDA acc, k : IF acc[2] /\ a[k].i = b[k].i THEN <<acc[1] + 1, TRUE>> ELSE <<acc[1], FALSE>>, <<0, TRUE>>, [k \in 1..m |-> k])[1]
LongDist(r) ==
    IF Len(r.b) <= 64 THEN Dist(r.a, r.b, r.swap, r.sid)
    ELSE LET cp == CommonPrefixLen(r.a, r.b)
         IN Dist(SubSeq(r.a, cp + 1, Len(r.a)), SubSeq(r.b, cp + 1, Len(r.b)), r.swap, r.sid)
LongClauses(r) ==
    LET D == LongDist(r)
    IN <<
       <<"distance", r.d = D>>,
       <<"distances", r.ds = <<D, D>> >>,
       \* to three decimals (TLC integers are 32-bit: the exact comparison multiplies by 10^6)
       <<"norm_value", r.nd.t = "num" /\ (LET q == (D * 1000) \div NormDen(r.a, r.b) IN (r.nd.v \div 1000) \in {q - 1, q, q + 1})>>,
       <<"prefix", Len(r.b) <= 64 => r.pd = PrefixDist(r.a, r.b, r.swap, r.sid)>>,
       <<"ops_len", Len(r.ops) = D>>
    >>

Judge(r) ==
    IF r.st # "ok"
    THEN [why |-> <<r.st>>, drift |-> <<>>, skip |-> FALSE, nt |-> FALSE]
    ELSE LET cl == IF Len(r.a) > 1000 THEN LongClauses(r) ELSE Clauses(r)
             bad == SelectSeq(cl, LAMBDA x : ~x[2])
         IN [why |-> [k \in 1..Len(bad) |-> bad[k][1]],
             drift |-> <<>>,
             skip |-> FALSE,
             \* non-trivial: both strings non-empty and different
             nt |-> Len(r.a) > 0 /\ Len(r.b) > 0 /\ Ids(r.a) # Ids(r.b)]

INSTANCE Stepper
=============================================================================
