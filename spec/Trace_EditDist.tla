--------------------------- MODULE Trace_EditDist ---------------------------
(* Validates recorded calls of distance / prefix_distance / operations /    *)
(* distances (C12) against EditDist.  One record per (a, b, flags).         *)
EXTENDS EditDist, TLC, Json, IOUtils
Rec == ndJsonDeserialize(IOEnv.OBS)
NChunks == atoi(IOEnv.NCHUNKS)
VARIABLES c, i, nfail, nskip, nnt, ndrift

Clauses(r) ==
    LET D == Dist(r.a, r.b, r.swap, r.sid)
        den == NormDen(r.a, r.b)
    IN <<
       <<"distance", r.d = D>>,
       <<"distances", r.ds = <<D, Dist(r.b, r.a, r.swap, r.sid)>> >>,
       <<"norm_finite", r.nd.t = "num">>,
       <<"norm_value", r.nd.t = "num" => RatOk(r.nd.v, D, den)>>,
       <<"norm_zero_if_equal", (Ids(r.a) = Ids(r.b) /\ r.nd.t = "num") => r.nd.v = 0>>,
       <<"norm_range", r.nd.t = "num" => (r.nd.v >= 0 /\ r.nd.v <= 1000000)>>,
       <<"prefix", r.pd = PrefixDist(r.a, r.b, r.swap, r.sid)>>,
       <<"ops_len", Len(r.ops) = D>>,
       <<"ops_script", ValidScript(r.a, r.b, r.ops, r.swap, r.sid)>>
    >>

Judge(r) ==
    IF r.st # "ok"
    THEN [why |-> <<r.st>>, drift |-> <<>>, skip |-> FALSE, nt |-> FALSE]
    ELSE LET cl == Clauses(r)
             bad == SelectSeq(cl, LAMBDA x : ~x[2])
         IN [why |-> [k \in 1..Len(bad) |-> bad[k][1]],
             drift |-> <<>>,
             skip |-> FALSE,
             \* non-trivial: both strings non-empty and different
             nt |-> Len(r.a) > 0 /\ Len(r.b) > 0 /\ Ids(r.a) # Ids(r.b)]

INSTANCE Stepper
=============================================================================
