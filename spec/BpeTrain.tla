------------------------------ MODULE BpeTrain ------------------------------
(***************************************************************************)
(* Greedy BPE training (train_bpe, C19).                                   *)
(*                                                                         *)
(* corpus : sequence of [toks : sequence of byte strings, freq : Nat] -    *)
(*          the distinct whitespace-prefixed words with their counts,      *)
(*          each segmented by the merges learned so far                    *)
(* merges : the table so far (entry k has merge id k-1)                    *)
(* One MergeStep per learned merge: any adjacent token pair of maximal and *)
(* POSITIVE frequency (ties: any - the code iterates a hash map) is        *)
(* merged left to right, non-overlapping, in every word.  Training ends    *)
(* after NumMerges steps or when no pair occurs any more.                  *)
(* AllowZero = TRUE models the pinned commit, which kept merging           *)
(* zero-frequency pairs after the corpus was exhausted (negative control). *)
(***************************************************************************)
EXTENDS Naturals, Sequences, FiniteSets, SequencesExt

CountIn(toks, a, b) == Cardinality({p \in 1..(Len(toks) - 1) : toks[p] = a /\ toks[p + 1] = b})
RECURSIVE FreqAcc(_, _, _, _, _)
FreqAcc(corpus, a, b, k, acc) ==
    IF k > Len(corpus) THEN acc
    ELSE FreqAcc(corpus, a, b, k + 1, acc + corpus[k].freq * CountIn(corpus[k].toks, a, b))
Freq(corpus, a, b) == FreqAcc(corpus, a, b, 1, 0)

Pairs(corpus) == UNION {{<<corpus[k].toks[p], corpus[k].toks[p + 1]>> : p \in 1..(Len(corpus[k].toks) - 1)} : k \in 1..Len(corpus)}
MaxFreq(corpus) == LET ps == Pairs(corpus) IN
                   IF ps = {} THEN 0 ELSE CHOOSE m \in {Freq(corpus, p[1], p[2]) : p \in ps} :
                                             \A p \in ps : Freq(corpus, p[1], p[2]) <= m
Best(corpus) == {p \in Pairs(corpus) : Freq(corpus, p[1], p[2]) = MaxFreq(corpus)}

\* replace_pair_in_word: left to right, a merged token is never merged again in the same pass
RECURSIVE ReplaceAcc(_, _, _, _, _)
ReplaceAcc(toks, a, b, k, acc) ==
    IF k > Len(toks) THEN acc
    ELSE IF acc # <<>> /\ acc[Len(acc)] = a /\ toks[k] = b
         THEN ReplaceAcc(toks, a, b, k + 1, SubSeq(acc, 1, Len(acc) - 1) \o <<a \o b>>)
         ELSE ReplaceAcc(toks, a, b, k + 1, Append(acc, toks[k]))
Replace(toks, a, b) == ReplaceAcc(toks, a, b, 1, <<>>)
ReplaceInCorpus(corpus, a, b) == [k \in 1..Len(corpus) |-> [toks |-> Replace(corpus[k].toks, a, b), freq |-> corpus[k].freq]]

Singles(bytes) == [k \in 1..Len(bytes) |-> <<bytes[k]>>]

CONSTANTS Words,      \* set of words (byte sequences) a corpus is drawn from
          MaxDistinct, MaxFreqC, MaxMerges, AllowZero

VARIABLES corpus, merges, numMerges, done
vars == <<corpus, merges, numMerges, done>>

Init == /\ \E ws \in SUBSET Words :
              /\ Cardinality(ws) <= MaxDistinct
              /\ \E f \in [ws -> 1..MaxFreqC] :
                    corpus = LET s == SetToSeq(ws) IN [k \in 1..Len(s) |-> [toks |-> Singles(s[k]), freq |-> f[s[k]]]]
        /\ merges = <<>>
        /\ numMerges \in 0..MaxMerges
        /\ done = FALSE

MergeStep == /\ ~done /\ Len(merges) < numMerges
             /\ \E p \in Pairs(corpus) :
                   /\ Freq(corpus, p[1], p[2]) = MaxFreq(corpus)
                   /\ merges' = Append(merges, p[1] \o p[2])
                   /\ corpus' = ReplaceInCorpus(corpus, p[1], p[2])
             /\ UNCHANGED <<numMerges, done>>

\* the pinned commit: once no pair occurs, a stale zero-frequency pair is "merged" again and
\* its table entry is re-numbered
ZeroStep == /\ AllowZero /\ ~done /\ Len(merges) < numMerges /\ Pairs(corpus) = {} /\ merges # <<>>
            /\ \E k \in 1..Len(merges) : merges' = Append(merges, merges[k])
            /\ UNCHANGED <<corpus, numMerges, done>>

Finish == /\ ~done /\ (Len(merges) = numMerges \/ (Pairs(corpus) = {} /\ ~(AllowZero /\ merges # <<>>)))
          /\ done' = TRUE
          /\ UNCHANGED <<corpus, merges, numMerges>>

Next == MergeStep \/ ZeroStep \/ Finish
Spec == Init /\ [][Next]_vars /\ WF_vars(Next)

-----------------------------------------------------------------------------
B == INSTANCE Bpe
NoDuplicates == \A j, k \in 1..Len(merges) : j # k => merges[j] # merges[k]
WellFormedTable == B!WellFormed(merges)
AtMostRequested == Len(merges) <= numMerges
WordsIntact == \A k \in 1..Len(corpus) : Len(FlattenSeq(corpus[k].toks)) >= 1
\* the corpus is always segmented exactly as the canonical encoder of the learned table segments it
\* (ties the trainer to C03: what training merged is what tokenization will merge)
Terminates == <>done
=============================================================================
