------------------------------- MODULE Gen_Tok -------------------------------
(***************************************************************************)
(* Enumerates bounded configuration / text spaces of the tokenizers for    *)
(* replay into the real code (C01-C04, C17).  FAMILY selects the space:    *)
(*  "text"  : byte and char tokenizers x all texts up to MaxLen over the   *)
(*            8 slots a, a-umlaut, e+combining acute, space, <, p, >, emoji*)
(*            (every near miss of the special token <p> occurs)            *)
(*  "vocab" : special-token lists with duplicates, pad / prefix / suffix   *)
(*            choices, pad_to_multiple_of, for byte and char tokenizers    *)
(*  "bpe"   : all well-formed merge tables with <= MaxTab entries over NB  *)
(*            byte slots x all texts up to MaxLen over the slots and one   *)
(*            whitespace slot (0), with max_vocab_size truncations         *)
(*  "bpesub": tables made of substrings of one word (see BpeSubCases)      *)
(***************************************************************************)
EXTENDS Naturals, Sequences, FiniteSets, SequencesExt, TLC, Json, IOUtils
CONSTANTS MaxLen, NB, MaxTab, MaxEntry, MaxToks, PadTos
B == INSTANCE Bpe

SeqsOver(S, n) == UNION {[1..k -> S] : k \in 0..n}
Chunks(s, n) == [k \in 1..((Len(s) + n - 1) \div n) |-> SubSeq(s, (k - 1) * n + 1, IF k * n < Len(s) THEN k * n ELSE Len(s))]

Sp(tokens, pad, prefix, suffix) == [tokens |-> tokens, pad |-> pad, prefix |-> prefix, suffix |-> suffix]
Wraps == {<< <<>>, <<>> >>, << <<"<b>">>, <<>> >>, << <<>>, <<"<e>">> >>, << <<"<b>", "<e>", "<b>">>, <<"<e>", "<p>">> >>}

Fam(f) == IOEnv.FAMILY = f
TextCases == IF ~Fam("text") THEN {} ELSE
    LET texts == SetToSeq(SeqsOver(1..8, MaxLen))
        chunks == Chunks(texts, 200)
        toks == <<"<p>", "<u>", "<b>", "<e>", "<pad>">>
    IN { [kind |-> "byte", special |-> Sp(toks, "<pad>", w[1], w[2]), g |-> g, pad_to |-> pt,
          groups |-> gr, agg |-> "mean", unk |-> "<u>", slots |-> chunks[c]] :
            w \in Wraps, g \in BOOLEAN, pt \in {0, 128}, gr \in {"bytes", "code_points"}, c \in 1..Len(chunks) }
       \cup   \* the pad token is one that the slot texts can spell (<p>): a text may end with it
       { [kind |-> "byte", special |-> Sp(toks, "<p>", <<>>, s), g |-> g, pad_to |-> 0,
          groups |-> "bytes", agg |-> "mean", unk |-> "<u>", slots |-> chunks[c]] :
            s \in {<<>>, <<"<p>">>}, g \in BOOLEAN, c \in 1..Len(chunks) }
       \cup
       { [kind |-> "char", special |-> Sp(toks, "<pad>", w[1], w[2]), g |-> g, pad_to |-> 0,
          groups |-> "bytes", agg |-> "mean", unk |-> u, slots |-> chunks[c]] :
            w \in Wraps, g \in BOOLEAN, u \in {"<u>", "<oov>"}, c \in 1..Len(chunks) }

\* special tokens spelled with regular-expression metacharacters ("<|p|>" read as a pattern matches a lone <, p or >;
\* "p." matches p followed by anything): they never occur in the slot texts, so nothing may be parsed as special
MetaCases == IF ~Fam("text") THEN {} ELSE
    LET texts == SetToSeq(SeqsOver(1..8, MaxLen))
        chunks == Chunks(texts, 200)
        toks == <<"<p>", "<u>", "<b>", "<e>", "<pad>", "<|p|>", "p.", "[p]", "a+", "(p)">>
    IN { [kind |-> "byte", special |-> Sp(toks, "<pad>", <<"<b>">>, <<"<e>">>), g |-> g, pad_to |-> 0,
          groups |-> "bytes", agg |-> "mean", unk |-> "<u>", slots |-> chunks[c]] : g \in BOOLEAN, c \in 1..Len(chunks) }
       \cup
       { [kind |-> "char", special |-> Sp(toks, "<pad>", <<"<b>">>, <<"<e>">>), g |-> g, pad_to |-> 0,
          groups |-> "bytes", agg |-> "mean", unk |-> "<u>", slots |-> chunks[c]] : g \in BOOLEAN, c \in 1..Len(chunks) }

Spell == IF MaxToks >= 4 THEN {"<p>", "<u>", "<pad>", "<e>"} ELSE {"<p>", "<u>", "<pad>"}
TokLists == IF ~Fam("vocab") THEN {} ELSE {t \in SeqsOver(Spell, MaxToks) : \E k \in 1..Len(t) : t[k] = "<pad>"}
VocabCasesOf(t) ==
    { [kind |-> "byte", special |-> Sp(t, "<pad>", pre, suf), g |-> FALSE, pad_to |-> pt,
       groups |-> "bytes", agg |-> "sum", unk |-> "<u>", slots |-> << <<1, 5, 6, 7, 4>> >>] :
         pre \in {<<>>} \cup {<<t[1]>>}, suf \in {<<>>} \cup {<<t[Len(t)], t[1]>>}, pt \in PadTos }
    \cup
    { [kind |-> "char", special |-> Sp(t, "<pad>", pre, suf), g |-> FALSE, pad_to |-> 0,
       groups |-> "bytes", agg |-> "sum", unk |-> u, slots |-> << <<1, 5, 6, 7, 4>> >>] :
         pre \in {<<>>} \cup {<<t[1]>>}, suf \in {<<>>} \cup {<<t[Len(t)], t[1]>>}, u \in {"<u>", "<oov>"} }
VocabCases == UNION {VocabCasesOf(t) : t \in TokLists}

ByteStrs == UNION {[1..k -> 1..NB] : k \in 2..MaxEntry}
Tables == IF ~Fam("bpe") THEN {} ELSE {t \in UNION {[1..k -> ByteStrs] : k \in 0..MaxTab} : B!WellFormed(t)}
\* limits that leave no room for merges, or not even for the 256 bytes and the special tokens (family option LOWMV)
LowMv == IF "LOWMV" \in DOMAIN IOEnv THEN {1, 64, 255, 256, 257} ELSE {64, 257}
\* limits that are looser than the table needs (family option LOWMV as well)
HighMv(t) == IF "LOWMV" \in DOMAIN IOEnv THEN {258 + Len(t) + 3, 1000} ELSE {}
BpeCasesOf(t, texts) ==
    { [kind |-> "bpe", special |-> Sp(<<"<pad>", "<b>">>, "<pad>", w[1], w[2]), g |-> FALSE, pad_to |-> 0,
       groups |-> "bytes", agg |-> "mean", unk |-> "<u>", tabslots |-> t, max_vocab |-> mv, bslots |-> texts] :
         w \in {<< <<>>, <<>> >>, << <<"<b>">>, <<"<pad>">> >>},
         mv \in {0} \cup {258 + k : k \in 0..Len(t)} \cup LowMv \cup HighMv(t) }
BpeCases == IF ~Fam("bpe") THEN {} ELSE LET texts == SetToSeq(SeqsOver(0..NB, MaxLen)) IN UNION {BpeCasesOf(t, texts) : t \in Tables}

\* family "bpesub": for a word w, every well-formed table of up to MaxTab entries whose entries are substrings of w
\* (consistent merge histories of w and competing ones, e.g. ab, bc, bcd, abcd for abcd), applied to w, to w behind a
\* whitespace and to ww.  Byte slots 1..5 = a..e (harness byte alphabet "abcde").
SubStrs(w) == {SubSeq(w, a, b) : a \in 1..Len(w), b \in 1..Len(w)} \ ({<<>>} \cup {<<w[k]>> : k \in 1..Len(w)})
SubTables(w) == {t \in UNION {[1..k -> SubStrs(w)] : k \in 1..MaxTab} : B!WellFormed(t)}
SubWords == {<<1, 2, 3, 4>>, <<1, 2, 3, 4, 5>>, <<1, 2, 2, 1, 2>>, <<1, 1, 2, 1, 1>>, <<1, 2, 1, 2, 1>>, <<1, 1, 1, 1>>, <<1, 1, 1, 1, 1>>}
BpeSubCases == IF ~Fam("bpesub") THEN {} ELSE
    UNION {{ [kind |-> "bpe", special |-> Sp(<<"<pad>", "<b>">>, "<pad>", <<>>, <<>>), g |-> FALSE, pad_to |-> 0,
              groups |-> "bytes", agg |-> "mean", unk |-> "<u>", balpha |-> "abcde", tabslots |-> t, max_vocab |-> 0,
              bslots |-> <<w, <<0>> \o w, w \o w>>] : t \in SubTables(w)} : w \in SubWords}

Cases == TextCases \cup MetaCases \cup VocabCases \cup BpeCases \cup BpeSubCases
VARIABLE x
Init == x = 0 /\ ndJsonSerialize(IOEnv.OUT, SetToSeq(Cases))
Next == UNCHANGED x
=============================================================================
