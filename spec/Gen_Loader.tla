------------------------------ MODULE Gen_Loader ------------------------------
(* Enumerates loader configurations for replay of C08: source lengths, strategy, *)
(* world size, skip, limit (-1 = none), fast-forward, batching; every group has  *)
(* the reference run first and then every rank x three thread/buffer variants.   *)
EXTENDS Naturals, Integers, Sequences, FiniteSets, SequencesExt, TLC, Json, IOUtils
CONSTANTS MaxSkip, Pipelines
Run(rank, world, skip, limit, ff, th, buf, sh, so, bl, ref) ==
    [rank |-> rank, world |-> world, skip |-> skip, limit |-> limit, ff |-> ff, threads |-> th, buffer |-> buf,
     shuffle |-> sh, sort |-> so, prefetch |-> 1, batch_limit |-> bl, ltype |-> "count", ref |-> ref, distributed |-> TRUE]
Variants == << <<0, 1>>, <<2, 0>>, <<4, 4>> >>
RunsOf(world, skip, limit, ff, sh, bl) ==
    <<Run(0, 1, 0, 0 - 1, 0, 0, 1, FALSE, FALSE, 1, TRUE)>>
    \o FlattenSeq([r \in 1..world |-> [v \in 1..3 |-> Run(r - 1, world, skip, limit, ff, Variants[v][1], Variants[v][2], sh, FALSE, bl, FALSE)]])
Lens == {<<5>>, <<2, 4>>, <<0, 3, 2>>}
\* seed = -1: the loader is built without a seed (only without shuffling, which demands one): still one fixed stream
Cases == {[lens |-> l, strategy |-> s, seed |-> 11, epoch |-> e, pipeline |-> p,
           runs |-> RunsOf(w, sk, lim, ff, sh, bl)] :
             l \in Lens, s \in {"sequential", "interleaved", "weighted"}, e \in {0, 1}, p \in Pipelines,
             w \in 1..3, sk \in 0..MaxSkip, lim \in {0 - 1, 4}, ff \in {0, 1, 3}, sh \in BOOLEAN, bl \in {2}}
         \cup {[lens |-> l, strategy |-> s, seed |-> 0 - 1, epoch |-> 0, pipeline |-> "none",
           runs |-> RunsOf(w, 0, 0 - 1, ff, FALSE, 2)] :
             l \in Lens, s \in {"sequential", "interleaved", "weighted"}, w \in 1..2, ff \in {0, 3}}
\* groups whose files contain a line that cannot be parsed (bad = keys <<file, line>>, 0-based; not for the weighted strategy,
\* whose order cannot be predicted): the line keeps its place in the enumeration, so the ranks still share the rest
\* pipeline "wstask": the bad lines parse, but the whitespace-correction task fails on them (dropped behind the pipeline)
BadCases == {[lens |-> c[1], strategy |-> s, seed |-> 11, epoch |-> 0, pipeline |-> pl, bad |-> c[2],
              runs |-> RunsOf(w, sk, lim, ff, FALSE, 2)] : pl \in {"none", "wstask"},
                c \in {<< <<5>>, << <<0, 0>> >> >>, << <<5>>, << <<0, 2>>, <<0, 3>> >> >>, << <<2, 4>>, << <<1, 1>> >> >>, << <<0, 3, 2>>, << <<1, 0>>, <<2, 1>> >> >>},
                s \in {"sequential", "interleaved"}, w \in 1..3, sk \in 0..1, lim \in {0 - 1, 4}, ff \in {0, 1}}
\* hold_ms: the worker that processed the first item is held that long (schedule hook) before it may hand it over - far
\* beyond any patience a waiting worker or the consumer may have: the batches are still those of the reference run
HoldRun(th, ms) == [Run(0, 1, 0, 0 - 1, 0, th, 1, FALSE, FALSE, 2, FALSE) EXCEPT !.distributed = FALSE] @@ [hold_ms |-> ms]
HoldCases == {[lens |-> <<7>>, strategy |-> "sequential", seed |-> 11, epoch |-> 0, pipeline |-> "none",
               runs |-> <<Run(0, 1, 0, 0 - 1, 0, 0, 1, FALSE, FALSE, 1, TRUE), HoldRun(th, 2600)>>] : th \in {2, 4}}
\* limit 0: the empty stream (the validation part of a skip = 0 / limit = 0 split), not "no limit"
ZeroLimit == {[lens |-> l, strategy |-> s, seed |-> 11, epoch |-> 0, pipeline |-> "none", runs |-> RunsOf(w, sk, 0, 0, FALSE, 2)] :
                l \in {<<5>>, <<2, 4>>}, s \in {"sequential", "weighted"}, w \in {1, 3}, sk \in {0, 1}}
VARIABLE x
Init == x = 0 /\ ndJsonSerialize(IOEnv.OUT, SetToSeq({c \in Cases : c.strategy # "weighted" \/ \A k \in 1..Len(c.lens) : c.lens[k] > 0})
                                                  \o SetToSeq(BadCases) \o SetToSeq(HoldCases) \o SetToSeq(ZeroLimit))
Next == UNCHANGED x
=============================================================================
