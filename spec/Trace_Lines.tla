------------------------------ MODULE Trace_Lines ------------------------------
(* Validates recorded LossyUtf8Reader runs and jsonl generators against Lines.tla.                                  *)
(* bytes record: bytes (file), lines (bytes of every returned line), count (count of a second pass = count_lines).  *)
(* jsonl record: kinds (line kinds actually written; an empty last line without terminator does not exist),         *)
(*               items ("ok_same" | "ok_pair" | "err" per next()), reported (ExactSizeIterator::len).               *)
EXTENDS Lines, TLC, Json, IOUtils
Rec == ndJsonDeserialize(IOEnv.OBS)
NChunks == atoi(IOEnv.NCHUNKS)
VARIABLES c, i, nfail, nskip, nnt, ndrift
Failing(cl) == LET bad == SelectSeq(cl, LAMBDA x : ~x[2]) IN [k \in 1..Len(bad) |-> bad[k][1]]
JBytes(r) ==
    LET raw == Lines(r.bytes)
        cl == <<
          <<"number_of_lines", Len(r.lines) = ExpectedCount(r.bytes) /\ r.count = Len(r.lines)>>,
          <<"lines_are_the_file_without_terminators",
              Len(r.lines) = Len(raw) /\ \A k \in 1..Len(raw) : LossyOk(raw[k], r.lines[k])>>,
          <<"valid_lines_are_returned_exactly", \A k \in 1..Len(raw) : (k <= Len(r.lines) /\ ValidPart(raw[k], 1) = raw[k]) => r.lines[k] = raw[k]>>,
          <<"the_split_rejoins_to_the_file", LinesOk(r.bytes, raw)>>
        >>
    IN [why |-> Failing(cl), drift |-> <<>>, skip |-> FALSE, nt |-> NumLF(r.bytes) >= 1 /\ Len(r.bytes) >= 3]
JJson(r) ==
    LET cl == <<
          <<"one_item_per_line_in_order", Len(r.items) = Len(r.kinds) /\ \A k \in 1..Len(r.kinds) : r.items[k] = ItemOf(r.kinds[k])>>,
          <<"reported_length_is_the_number_of_lines", r.reported = Len(r.kinds)>>
        >>
    IN [why |-> Failing(cl), drift |-> <<>>, skip |-> FALSE, nt |-> Len(r.kinds) >= 2]
Judge(r) == IF r.st # "ok" THEN [why |-> <<r.st>>, drift |-> <<>>, skip |-> FALSE, nt |-> FALSE]
            ELSE IF r.kind = "bytes" THEN JBytes(r) ELSE JJson(r)
INSTANCE Stepper
=============================================================================
