---------------------------- MODULE Gen_KWindows ----------------------------
(* Enumerates the calls replayed into the real code for X09: every weight sequence up to MaxLen x every limit x both    *)
(* size functions for the finder; every text of up to MaxLen - 1 characters of 1-4 bytes x every byte / character limit  *)
(* for the window enumerations of text.rs; every sequence over three values for run-length coding and accumulate; every *)
(* list of up to three (value, count) pairs with counts 0-2 for decoding.  IOEnv.FAMILY selects the family.             *)
EXTENDS Naturals, Sequences, FiniteSets, SequencesExt, TLC, Json, IOUtils
CONSTANTS MaxLen
Seqs(S, m) == UNION {[1..n -> S] : n \in 0..m}
FindCases == {[kind |-> "find", v |-> v, k |-> k, f |-> f] : v \in Seqs(0..3, MaxLen), k \in 0..7, f \in {"sum", "padded"}}
TextCases == {[kind |-> "bytes", v |-> v, k |-> k] : v \in Seqs(1..4, MaxLen - 1), k \in 0..9}
             \cup {[kind |-> "chars", v |-> v, k |-> k] : v \in Seqs(1..4, MaxLen - 1), k \in 0..(MaxLen + 1)}
Pairs == {<<x, c>> : x \in 1..2, c \in 0..2}
CodeCases == {[kind |-> "rle", v |-> v] : v \in Seqs(1..3, MaxLen)}
             \cup {[kind |-> "unrle", e |-> e] : e \in Seqs(Pairs, 3)}
Cases == CASE IOEnv.FAMILY = "find" -> FindCases
           [] IOEnv.FAMILY = "text" -> TextCases
           [] OTHER -> CodeCases
VARIABLE x
Init == x = 0 /\ ndJsonSerialize(IOEnv.OUT, SetToSeq(Cases))
Next == UNCHANGED x
=============================================================================
