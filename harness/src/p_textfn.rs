//! Extension X07: the regex-built text helpers count_words_whitespace, split_words,
//! find_substring_ignoring_whitespace and replace_word, public API only.  Texts are slot sequences over the
//! alphabet "find" (one code point per slot, the classes are in spec/Words.tla); results go back as slots
//! and 0-based code-point offsets.
use crate::common::*;
use rand::prelude::*;
use rand_chacha::ChaCha8Rng;
use serde_json::{json, Value};
use std::collections::HashMap;
use text_utils::corrupt::replace_word;
use text_utils::text::{count_words_whitespace, split_words};
use text_utils::whitespace::find_substring_ignoring_whitespace;

const ALPHA: [&str; 16] = [" ", "\t", "a", "b", "\u{0301}", "\u{00A0}", ".", "(", "\\", "\r", "\n", "1", "_", "é", "*", "-"];

fn text(v: &Value) -> String {
    v.as_array().map(|a| a.iter().map(|x| ALPHA[x.as_u64().unwrap() as usize - 1]).collect()).unwrap_or_default()
}
/// slots of a string that consists of alphabet characters; 99 for anything else
fn slots(s: &str) -> Vec<usize> {
    s.chars().map(|c| ALPHA.iter().position(|a| a.chars().next() == Some(c)).map(|p| p + 1).unwrap_or(99)).collect()
}
/// code-point offset of a byte offset (1 << 20 if it is not a character boundary)
fn cp_off(s: &str, b: usize) -> usize {
    if s.is_char_boundary(b) { s[..b].chars().count() } else { 1 << 20 }
}

pub fn exec(case: &Value) -> Vec<Value> {
    let kind = get_str(case, "kind");
    let rec = match kind {
        "count" => {
            let t = text(&case["t"]);
            let lead = get_bool(case, "lead");
            guard(|| {
                let mut counts: Vec<(Vec<usize>, usize)> = count_words_whitespace(&t, lead).into_iter().map(|(k, n)| (slots(k), n)).collect();
                counts.sort();
                json!({"st": "ok", "kind": kind, "t": case["t"], "lead": lead, "counts": counts})
            })
        }
        "split" => {
            let t = text(&case["t"]);
            guard(|| {
                let words: Vec<Value> = split_words(&t)
                    .into_iter()
                    .map(|(w, parts)| {
                        let ps: Vec<Value> = parts.iter().flatten().map(|(p, o)| json!([cp_off(w, *o), slots(p)])).collect();
                        json!({"w": slots(w), "has": parts.is_some(), "parts": ps})
                    })
                    .collect();
                json!({"st": "ok", "kind": kind, "t": case["t"], "words": words})
            })
        }
        "find" => {
            let t = text(&case["t"]);
            let sub = text(&case["sub"]);
            let g = get_bool(case, "g");
            guard(|| {
                let (found, p, z) = match find_substring_ignoring_whitespace(&t, &sub, g) {
                    Some(m) => {
                        let o = (m.as_ptr() as usize).wrapping_sub(t.as_ptr() as usize);
                        if o > t.len() { (true, 1 << 20, 1 << 20) } else { (true, cp_off(&t, o), cp_off(&t, o + m.len())) }
                    }
                    None => (false, 0, 0),
                };
                json!({"st": "ok", "kind": kind, "t": case["t"], "sub": case["sub"], "g": g, "found": found, "p": p, "z": z})
            })
        }
        "replace" => {
            let word = text(&case["word"]);
            let repl: Vec<String> = case["repl"].as_array().unwrap().iter().map(text).collect();
            let table: HashMap<String, Vec<String>> = case["keys"].as_array().unwrap().iter().map(|k| (text(k), repl.clone())).collect();
            let mut rng = ChaCha8Rng::seed_from_u64(get_u(case, "seed") as u64);
            guard(|| {
                let res = replace_word(&word, &mut rng, &table);
                json!({"st": "ok", "kind": kind, "word": case["word"], "keys": case["keys"], "repl": case["repl"], "res": slots(&res)})
            })
        }
        _ => Err(format!("unknown kind {kind}")),
    };
    vec![rec.unwrap_or_else(|m| json!({"st": format!("panic:{kind}:{m}"), "kind": kind, "case": case}))]
}

pub fn gen(seed: u64, n: usize) -> Vec<Value> {
    let mut rng = ChaCha8Rng::seed_from_u64(seed);
    // whitespace and letters are frequent, the rest is rare
    let pool: [usize; 30] = [1, 1, 1, 1, 2, 3, 3, 3, 3, 4, 4, 4, 5, 5, 6, 7, 8, 9, 10, 11, 11, 12, 12, 13, 14, 14, 15, 16, 3, 1];
    let mut txt = |rng: &mut ChaCha8Rng, lo: usize, hi: usize| -> Vec<usize> {
        let len = rng.random_range(lo..=hi);
        (0..len).map(|_| pool[rng.random_range(0..pool.len())]).collect()
    };
    (0..n)
        .map(|i| match i % 4 {
            0 => json!({"kind": "count", "t": txt(&mut rng, 0, 40), "lead": rng.random_bool(0.5)}),
            1 => json!({"kind": "split", "t": txt(&mut rng, 0, 30)}),
            2 | 3 => {
                // the needle: a piece of the text with its whitespace changed (so that matches exist), or a random one
                let t = txt(&mut rng, 0, 24);
                let sub: Vec<usize> = if !t.is_empty() && rng.random_bool(0.7) {
                    let a = rng.random_range(0..t.len());
                    let b = rng.random_range(a..=t.len().min(a + 6));
                    let mut s = vec![];
                    for &x in &t[a..b] {
                        let ws = [1usize, 2, 6, 10, 11].contains(&x);
                        if ws && rng.random_bool(0.5) { continue; }
                        if !ws && rng.random_bool(0.25) { s.push([1usize, 2, 6, 11][rng.random_range(0..4)]); }
                        s.push(x);
                    }
                    s
                } else {
                    txt(&mut rng, 0, 4)
                };
                json!({"kind": "find", "t": t, "sub": sub, "g": rng.random_bool(0.5)})
            }
            _ => unreachable!(),
        })
        .collect()
}
