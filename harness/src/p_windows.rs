//! C16: inference windows (char / byte / full).
use crate::common::*;
use crate::p_ws::Cp;
use rand::prelude::*;
use rand_chacha::ChaCha8Rng;
use serde_json::{json, Value};
use text_utils::windows::{windows, WindowConfig};

/// slot -> string by UTF-8 length (1..4 bytes) plus an 8-byte cluster (flag) and a 3-byte cluster
fn wslots() -> Vec<&'static str> {
    vec!["a", "ä", "€", "😀", "🇩🇪", "e\u{0301}", "\r\n"]
}

pub fn exec(case: &Value) -> Vec<Value> {
    let s: String = if let Some(s) = case.get("s").and_then(|x| x.as_str()) {
        s.to_string()
    } else {
        // slots are byte lengths 1..4 (5: the 8-byte flag, 6: e + combining acute)
        let al = wslots();
        case["slots"].as_array().unwrap().iter().map(|x| al[x.as_u64().unwrap() as usize - 1]).collect()
    };
    let kind = get_str(case, "kind").to_string();
    let g = get_bool(case, "g");
    let max = get_u(case, "max");
    let ctx = get_u(case, "ctx");
    let cfg = match kind.as_str() {
        "char" => WindowConfig::Character(max, ctx, g),
        "byte" => WindowConfig::Bytes(max, ctx, g),
        _ => WindowConfig::Full(g),
    };
    // the text lives in a buffer that held another text of the same byte length before (see refill_with)
    let s0 = s;
    let mut s = String::with_capacity(s0.len() + 8);
    refill_with(&mut s, &s0, |d| { let _ = guard(|| windows(d, &cfg).map(|w| w.len())); });
    let mut cp = Cp::new();
    let v = cp.view(&s, g);
    let (st, res, wins) = match guard(|| {
        windows(&s, &cfg).map(|ws| {
            ws.iter()
                .map(|w| {
                    let b = w.boundaries();
                    let bb = w.byte_boundaries();
                    (b, bb, w.str.to_string())
                })
                .collect::<Vec<_>>()
        })
    }) {
        Ok(Ok(ws)) => ("ok".to_string(), "ok", ws),
        Ok(Err(_)) => ("ok".to_string(), "err", vec![]),
        Err(m) => (format!("panic:windows:{m}"), "panic", vec![]),
    };
    let wj: Vec<Value> = wins
        .iter()
        .map(|(b, bb, st)| {
            json!({"cs": b.0, "ws": b.1, "we": b.2, "ce": b.3, "bcs": bb.0, "bws": bb.1, "bwe": bb.2, "bce": bb.3,
                   "str": cp.cps(st)})
        })
        .collect();
    vec![json!({"st": st, "res": res, "kind": kind, "g": g, "max": max, "ctx": ctx, "s": s, "v": v, "wins": wj, "case": case})]
}

pub fn gen(seed: u64, n: usize) -> Vec<Value> {
    let mut rng = ChaCha8Rng::seed_from_u64(seed);
    let pool = ["a", "b", " ", "ä", "ß", "€", "字", "😀", "🇩🇪", "e\u{0301}", "👨\u{200D}👩\u{200D}👧", "\r\n", "\t"];
    // one text in thirty: a short text with a cluster of 261 bytes (wider than a byte can count)
    let with_giant = ["a", "ä", giant_cluster(), " "];
    (0..n)
        .map(|_| {
            let len = rng.random_range(1..=60);
            // every third text is pure ASCII (with CRLF clusters), every fourth has runs of equal-length characters
            let ascii = ["a", "b", " ", "\r\n", "\t", "x", "\n", "\r"];
            let mode = rng.random_range(0..4);
            let s: String = if mode == 0 {
                (0..len).map(|_| ascii[rng.random_range(0..ascii.len())]).collect()
            } else if mode == 1 {
                let mut t = String::new();
                while t.chars().count() < len { let c = pool[rng.random_range(0..pool.len())]; for _ in 0..rng.random_range(1..=6) { t.push_str(c); } }
                t
            } else {
                (0..len).map(|_| pool[rng.random_range(0..pool.len())]).collect()
            };
            let kind = ["char", "byte", "byte", "full"][rng.random_range(0..4)];
            // one text in a hundred changes the byte width of its characters at every position, 150-220 times
            if rng.random_bool(0.01) {
                let m = rng.random_range(150..=220);
                let s: String = (0..m).map(|k| if k % 2 == 0 { "a" } else { ["ä", "字", "😀"][k % 3] }).collect();
                let (max, ctx) = [(50usize, 5usize), (64, 8), (30, 0)][rng.random_range(0..3)];
                return json!({"s": s, "kind": kind, "g": rng.random_bool(0.5), "max": max, "ctx": ctx});
            }
            if rng.random_bool(1.0 / 30.0) {
                let s: String = (0..rng.random_range(1..=6)).map(|_| with_giant[rng.random_range(0..with_giant.len())]).collect();
                let (max, ctx) = [(100usize, 10usize), (300, 10), (600, 100), (10, 2)][rng.random_range(0..4)];
                return json!({"s": s, "kind": kind, "g": true, "max": max, "ctx": ctx});
            }
            let ctx = rng.random_range(0..=8usize);
            let max = if rng.random_bool(0.15) { rng.random_range(0..=2 * ctx + 1) } else { 2 * ctx + rng.random_range(1..=40usize) };
            json!({"s": s, "kind": kind, "g": rng.random_bool(0.5), "max": max, "ctx": ctx})
        })
        .collect()
}
