mod common;
mod p_batched;
mod p_chat;
mod p_coo;
mod p_cstr;
mod p_dict;
mod p_bpetrain;
mod p_edit;
mod p_loader;
mod p_editword;
mod p_infer;
mod p_lines;
mod p_norm;
mod p_kwin;
mod p_textfn;
mod p_multigen;
mod p_pipe;
mod p_proc;
mod p_post;
mod p_tok;
mod p_windows;
mod p_words;
mod p_ws;

use common::*;
use serde_json::Value;
use std::time::Duration;

fn usage() -> ! {
    eprintln!("usage: tuverif exec <component> <cases.ndjson> <obs.ndjson> [timeout_ms]\n       tuverif gen <component> <seed> <n> <cases.ndjson>");
    std::process::exit(2)
}

type ExecFn = fn(&Value) -> Vec<Value>;
type GenFn = fn(u64, usize) -> Vec<Value>;

fn component(name: &str) -> (ExecFn, GenFn) {
    match name {
        "edit" => (p_edit::exec, p_edit::gen),
        "pipe" => (p_pipe::exec, p_pipe::gen),
        "loader" => (p_loader::exec, p_loader::gen),
        "coo" => (p_coo::exec, p_coo::gen),
        "dict" => (p_dict::exec, p_dict::gen),
        "match" => (p_words::exec_match, p_words::gen_match),
        "metrics" => (p_words::exec_metrics, p_words::gen_metrics),
        "editword" => (p_editword::exec, p_editword::gen),
        "windows" => (p_windows::exec, p_windows::gen),
        "cstr" => (p_cstr::exec, p_cstr::gen),
        "proc" => (p_proc::exec, p_proc::gen),
        "post" => (p_post::exec, p_post::gen),
        "chat" => (p_chat::exec, p_chat::gen),
        "infer" => (p_infer::exec, p_infer::gen),
        "lines" => (p_lines::exec, p_lines::gen),
        "textfn" => (p_textfn::exec, p_textfn::gen),
        "norm" => (p_norm::exec, p_norm::gen),
        "kwin" => (p_kwin::exec, p_kwin::gen),
        "ws" => (p_ws::exec, p_ws::gen),
        "bpetrain" => (p_bpetrain::exec, p_bpetrain::gen),
        "tok" => (p_tok::exec, p_tok::gen),
        "batched" => (p_batched::exec, p_batched::gen),
        "multigen" => (p_multigen::exec, p_multigen::gen),
        "buffered" => (p_pipe::exec_buffered, p_pipe::gen_buffered),
        _ => {
            eprintln!("unknown component {name}");
            std::process::exit(2)
        }
    }
}

fn main() {
    quiet_panics();
    let args: Vec<String> = std::env::args().collect();
    if args.len() < 2 {
        usage();
    }
    match args[1].as_str() {
        "exec" if args.len() >= 5 => {
            // exec <component> <cases> <obs> [timeout_ms] [first case] : observations are appended case by case and
            // <obs>.done holds the number of finished cases (the orchestrator resumes after an abrupt process exit)
            let (exec, _) = component(&args[2]);
            let cases = read_ndjson(&args[3]);
            let to = args.get(5).and_then(|s| s.parse().ok()).unwrap_or(5000u64);
            let first: usize = args.get(6).and_then(|s| s.parse().ok()).unwrap_or(0);
            use std::io::Write;
            let mut f = std::fs::OpenOptions::new().create(true).append(first > 0).write(true).truncate(first == 0)
                .open(&args[4]).expect("cannot open observation file");
            let done_path = format!("{}.done", args[4]);
            std::fs::write(&done_path, first.to_string()).expect("cannot write progress file");
            let mut nobs = 0usize;
            // components whose observation is a function of the case alone are also checked for independence of the
            // calls made before (not the threaded components, whose logs carry timing, nor the dictionary, whose
            // choice among equally frequent entries may differ from run to run)
            let echo = ["edit", "match", "metrics", "windows", "cstr", "ws", "tok", "coo", "textfn", "lines", "chat", "editword", "norm", "kwin"].contains(&args[2].as_str());
            run_cases_from(cases, first, Duration::from_millis(to), echo, exec, &mut |i, recs| {
                for r in &recs {
                    let r = strip_nulls(r.clone());
                    writeln!(f, "{}", serde_json::to_string(&r).unwrap()).expect("write failed");
                }
                f.flush().expect("flush failed");
                std::fs::write(&done_path, (i + 1).to_string()).expect("cannot write progress file");
                nobs += recs.len();
            });
            println!("exec {} -> {} observations", args[2], nobs);
            // never unwind/join abandoned workers
            std::process::exit(0);
        }
        "gen" if args.len() >= 6 => {
            let (_, gen) = component(&args[2]);
            let seed: u64 = args[3].parse().expect("seed");
            let n: usize = args[4].parse().expect("n");
            let cases = gen(seed, n);
            write_ndjson(&args[5], &cases);
            println!("gen {} -> {} cases", args[2], cases.len());
        }
        "child-panic" if args.len() >= 5 => {
            // the library's own panic hook must stay in place here
            let _ = std::panic::take_hook();
            p_pipe::child_panic(
                args[2].parse().expect("W"),
                args[3].parse().expect("N"),
                args[4].parse().expect("fail"),
                args.get(5).and_then(|s| s.parse().ok()).unwrap_or(0),
                args.get(6).and_then(|s| s.parse().ok()).unwrap_or(0),
            );
        }
        _ => usage(),
    }
}
