//! C08: the real TrainLoader (through the guarded driver hook) over small jsonl
//! files written at run time.  One case = one group of runs that must agree:
//! same files / strategy / seed / epoch / pipeline, different rank, world size,
//! skip, limit, fast-forward, thread count, buffer size, batching.
use crate::common::*;
use rand::prelude::*;
use rand_chacha::ChaCha8Rng;
use serde_json::{json, Value};
use std::collections::HashMap;
use std::path::PathBuf;
use text_utils::data::loading::{BatchLimitType, GenerationStrategy};
use text_utils::data::postprocessing::PostprocessingFnConfig;
use text_utils::data::preprocessing::{Part, PreprocessingFnConfig, SpellingCorruptionMode};
use text_utils::data::task::TrainTaskConfig;
use text_utils::data::verif::train_loader;
use text_utils::data::{PostprocessingConfig, PreprocessingConfig, TrainPipelineConfig, TrainTaskInput};
use text_utils::dictionary::Dictionary;
use text_utils::tokenization::{ByteGroups, ByteTokenizerConfig, GroupAggregation, SpecialConfig, TokenizeConfig, TokenizerConfig};

const VOCAB: [&str; 8] = ["alpha", "beta", "gamma", "delta", "epsilon", "zeta", "eta", "theta"];

fn tok_cfg() -> TokenizerConfig {
    TokenizerConfig {
        tokenize: TokenizeConfig::Byte(ByteTokenizerConfig { use_graphemes: true, pad_to_multiple_of: None, groups: ByteGroups::Bytes, aggregation: GroupAggregation::Mean }),
        special: SpecialConfig { pad: "<pad>".into(), tokens: vec!["<pad>".into(), "<bos>".into(), "<eos>".into()], prefix: vec!["<bos>".into()], suffix: vec!["<eos>".into()] },
    }
}

/// `temp`: the temperature of the artificial spelling corruption (it shapes the weights of the edit tables)
fn pipeline(kind: &str, chars: &PathBuf, missp: &PathBuf, temp: f64) -> TrainPipelineConfig {
    let ws = PreprocessingFnConfig::WhitespaceCorruption(Part::Input, 0.3, 0.3, true);
    let spell = PreprocessingFnConfig::SpellingCorruption(Part::Input, 0.8, true, SpellingCorruptionMode::Artificial(0.5, temp, Some(chars.clone())));
    let real = PreprocessingFnConfig::SpellingCorruption(Part::Input, 0.9, true, SpellingCorruptionMode::Realistic(missp.clone()));
    let mixed = PreprocessingFnConfig::SpellingCorruption(Part::Input, 0.9, false, SpellingCorruptionMode::Mixed(0.5, 0.4, temp, Some(chars.clone()), missp.clone()));
    let pre = match kind {
        "ws" => ws,
        "spell" => spell,
        "real" => real,
        "mixed" => mixed,
        "switch" => PreprocessingFnConfig::Switch(vec![ws, PreprocessingFnConfig::None, spell], vec![0.4, 0.2, 0.4]),
        "chain" => PreprocessingFnConfig::Chain(vec![spell, ws]),
        _ => PreprocessingFnConfig::None,
    };
    // per-source preprocessing (selected by the file index carried with every item)
    let preprocessing = if kind == "persource" {
        PreprocessingConfig::PerSource(vec![
            PreprocessingFnConfig::WhitespaceCorruption(Part::Input, 0.3, 0.3, true),
            PreprocessingFnConfig::SpellingCorruption(Part::Input, 0.8, true, SpellingCorruptionMode::Artificial(0.5, temp, Some(chars.clone()))),
            PreprocessingFnConfig::None,
        ])
    } else {
        PreprocessingConfig::Global(pre)
    };
    // seeded token masking as postprocessing
    let postprocessing = if kind == "mask" {
        PostprocessingConfig::Global(PostprocessingFnConfig::TokenMasking(tok_cfg(), 0.3, 1, 0.5, "<pad>".to_string()))
    } else {
        PostprocessingConfig::Global(PostprocessingFnConfig::None)
    };
    TrainPipelineConfig {
        preprocessing,
        // "wstask": the whitespace-correction task, which fails for an item whose input and target differ in more than
        // whitespace (the loader logs the error and drops the item behind the pipeline)
        task: if kind == "wstask" { TrainTaskConfig::WhitespaceCorrection(true, tok_cfg()) }
              else { TrainTaskConfig::Generation(false, tok_cfg(), false, Some(" >> ".to_string())) },
        postprocessing,
    }
}

pub fn exec(case: &Value) -> Vec<Value> {
    let lens: Vec<usize> = case["lens"].as_array().unwrap().iter().map(|x| x.as_u64().unwrap() as usize).collect();
    let strat_s = get_str(case, "strategy");
    let strategy = match strat_s { "interleaved" => GenerationStrategy::Interleaved, "weighted" => GenerationStrategy::Weighted, _ => GenerationStrategy::Sequential };
    let seed = case.get("seed").and_then(|x| x.as_u64()).unwrap_or(0);
    // seed = -1: the loader is built without a seed (the default); its stream is a fixed one all the same
    let no_seed = case.get("seed").and_then(|x| x.as_i64()).map(|v| v < 0).unwrap_or(false);
    let epoch = get_u(case, "epoch");
    let pkind = get_str(case, "pipeline");
    let dir = std::env::temp_dir().join(format!("tuverif-loader-{}-{:?}", std::process::id(), std::thread::current().id()));
    let _ = std::fs::create_dir_all(&dir);
    let bad: Vec<(usize, usize)> = case.get("bad").and_then(|x| x.as_array()).map(|a| a.iter().map(|e| (e[0].as_u64().unwrap() as usize, e[1].as_u64().unwrap() as usize)).collect()).unwrap_or_default();
    static FRESH: std::sync::atomic::AtomicUsize = std::sync::atomic::AtomicUsize::new(0);
    let fresh_dir = std::env::temp_dir().join(format!("tuverif-loader-{}-fresh-{}", std::process::id(), FRESH.fetch_add(1, std::sync::atomic::Ordering::SeqCst)));
    let _ = std::fs::create_dir_all(&fresh_dir);
    let mut fresh_files = vec![];
    let mut files = vec![];
    let mut corpus = String::new();
    for (k, n) in lens.iter().enumerate() {
        let p = dir.join(format!("f{k}.jsonl"));
        let mut s = String::new();
        for l in 0..*n {
            // the last word is a compound that is not a key of the misspellings file while two or three of its parts are
            // (realistic spelling corruption then chooses among the parts)
            let text = format!("w{}x{} {} {} {} {} {}-{}-{}", k, l, VOCAB[(k + l) % 8], VOCAB[(3 * l + 1) % 8], VOCAB[(l * l + k) % 8], VOCAB[(5 * k + l + 2) % 8],
                               VOCAB[(k + l) % 3], VOCAB[(k + l + 1) % 3], VOCAB[(2 * l + k) % 3]);
            if bad.contains(&(k, l)) && pkind == "wstask" {
                // a line that parses but fails in the pipeline (input and target differ in a letter): logged and dropped
                // behind the pipeline; it keeps its place in the enumeration
                s.push_str(&format!("{{\"input\": \"{text} q\", \"target\": \"{text} r\"}}\n"));
            } else if bad.contains(&(k, l)) {
                // a line that cannot be parsed: the loader logs it and goes on; it keeps its place in the enumeration
                s.push_str("{\"input\": \n");
            } else {
                s.push_str(&format!("{{\"input\": \"{text}\"}}\n"));
            }
            corpus.push_str(&text);
            corpus.push('\n');
        }
        std::fs::write(&p, s).unwrap();
        files.push(p.to_string_lossy().to_string());
        // the same file under a path that no loader of this process has seen before (for the reference run): whatever the
        // process remembers about the re-used path of the other runs must not show
        std::fs::write(fresh_dir.join(format!("f{k}.jsonl")), std::fs::read(&p).unwrap()).unwrap();
        fresh_files.push(fresh_dir.join(format!("f{k}.jsonl")).to_string_lossy().to_string());
    }
    // character 3-gram dictionary built by the library itself (many frequency ties)
    let chars = dir.join("chars.txt");
    let corpus_file = dir.join("corpus.txt");
    std::fs::write(&corpus_file, format!("{corpus}alpha beta gamma delta epsilon zeta eta theta\n")).unwrap();
    let mut st = "ok".to_string();
    match guard(|| Dictionary::create(&[&corpus_file], None, None, 0, true, 3, false).and_then(|d| d.save(&chars))) {
        Ok(Ok(())) => {}
        Ok(Err(e)) => st = format!("err:chars:{e}"),
        Err(m) => st = format!("panic:chars:{m}"),
    }
    let _ = std::fs::copy(&chars, fresh_dir.join("chars.txt"));
    let missp = dir.join("missp.json");
    std::fs::write(&missp, r#"{"alpha": ["alhpa", "alpa", "allpha"], "beta": ["bta", "betta"], "gamma": ["gama"], "x": ["y"]}"#).unwrap();

    let mut strings: HashMap<String, i64> = HashMap::new();
    let mut intern = |s: String| -> i64 { let n = strings.len() as i64 + 1; *strings.entry(s).or_insert(n) };
    let mut runs_out = vec![];
    if st == "ok" {
        for run in case["runs"].as_array().unwrap() {
            let world = get_u(run, "world").max(1);
            let rank = get_u(run, "rank");
            let limit = run.get("limit").and_then(|x| x.as_i64()).and_then(|v| if v < 0 { None } else { Some(v as usize) });
            let threads = get_u(run, "threads") as u8;
            let shuffle = get_bool(run, "shuffle");
            // `hold_ms`: the worker that processed the first item of this run is held that long before it may hand the item
            // over (guarded schedule hook): the batches must still come out as in every other run
            let hold = get_u(run, "hold_ms") as u64;
            if hold > 0 {
                let done = std::sync::atomic::AtomicBool::new(false);
                text_utils::verif::install(Some(std::sync::Arc::new(move |_t, p, idx, _k| {
                    if p == text_utils::verif::Point::AfterCompute && idx == 0 && !done.swap(true, std::sync::atomic::Ordering::SeqCst) {
                        std::thread::sleep(std::time::Duration::from_millis(hold));
                    }
                })));
            }
            let r = guard(|| {
                // the temperature changes with the epoch of the group; the reference run reads the character dictionary, too,
                // under a path the process has not seen (tables remembered for the re-used path must not show)
                let temp = if epoch % 2 == 0 { 2.0 } else { 0.6 };
                let chars_here = if get_bool(run, "ref") { fresh_dir.join("chars.txt") } else { chars.clone() };
                train_loader(if get_bool(run, "ref") { fresh_files.clone() } else { files.clone() }, pipeline(pkind, &chars_here, &missp, temp), strategy, threads, get_u(run, "buffer"),
                    get_u(run, "batch_limit"), if get_str(run, "ltype") == "padded" { BatchLimitType::PaddedItemSize } else { BatchLimitType::BatchSize },
                    512, shuffle, get_u(run, "prefetch"), get_bool(run, "sort"), if no_seed { None } else { Some(seed) }, get_u(run, "skip"), limit,
                    if world > 1 || get_bool(run, "distributed") { Some((rank, world)) } else { None }, epoch, get_u(run, "ff"), usize::MAX)
            });
            quiet_panics(); // Pipe::new installs a process-exiting panic hook
            if hold > 0 {
                text_utils::verif::install(None);
            }
            let mut rst = "ok".to_string();
            let mut batches = vec![];
            let mut min_items = -1i64;
            match r {
                Ok(Ok((bs, mi))) => {
                    min_items = mi.map(|x| x as i64).unwrap_or(-1);
                    for (items, _) in bs {
                        let mut b = vec![];
                        for it in items {
                            let tgt = it.data.verif_target().to_string();
                            // identity: "w<k>x<l> ..."
                            let id = tgt.split(' ').next().unwrap_or("");
                            let (f, l) = id.trim_start_matches('w').split_once('x').map(|(a, b)| (a.parse::<i64>().unwrap_or(-1), b.parse::<i64>().unwrap_or(-1))).unwrap_or((-1, -1));
                            let ids = match &it.input {
                                TrainTaskInput::Generation { token_ids, labels, .. } | TrainTaskInput::SequenceClassification { token_ids, labels, .. } => format!("{token_ids:?}{labels:?}"),
                                _ => String::new(),
                            };
                            b.push(json!({"f": f, "l": l, "inp": intern(it.data.verif_input().to_string()), "tgt": intern(tgt), "tid": intern(ids)}));
                        }
                        batches.push(Value::Array(b));
                    }
                }
                Ok(Err(e)) => rst = format!("err:loader:{e}"),
                Err(m) => rst = format!("panic:loader:{m}"),
            }
            let mut ro = run.clone();
            ro["st"] = json!(rst);
            ro["batches"] = Value::Array(batches);
            ro["min_items"] = json!(min_items);
            ro["limit"] = json!(limit.map(|x| x as i64).unwrap_or(-1));
            ro["world"] = json!(world);
            runs_out.push(ro);
        }
    }
    let _ = std::fs::remove_dir_all(&dir);
    let _ = std::fs::remove_dir_all(&fresh_dir);
    let bad_st = runs_out.iter().find(|r| r["st"] != "ok").map(|r| r["st"].as_str().unwrap().to_string());
    vec![json!({"st": bad_st.unwrap_or(st), "bad": bad.iter().map(|(f, l)| json!([f, l])).collect::<Vec<_>>(), "lens": lens, "strategy": strat_s, "seed": seed, "epoch": epoch, "pipeline": pkind,
                "runs": runs_out, "case": case})]
}

fn variants(rng: &mut ChaCha8Rng, base: &Value, n: usize) -> Vec<Value> {
    // the reference run first: single process, no threads, everything, one item per batch
    let mut runs = vec![json!({"rank": 0, "world": 1, "skip": 0, "limit": -1, "ff": 0, "threads": 0, "buffer": 1, "shuffle": false, "sort": false,
                               "prefetch": 1, "batch_limit": 1, "ltype": "count", "ref": true})];
    let world = get_u(base, "world").max(1);
    for rank in 0..world {
        for _ in 0..n {
            let mut r = base.clone();
            r["rank"] = json!(rank);
            let th = [0, 1, 2, 4][rng.random_range(0..4)];
            let bf = [0, 1, 4][rng.random_range(0..3)];
            r["threads"] = json!(th);
            r["buffer"] = json!(bf);
            r["ref"] = json!(false);
            runs.push(r);
        }
    }
    runs
}

pub fn gen(seed: u64, n: usize) -> Vec<Value> {
    let mut rng = ChaCha8Rng::seed_from_u64(seed);
    (0..n)
        .map(|_| {
            let nf = rng.random_range(1..=3);
            let strategy = ["sequential", "interleaved", "weighted"][rng.random_range(0..3)];
            let lens: Vec<usize> = (0..nf).map(|_| rng.random_range(if strategy == "weighted" { 1 } else { 0 }..=7)).collect();
            let total: usize = lens.iter().sum();
            let world = rng.random_range(1..=3);
            let shuffle = rng.random_bool(0.3);
            let bl = [1, 2, 3, 200][rng.random_range(0..4)];
            let base = json!({"world": world, "skip": rng.random_range(0..=total.min(4)), "limit": if rng.random_bool(0.4) { rng.random_range(0..=total as i64 + 1) } else { -1 },
                "ff": if rng.random_bool(0.5) { rng.random_range(0..=total.min(6)) } else { 0 }, "shuffle": shuffle, "sort": rng.random_bool(0.3),
                "prefetch": rng.random_range(0..=3), "batch_limit": bl, "ltype": if rng.random_bool(0.5) { "count" } else { "padded" }});
            let runs = variants(&mut rng, &base, 2);
            let pipeline = ["none", "ws", "spell", "real", "mixed", "switch", "chain", "mask", "persource"][rng.random_range(0..9)];
            // one group in seven is unseeded (then without shuffling, which requires a seed)
            let unseeded = rng.random_bool(0.15) && runs.iter().all(|r| !get_bool(r, "shuffle"));
            let seedv: i64 = if unseeded { -1 } else { rng.random_range(0..1000i64) };
            let mut case = json!({"lens": lens, "strategy": strategy, "seed": seedv, "epoch": rng.random_range(0..3), "pipeline": pipeline, "runs": runs});
            // one predictable group in six has one or two lines that cannot be parsed
            if strategy != "weighted" && total > 0 && rng.random_bool(0.17) {
                let mut bad: Vec<(usize, usize)> = vec![];
                for _ in 0..rng.random_range(1..=2) {
                    let f = rng.random_range(0..nf);
                    if lens[f] > 0 {
                        let key = (f, rng.random_range(0..lens[f]));
                        if !bad.contains(&key) {
                            bad.push(key);
                        }
                    }
                }
                if !bad.is_empty() {
                    case["bad"] = json!(bad.iter().map(|(f, l)| vec![*f, *l]).collect::<Vec<_>>());
                }
            }
            case
        })
        .collect()
}
