//! Shared helpers: ndjson I/O, panic capture, watchdog, string views.
//! The harness computes no expected results; it only drives the real code,
//! records what it returned and attaches the *view* of the concrete inputs
//! (symbol identities and attributes) that the TLA+ specification works on.

use serde_json::{json, Value};
use std::collections::HashMap;
use std::io::{BufRead, BufReader, BufWriter, Write};
use std::panic::{catch_unwind, AssertUnwindSafe};
use std::sync::mpsc::{channel, RecvTimeoutError};
use std::sync::Arc;
use std::time::Duration;
use unicode_segmentation::UnicodeSegmentation;

pub fn read_ndjson(path: &str) -> Vec<Value> {
    let f = std::fs::File::open(path).unwrap_or_else(|e| panic!("cannot open {path}: {e}"));
    BufReader::new(f)
        .lines()
        .map(|l| l.expect("read error"))
        .filter(|l| !l.trim().is_empty())
        .map(|l| serde_json::from_str(&l).unwrap_or_else(|e| panic!("bad json line {l}: {e}")))
        .collect()
}

pub fn write_ndjson(path: &str, recs: &[Value]) {
    let f = std::fs::File::create(path).unwrap_or_else(|e| panic!("cannot create {path}: {e}"));
    let mut w = BufWriter::new(f);
    for r in recs {
        // TLC's Json module cannot read null: drop null members
        let r = &strip_nulls(r.clone());
        serde_json::to_writer(&mut w, r).unwrap();
        w.write_all(b"\n").unwrap();
    }
    w.flush().unwrap();
}

pub fn strip_nulls(v: Value) -> Value {
    match v {
        Value::Object(m) => Value::Object(
            m.into_iter().filter(|(_, x)| !x.is_null()).map(|(k, x)| (k, strip_nulls(x))).collect(),
        ),
        Value::Array(a) => Value::Array(a.into_iter().map(strip_nulls).collect()),
        x => x,
    }
}

/// Install a quiet panic hook (the library's `Pipe::new` installs a
/// process-exiting one; call this again after every `Pipe` construction).
pub fn quiet_panics() {
    std::panic::set_hook(Box::new(|_| {}));
}

/// Run `f`, turning a panic into `Err(message)`: a panic in code under test is data.
pub fn guard<T>(f: impl FnOnce() -> T) -> Result<T, String> {
    catch_unwind(AssertUnwindSafe(f)).map_err(|e| {
        if let Some(s) = e.downcast_ref::<&str>() {
            s.to_string()
        } else if let Some(s) = e.downcast_ref::<String>() {
            s.clone()
        } else {
            "panic".to_string()
        }
    })
}

/// Run every case through `f` on a worker thread; a case that does not return
/// within `timeout` is recorded as `{"hang":true,"case":..}` and the worker is
/// abandoned (never joined) and replaced.
pub fn run_cases<F>(cases: Vec<Value>, timeout: Duration, f: F) -> Vec<Value>
where
    F: Fn(&Value) -> Vec<Value> + Send + Sync + 'static,
{
    let mut all = Vec::new();
    run_cases_from(cases, 0, timeout, false, f, &mut |_, recs| all.extend(recs));
    all
}

/// As `run_cases`, starting at case `first`; the observations of case `i` are handed to `sink(i, records)` as soon
/// as the case is finished, and the next case only starts after `sink` returned (so that an abrupt end of the
/// process - the library's own panic hook calls process::exit - can be attributed to exactly one case).
///
/// `echo`: after case i the case before it is executed once more and must yield the observation it yielded the first
/// time; if not, the observation of a call depends on the calls made before it in the same process (a cache, a
/// thread-local, a static with an incomplete key) and a record `history_dependent` is added for that case.
/// A stop-watch that a stall of the whole machine cannot advance: it is read in a polling loop, and the time between two
/// readings counts for at most 300 ms, however long the clock says it took.
pub struct Budget {
    last: std::time::Instant,
    used: Duration,
}

impl Budget {
    pub fn now() -> Self {
        Budget { last: std::time::Instant::now(), used: Duration::ZERO }
    }
    pub fn elapsed(&mut self) -> Duration {
        let t = std::time::Instant::now();
        self.used += (t - self.last).min(Duration::from_millis(300));
        self.last = t;
        self.used
    }
}

/// `recv_timeout` whose budget a stall of the whole machine (a snapshot of the sandbox, a frozen VM) cannot use up:
/// the wait is cut into slices of 100 ms and a slice counts for at most 300 ms, however long the clock says it took.
pub fn recv_budget<T>(rx: &std::sync::mpsc::Receiver<T>, budget: Duration) -> Result<T, RecvTimeoutError> {
    let slice = Duration::from_millis(100).min(budget.max(Duration::from_millis(1)));
    let mut used = Duration::ZERO;
    loop {
        let t = std::time::Instant::now();
        match rx.recv_timeout(slice) {
            Err(RecvTimeoutError::Timeout) => {
                used += t.elapsed().min(slice * 3);
                if used >= budget {
                    return Err(RecvTimeoutError::Timeout);
                }
            }
            other => return other,
        }
    }
}

pub fn run_cases_from<F>(cases: Vec<Value>, first: usize, timeout: Duration, echo: bool, f: F, sink: &mut dyn FnMut(usize, Vec<Value>))
where
    F: Fn(&Value) -> Vec<Value> + Send + Sync + 'static,
{
    let cases = Arc::new(cases);
    let f = Arc::new(f);
    let n = cases.len();
    let mut next = first;
    let mut hangs = 0usize;
    while next < n {
        if hangs >= 6 {
            // every hung case leaves a spinning thread behind: stop executing, the
            // remaining cases are reported as not run (the judge skips them)
            for (k, c) in cases[next..].iter().enumerate() {
                sink(next + k, vec![json!({"st": "notrun", "case": c.clone()})]);
            }
            break;
        }
        let (tx, rx) = channel();
        let (ack_tx, ack_rx) = channel::<()>();
        let cs = cases.clone();
        let ff = f.clone();
        let start = next;
        std::thread::spawn(move || {
            let mut before: Option<Vec<Value>> = None;
            for i in start..cs.len() {
                let mut r = guard(|| ff(&cs[i]));
                if echo {
                    if let (Some(first_time), Ok(recs)) = (&before, &mut r) {
                        let all_ok = |v: &Vec<Value>| v.iter().all(|x| x["st"] == "ok");
                        if let Ok(again) = guard(|| ff(&cs[i - 1])) {
                            if all_ok(first_time) && all_ok(&again) && *first_time != again {
                                recs.push(json!({"st": "history_dependent", "case": cs[i - 1].clone(), "after": cs[i].clone()}));
                            }
                        }
                    }
                    before = r.as_ref().ok().map(|recs| recs.iter().filter(|x| x["st"] != "history_dependent").cloned().collect());
                }
                if tx.send((i, r)).is_err() || ack_rx.recv().is_err() {
                    return;
                }
            }
        });
        loop {
            match recv_budget(&rx, timeout) {
                Ok((i, Ok(recs))) => {
                    sink(i, recs);
                    next = i + 1;
                    let _ = ack_tx.send(());
                    if next == n {
                        break;
                    }
                }
                Ok((i, Err(msg))) => {
                    // a panic outside a guarded call: still data, but flagged
                    sink(i, vec![json!({"st": format!("harness_panic:{msg}"), "case": cases[i].clone()})]);
                    next = i + 1;
                    let _ = ack_tx.send(());
                    if next == n {
                        break;
                    }
                }
                Err(RecvTimeoutError::Timeout) => {
                    sink(next, vec![json!({"st": "hang", "case": cases[next].clone()})]);
                    hangs += 1;
                    next += 1;
                    break;
                }
                Err(RecvTimeoutError::Disconnected) => {
                    if next < n {
                        sink(next, vec![json!({"st": "harness_panic:worker vanished", "case": cases[next].clone()})]);
                        next += 1;
                    }
                    break;
                }
            }
        }
    }
}

/// Puts `s` into the caller's buffer after the buffer held - at the same address, with the same byte length - a text of
/// another structure (single-byte letters) that `touch` looked at: whatever the library remembered about that text must
/// not be used for `s` (a memo keyed by address and length, a re-used scratch buffer, ...).
pub fn refill_with(buf: &mut String, s: &str, touch: impl FnOnce(&str)) {
    buf.clear();
    buf.push_str(&"x".repeat(s.len()));
    touch(buf);
    buf.clear();
    buf.push_str(s);
}

/// Interner: equal strings <=> equal ids (ids start at 1).
#[derive(Default)]
pub struct Interner {
    map: HashMap<String, i64>,
}

impl Interner {
    pub fn id(&mut self, s: &str) -> i64 {
        let n = self.map.len() as i64 + 1;
        *self.map.entry(s.to_string()).or_insert(n)
    }
}

/// Split a string into the library's notion of characters, independently of
/// the library: code points, or extended grapheme clusters.
pub fn clusters(s: &str, graphemes: bool) -> Vec<&str> {
    if graphemes {
        s.graphemes(true).collect()
    } else {
        let mut v = Vec::new();
        let mut it = s.char_indices().peekable();
        while let Some((i, c)) = it.next() {
            v.push(&s[i..i + c.len_utf8()]);
        }
        v
    }
}

/// The view of a string: one record per character with identity `i`,
/// whitespace flag `w` (all code points are White_Space), byte length `n`,
/// `m` = "mixed" (some but not all code points whitespace), `c` = number of code points,
/// `cb` = byte length of every code point.
pub fn view(s: &str, graphemes: bool, int: &mut Interner) -> Value {
    Value::Array(
        clusters(s, graphemes)
            .into_iter()
            .map(|c| {
                let all = c.chars().all(char::is_whitespace);
                let any = c.chars().any(char::is_whitespace);
                json!({"i": int.id(c), "w": all, "n": c.len(), "m": any && !all,
                       "c": c.chars().count(),
                       "cb": c.chars().map(|ch| ch.len_utf8()).collect::<Vec<_>>()})
            })
            .collect(),
    )
}

/// Short view: identity and whitespace flag only.
pub fn view_iw(s: &str, graphemes: bool, int: &mut Interner) -> Value {
    Value::Array(
        clusters(s, graphemes)
            .into_iter()
            .map(|c| {
                let all = c.chars().all(char::is_whitespace);
                json!({"i": int.id(c), "w": all})
            })
            .collect(),
    )
}

/// Fixed-point encoding of a float for the 32-bit integers of TLC.
pub fn f6(x: f64) -> Value {
    if x.is_nan() {
        json!({"t": "nan", "v": 0})
    } else if x.is_infinite() {
        json!({"t": "inf", "v": 0})
    } else if x.abs() > 2000.0 {
        json!({"t": "big", "v": 0})
    } else {
        json!({"t": "num", "v": (x * 1e6).round() as i64})
    }
}

pub fn get_bool(v: &Value, k: &str) -> bool {
    v.get(k).and_then(|x| x.as_bool()).unwrap_or(false)
}
pub fn get_u(v: &Value, k: &str) -> usize {
    v.get(k).and_then(|x| x.as_u64()).unwrap_or(0) as usize
}
pub fn get_str<'a>(v: &'a Value, k: &str) -> &'a str {
    v.get(k).and_then(|x| x.as_str()).unwrap_or("")
}

/// One grapheme cluster of 261 bytes (e + 130 combining acute accents): lengths that do not fit into a byte.
pub fn giant_cluster() -> &'static str {
    static G: std::sync::OnceLock<String> = std::sync::OnceLock::new();
    G.get_or_init(|| format!("e{}", "\u{0301}".repeat(130))).as_str()
}

/// Concretisation tables: slot number (1-based) -> concrete string, per alphabet.
/// Slot 1 is always a whitespace symbol, slot 2.. are non-whitespace.
pub fn alphabet(name: &str) -> Vec<&'static str> {
    match name {
        "ascii" => vec![" ", "a", "b", "c", "d", "e"],
        // NBSP (2 bytes, ws), 2-, 3-, 4-byte letters
        "multi" => vec!["\u{00A0}", "ä", "€", "😀", "ö", "ß"],
        // clusters: CRLF (ws cluster in grapheme mode), e + combining acute, flag, ZWJ family
        "cluster" => vec!["\r\n", "e\u{0301}", "🇩🇪", "👨\u{200D}👩", "a\u{0308}", "x"],
        // two characters that share their first code point (a code-point-wise common prefix cuts through a cluster)
        "share" => vec![" ", "e\u{0301}", "e", "\u{0301}", "e\u{0301}\u{0302}", "x"],
        // the same with a letter that has no precomposed form (the clusters survive NFKC normalisation)
        "shareq" => vec![" ", "q\u{0303}", "q", "\u{0303}", "q\u{0303}\u{0302}", "x"],
        // two different whitespace characters (never substituted for one another under spaces_insert_delete_only)
        "ws2" => vec![" ", "\t", "a", "\u{00A0}", "b", "\n"],
        // tab as whitespace, ideographic space is in "wide"
        "tab" => vec!["\t", "x", "y", "z", "u", "v"],
        // whitespace functions: space, tab, NBSP (2-byte ws), ideographic space (3-byte ws), a, b, ZWSP (non-ws), e+acute
        "ws" => vec![" ", "\t", "\u{00A0}", "\u{3000}", "a", "b", "\u{200B}", "e\u{0301}", "\r\n"],
        // pure ASCII (byte-wise fast paths): every ASCII White_Space character, a, a control that is not whitespace, CRLF
        "asciiws" => vec![" ", "\t", "\n", "\u{000B}", "\u{000C}", "\r", "a", "\u{001F}", "\r\n"],
        // code points that fuse into one grapheme cluster once the whitespace between them is gone:
        // regional indicators D and E, Hangul leading consonant and vowel; plus space, tab, a, b
        "fuse" => vec![" ", "\t", "\u{1F1E9}", "\u{1F1EA}", "\u{1100}", "\u{1161}", "a", "b", "\u{1F1E9}\u{1F1EA}"],
        // clean texts: space, then letters incl. multi-byte and a cluster
        "cleanpair" => vec![" ", "a", "b", "ä", "e\u{0301}"],
        // tokenizer texts: a, a-umlaut, e + combining acute, space, <, p, >, emoji
        "tok" => vec!["a", "ä", "e\u{0301}", " ", "<", "p", ">", "😀"],
        "wide" => vec!["\u{3000}", "字", "é", "\u{200B}", "q", "r"],
        _ => panic!("unknown alphabet {name}"),
    }
}

pub fn concretise(slots: &Value, alpha: &[&str]) -> String {
    slots
        .as_array()
        .expect("slots must be an array")
        .iter()
        .map(|x| alpha[x.as_u64().expect("slot") as usize - 1])
        .collect()
}
