//! Extension X09: utils::find_subsequences_of_max_size_k, text::possible_byte_substrings,
//! text::possible_character_substrings, utils::accumulate and run-length coding, public API only
//! (the last three through the `benchmark-utils` re-exports).  A value is its weight; for the text
//! functions a weight is the UTF-8 width of a character.
use crate::common::*;
use rand::prelude::*;
use rand_chacha::ChaCha8Rng;
use serde_json::{json, Value};
use text_utils::text::{possible_byte_substrings, possible_character_substrings};
use text_utils::utils::{accumulate_pub, find_subsequences_of_max_size_k, run_length_decode_pub, run_length_encode_pub};

const WIDTH: [char; 4] = ['a', '\u{e9}', '\u{20ac}', '\u{1f600}'];

fn nums(v: &Value) -> Vec<usize> {
    v.as_array().map(|a| a.iter().map(|x| x.as_u64().unwrap() as usize).collect()).unwrap_or_default()
}
fn triples(v: Vec<(usize, usize, usize)>) -> Vec<Value> {
    v.into_iter().map(|(a, b, n)| json!([a, b, n])).collect()
}

pub fn exec(case: &Value) -> Vec<Value> {
    let kind = get_str(case, "kind");
    let rec = match kind {
        "find" => {
            let v = nums(&case["v"]);
            let k = get_u(case, "k");
            let f = get_str(case, "f");
            guard(|| {
                let out = if f == "sum" {
                    find_subsequences_of_max_size_k(&v, k, |w: &[usize]| w.iter().sum::<usize>())
                } else {
                    find_subsequences_of_max_size_k(&v, k, |w: &[usize]| w.iter().copied().max().unwrap_or(0) * w.len())
                };
                json!({"st": "ok", "kind": kind, "v": v, "k": k, "f": f, "out": out.iter().map(|(a, b)| json!([a, b])).collect::<Vec<_>>()})
            })
        }
        "bytes" | "chars" => {
            let v = nums(&case["v"]);
            let k = get_u(case, "k");
            let text: String = v.iter().map(|w| WIDTH[*w - 1]).collect();
            guard(|| {
                let (out, outg) = if kind == "bytes" {
                    (possible_byte_substrings(&text, k, false), possible_byte_substrings(&text, k, true))
                } else {
                    (possible_character_substrings(&text, k, false), possible_character_substrings(&text, k, true))
                };
                json!({"st": "ok", "kind": kind, "v": v, "k": k, "out": triples(out), "outg": triples(outg)})
            })
        }
        "rle" => {
            let v = nums(&case["v"]);
            guard(|| {
                let enc = run_length_encode_pub(&v);
                let dec = run_length_decode_pub(&enc);
                let acc = accumulate_pub(&v);
                json!({"st": "ok", "kind": kind, "v": v, "enc": enc.iter().map(|(x, n)| json!([x, n])).collect::<Vec<_>>(), "dec": dec, "acc": acc})
            })
        }
        _ => {
            let e: Vec<(usize, usize)> = case["e"].as_array().map(|a| a.iter().map(|p| (p[0].as_u64().unwrap() as usize, p[1].as_u64().unwrap() as usize)).collect()).unwrap_or_default();
            guard(|| {
                let dec = run_length_decode_pub(&e);
                json!({"st": "ok", "kind": "unrle", "e": e.iter().map(|(x, n)| json!([x, n])).collect::<Vec<_>>(), "dec": dec})
            })
        }
    };
    vec![rec.unwrap_or_else(|m| json!({"st": format!("panic:{kind}:{m}"), "kind": kind, "case": case}))]
}

pub fn gen(seed: u64, n: usize) -> Vec<Value> {
    let mut rng = ChaCha8Rng::seed_from_u64(seed);
    (0..n)
        .map(|i| match i % 4 {
            0 | 1 => {
                // longer sequences, larger weights; every 7th case in units of 100 000 (sums beyond 16 and 20 bits)
                let len = rng.random_range(0..=24);
                let hi = [1usize, 3, 9][rng.random_range(0..3)];
                let unit = if i % 7 == 0 { 100_000 } else { 1 };
                let v: Vec<usize> = (0..len).map(|_| rng.random_range(0..=hi) * unit).collect();
                let k = rng.random_range(0..=3 * hi + 2) * unit + if unit > 1 && rng.random_bool(0.5) { unit - 1 } else { 0 };
                json!({"kind": "find", "v": v, "k": k, "f": if rng.random_bool(0.5) { "sum" } else { "padded" }})
            }
            2 => {
                let v: Vec<usize> = (0..rng.random_range(0..=16)).map(|_| if rng.random_bool(0.5) { 1 } else { rng.random_range(1..=4) }).collect();
                let k = rng.random_range(0..=14);
                json!({"kind": if rng.random_bool(0.6) { "bytes" } else { "chars" }, "v": v, "k": k})
            }
            _ => {
                if rng.random_bool(0.6) {
                    let v: Vec<usize> = (0..rng.random_range(0..=20)).map(|_| rng.random_range(1..=3)).collect();
                    json!({"kind": "rle", "v": v})
                } else {
                    let e: Vec<Value> = (0..rng.random_range(0..=6)).map(|_| json!([rng.random_range(1..=3), rng.random_range(0..=4)])).collect();
                    json!({"kind": "unrle", "e": e})
                }
            }
        })
        .collect()
}
