//! C19: train_bpe on small corpora materialised as text files.
use crate::common::*;
use rand::prelude::*;
use rand_chacha::ChaCha8Rng;
use serde_json::{json, Value};
use std::collections::BTreeMap;
use text_utils::tokenization::{train_bpe, MergeOps};
use text_utils::unicode::Normalization;
use text_utils::utils::SerializeMsgPack;

const LETTERS: [&str; 5] = ["a", "b", "c", "d", "e"];
/// letters that NFKC rewrites (ligature fi -> f i, fullwidth f -> f) next to their targets: without a requested
/// normalisation the corpus must be taken as it is
// slot 5: the spacing acute accent, whose NFKC form is a blank followed by the combining acute (the word is cleaned first,
// so with normalisation it falls into two words)
const LETTERS_NFKC: [&str; 5] = ["\u{FB01}", "i", "\u{FF46}", "f", "\u{00B4}"];

pub fn exec(case: &Value) -> Vec<Value> {
    let words: Vec<String> = case["words"]
        .as_array()
        .unwrap()
        .iter()
        .map(|w| w.as_array().unwrap().iter().map(|s| if get_str(case, "alpha") == "nfkc" { LETTERS_NFKC } else { LETTERS }[s.as_u64().unwrap() as usize - 1]).collect::<String>())
        .collect();
    let with_norm = get_bool(case, "norm");
    let freqs: Vec<usize> = case["freqs"].as_array().unwrap().iter().map(|x| x.as_u64().unwrap() as usize).collect();
    // `vs` = [vocab_size, num_special_tokens] as handed to train_bpe (default: 320 and 64 - num_merges); the number of merges
    // asked for is what is left of the vocabulary behind the 256 bytes and the special tokens - nothing, if they use it up
    let vs: Option<(usize, usize)> = case.get("vs").and_then(|x| x.as_array()).map(|a| (a[0].as_u64().unwrap() as usize, a[1].as_u64().unwrap() as usize));
    let num_merges = match vs { Some((v, sp)) => v.saturating_sub(256).saturating_sub(sp), None => get_u(case, "num_merges") };
    let per_line = get_u(case, "per_line").max(1);
    let seed = case.get("seed").and_then(|x| x.as_u64()).unwrap_or(0);
    // all word occurrences, shuffled, `per_line` words per line separated by single spaces
    let mut occ: Vec<&str> = vec![];
    for (w, f) in words.iter().zip(&freqs) {
        for _ in 0..*f {
            occ.push(w);
        }
    }
    let mut rng = ChaCha8Rng::seed_from_u64(seed);
    occ.shuffle(&mut rng);
    let lines: Vec<String> = occ.chunks(per_line).map(|c| c.join(" ")).collect();
    // the corpus is spread over `files` input files (contiguous blocks of lines); with `max_lines` > 0 only the first
    // max_lines lines of EVERY file are read (max_lines_per_file)
    let nfiles = get_u(case, "files").max(1);
    let max_lines = get_u(case, "max_lines");
    let per_file = (lines.len() + nfiles - 1) / nfiles.max(1);
    let blocks: Vec<Vec<String>> = (0..nfiles).map(|j| lines.iter().skip(j * per_file).take(per_file.max(if lines.is_empty() { 0 } else { 1 })).cloned().collect()).collect();
    // `dup`: the first file is listed twice (its lines count twice)
    let dup = get_bool(case, "dup");
    let mut counted: Vec<String> = blocks.iter().flat_map(|b| b.iter().take(if max_lines > 0 { max_lines } else { usize::MAX }).cloned()).collect();
    if dup {
        counted.extend(blocks[0].iter().take(if max_lines > 0 { max_lines } else { usize::MAX }).cloned());
    }
    // the view of the corpus: whitespace-prefixed words and their counts
    let mut view: BTreeMap<Vec<u8>, usize> = BTreeMap::new();
    for l in &counted {
        // what the trainer is asked to count: the line as it is, or its NFKC form when normalisation is requested
        let l = if with_norm { text_utils::unicode::normalize(l, Normalization::NFKC, true) } else { l.clone() };
        for (i, w) in l.split(' ').enumerate() {
            let mut b = if i == 0 { vec![] } else { vec![b' '] };
            b.extend(w.as_bytes());
            *view.entry(b).or_insert(0) += 1;
        }
    }
    let dir = std::env::temp_dir().join(format!("tuverif-bpe-{}-{:?}", std::process::id(), std::thread::current().id()));
    let _ = std::fs::create_dir_all(&dir);
    let mut out = vec![];
    for threads in case["threads"].as_array().map(|a| a.iter().map(|x| x.as_u64().unwrap() as u8).collect::<Vec<_>>()).unwrap_or(vec![1]) {
        let outp = dir.join("merges.bin");
        let _ = std::fs::remove_file(&outp);
        let inps: Vec<std::path::PathBuf> = (0..nfiles).map(|j| dir.join(format!("corpus{j}.txt"))).collect();
        for (j, p) in inps.iter().enumerate() {
            // `blanks` > 0: empty, whitespace-only and CR-only lines at the start of every file and between the lines (they
            // hold no word; only without a line limit, which counts them)
            let blanks = if max_lines == 0 { get_u(case, "blanks") } else { 0 };
            let kinds = ["", " \t ", "\r", "\u{00A0}"];
            let mut text = String::new();
            for b in 0..blanks {
                text.push_str(kinds[b % kinds.len()]);
                text.push('\n');
            }
            let mut bytes: Vec<u8> = vec![];
            for (k, l) in blocks[j].iter().enumerate() {
                // `bad_utf8`: a line that is not valid UTF-8 between the lines (it is skipped, the lines behind it still count)
                if get_bool(case, "bad_utf8") && max_lines == 0 && k == 1 {
                    bytes.extend_from_slice(text.as_bytes());
                    text.clear();
                    bytes.extend_from_slice(b"caf\xff \xfe\n");
                }
                text.push_str(l);
                text.push('\n');
                if blanks > 0 && k % 2 == 0 {
                    text.push_str(kinds[(k / 2 + j) % kinds.len()]);
                    text.push('\n');
                }
            }
            bytes.extend_from_slice(text.as_bytes());
            std::fs::write(p, bytes).unwrap();
        }
        // vocab_size must be a multiple of 64: 320 - 256 - (64 - m) = m merges
        let norm = if with_norm { Some(Normalization::NFKC) } else { None };
        let mut inps = inps;
        if dup {
            inps.insert(1.min(inps.len()), inps[0].clone());
        }
        let (vocab_size, num_special) = vs.unwrap_or((320, 64 - num_merges.min(64)));
        let r = guard(|| train_bpe(&inps, vocab_size, num_special, &outp, if max_lines > 0 { Some(max_lines) } else { None }, norm, threads, false));
        quiet_panics(); // train_bpe installs its own (printing) panic hook
        let mut st = match r {
            Ok(Ok(())) => "ok".to_string(),
            Ok(Err(e)) => format!("err:train_bpe:{e}"),
            Err(m) => format!("panic:train_bpe:{m}"),
        };
        let mut tab: Vec<(Vec<u8>, u32)> = vec![];
        if st == "ok" {
            match MergeOps::load(&outp) {
                Ok(ops) => {
                    tab = ops.into_iter().collect();
                    tab.sort_by(|a, b| a.1.cmp(&b.1).then(a.0.cmp(&b.0)));
                }
                Err(e) => st = format!("err:load:{e}"),
            }
        }
        out.push(json!({"st": st, "threads": threads, "num_merges": num_merges,
            "corpus": view.iter().map(|(b, f)| json!({"b": b, "f": f})).collect::<Vec<_>>(),
            "tab": tab.iter().map(|(b, id)| json!({"b": b, "id": id})).collect::<Vec<_>>(),
            "case": case}));
    }
    let _ = std::fs::remove_dir_all(&dir);
    out
}

pub fn gen(seed: u64, n: usize) -> Vec<Value> {
    let mut rng = ChaCha8Rng::seed_from_u64(seed);
    (0..n)
        .map(|i| {
            // one corpus per run has word and pair frequencies beyond 16 bits (the close runner-up must not win)
            if i == 5 {
                let f = rng.random_range(66000..=70000usize);
                return json!({"words": [[1, 2], [3, 1], [2, 2, 3]], "freqs": [f, f - 1, 3], "num_merges": 3, "per_line": 40, "seed": rng.random::<u32>(),
                              "threads": [1, 3], "norm": true, "alpha": "abcd", "files": 2, "max_lines": 0, "blanks": 0});
            }
            let nw = rng.random_range(1..=6);
            let na = rng.random_range(1..=3u64);
            let words: Vec<Vec<u64>> = (0..nw).map(|_| (0..rng.random_range(1..=7)).map(|_| rng.random_range(1..=na)).collect()).collect();
            let freqs: Vec<usize> = (0..nw).map(|_| rng.random_range(1..=5)).collect();
            let th = [0, 1, 3][rng.random_range(0..3)];
            let alpha = if rng.random_bool(0.3) { "nfkc" } else { "abcd" };
            let max_lines = [0, 0, 1, 2, 4][rng.random_range(0..5)];
            json!({"words": words, "freqs": freqs, "num_merges": rng.random_range(0..=24), "per_line": rng.random_range(1..=3),
                   "seed": rng.random::<u32>(), "threads": [th], "norm": rng.random_bool(0.5), "alpha": alpha,
                   "vs": if rng.random_bool(0.1) { json!([[256, 1], [256, 4], [320, 65], [0, 4], [192, 0], [320, 64], [320, 61], [64, 1]][rng.random_range(0..8)]) } else { Value::Null },
                   "bad_utf8": rng.random_bool(0.15), "dup": rng.random_bool(0.15),
                   "files": rng.random_range(1..=3), "max_lines": max_lines, "blanks": if rng.random_bool(0.3) { rng.random_range(1..=5) } else { 0 }})
        })
        .collect()
}
