//! Extension X06: the line reader `LossyUtf8Reader::lines` and the jsonl item layer of
//! `train_data_generator_from_jsonl`, on real temporary files.
use crate::common::*;
use rand::prelude::*;
use rand_chacha::ChaCha8Rng;
use serde_json::{json, Value};
use std::io::BufReader;
use text_utils::data::loading::{train_data_generator_from_jsonl, LossyUtf8Reader};

fn tmp_path(tag: &str) -> std::path::PathBuf {
    std::env::temp_dir().join(format!("tuverif-lines-{}-{:?}-{tag}", std::process::id(), std::thread::current().id()))
}

fn exec_bytes(case: &Value) -> Vec<Value> {
    let bytes: Vec<u8> = case["bytes"].as_array().map(|a| a.iter().map(|x| x.as_u64().unwrap() as u8).collect()).unwrap_or_default();
    let p = tmp_path("b");
    std::fs::write(&p, &bytes).expect("cannot write temp file");
    let mut st = "ok".to_string();
    let read = |st: &mut String| -> Vec<Vec<u8>> {
        match guard(|| {
            LossyUtf8Reader::new(BufReader::new(std::fs::File::open(&p).unwrap())).lines().map(|l| l.map(|s| s.into_bytes())).collect::<Result<Vec<_>, _>>()
        }) {
            Ok(Ok(v)) => v,
            Ok(Err(e)) => { *st = format!("err:lines:{e}"); vec![] }
            Err(m) => { *st = format!("panic:lines:{m}"); vec![] }
        }
    };
    let lines = read(&mut st);
    let count = read(&mut st).len();
    let _ = std::fs::remove_file(&p);
    vec![json!({"st": st, "kind": "bytes", "bytes": bytes, "lines": lines, "count": count, "case": case})]
}

fn line_text(kind: &str) -> &'static str {
    match kind {
        "io" => r#"{"input": "a täst"}"#,
        "it" => r#"{"input": "in put", "target": "tar get", "extra": 1}"#,
        "in" => r#"{"input": 5}"#,
        "tn" => r#"{"input": "x", "target": ["y"]}"#,
        "mi" => r#"{"target": "only"}"#,
        "no" => r#"["input", "x"]"#,
        "bad" => r#"{"input": "x""#,
        _ => "",
    }
}

fn exec_jsonl(case: &Value) -> Vec<Value> {
    let kinds: Vec<String> = case["lines"].as_array().map(|a| a.iter().map(|x| x.as_str().unwrap().to_string()).collect()).unwrap_or_default();
    let term = if get_str(case, "term") == "crlf" { "\r\n" } else { "\n" };
    let last = get_bool(case, "last"); // the last line carries a terminator
    let mut content = String::new();
    for (k, kind) in kinds.iter().enumerate() {
        content.push_str(line_text(kind));
        if k + 1 < kinds.len() || last {
            content.push_str(term);
        }
    }
    // an empty last line without terminator is no line at all
    let mut written = kinds.clone();
    if !last && written.last().map(|k| line_text(k).is_empty()).unwrap_or(false) {
        written.pop();
    }
    let p = tmp_path("j");
    std::fs::write(&p, content.as_bytes()).expect("cannot write temp file");
    let mut st = "ok".to_string();
    let (items, reported) = match guard(|| train_data_generator_from_jsonl(&p)) {
        Ok(Ok(g)) => {
            let reported = g.len();
            let items: Vec<&str> = match guard(move || g.map(|r| match r {
                Ok(d) => if d.verif_input() == d.verif_target() { "ok_same" } else { "ok_pair" },
                Err(_) => "err",
            }).collect::<Vec<_>>()) {
                Ok(v) => v,
                Err(m) => { st = format!("panic:next:{m}"); vec![] }
            };
            (items, reported)
        }
        Ok(Err(e)) => { st = format!("err:open:{e}"); (vec![], 0) }
        Err(m) => { st = format!("panic:open:{m}"); (vec![], 0) }
    };
    let _ = std::fs::remove_file(&p);
    vec![json!({"st": st, "kind": "jsonl", "kinds": written, "items": items, "reported": reported, "case": case})]
}

pub fn exec(case: &Value) -> Vec<Value> {
    if get_str(case, "kind") == "jsonl" { exec_jsonl(case) } else { exec_bytes(case) }
}

pub fn gen(seed: u64, n: usize) -> Vec<Value> {
    let mut rng = ChaCha8Rng::seed_from_u64(seed);
    let kinds = ["io", "it", "in", "tn", "mi", "no", "bad", "empty"];
    let pool: [u8; 9] = [10, 13, 97, 97, 32, 195, 164, 255, 10];
    (0..n)
        .map(|i| {
            if i % 2 == 0 {
                let len = rng.random_range(0..40);
                let bytes: Vec<u8> = (0..len).map(|_| pool[rng.random_range(0..pool.len())]).collect();
                json!({"kind": "bytes", "bytes": bytes})
            } else {
                let len = rng.random_range(0..8);
                let lines: Vec<&str> = (0..len).map(|_| kinds[rng.random_range(0..kinds.len())]).collect();
                let term = if rng.random_bool(0.5) { "lf" } else { "crlf" };
                json!({"kind": "jsonl", "lines": lines, "term": term, "last": rng.random_bool(0.5)})
            }
        })
        .collect()
}
