//! Extension X04: ChatTemplate::new / format and the ChatDecode preprocessing (types re-exported by the guarded
//! hook `data::verif`).
use crate::common::*;
use crate::p_ws::Cp;
use rand::prelude::*;
use rand_chacha::ChaCha8Rng;
use serde_json::{json, Value};
use std::collections::HashMap;
use text_utils::data::preprocessing::{preprocessing, Part, PreprocessingFnConfig};
use text_utils::data::verif::{ChatMessage, ChatTemplate};
use text_utils::data::{TextDataInfo, TrainData};

/// (start, end, roles) of the numbered templates; a role template is written with its {text} patterns
fn template(n: u64) -> (Option<String>, Option<String>, Vec<(String, String)>) {
    let r = |v: &[(&str, &str)]| v.iter().map(|(a, b)| (a.to_string(), b.to_string())).collect::<Vec<_>>();
    match n {
        1 => (None, None, r(&[("u", "U:{text}\n"), ("b", "{text}|B")])),
        2 => (Some("<s>".into()), Some("<e>".into()), r(&[("u", "<|u|>\n{text}\n\n"), ("b", "B: {text}")])),
        3 => (Some("<s>".into()), None, r(&[("u", "no pattern"), ("b", "{text}")])),
        4 => (None, Some("<e>".into()), r(&[("u", "{text} and {text}"), ("b", "{text}")])),
        _ => {
            let d = ChatTemplate::default();
            let mut roles: Vec<(String, String)> = d.roles.into_iter().collect();
            roles.sort();
            (d.start, d.end, roles)
        }
    }
}

pub fn exec(case: &Value) -> Vec<Value> {
    let (start, end, roles) = template(get_u(case, "tpl") as u64);
    let mut cp = Cp::new();
    let rolev: Vec<Value> = roles
        .iter()
        .map(|(name, t)| {
            let n = t.matches("{text}").count();
            let (pre, post) = if n == 1 { let p = t.find("{text}").unwrap(); (&t[..p], &t[p + 6..]) } else { ("", "") };
            json!({"name": name, "n": n, "pre": cp.cps(pre), "post": cp.cps(post)})
        })
        .collect();
    let tplv = json!({"start": cp.cps(start.as_deref().unwrap_or("")), "end": cp.cps(end.as_deref().unwrap_or("")), "roles": rolev});
    let msgs: Vec<(String, String, bool)> = case["chat"].as_array().map(|a| a.iter().map(|m| (get_str(m, "role").to_string(), get_str(m, "text").to_string(), get_bool(m, "partial"))).collect()).unwrap_or_default();
    let chatv: Vec<Value> = msgs.iter().map(|(r, t, p)| json!({"role": r, "text": cp.cps(t), "partial": p})).collect();
    let mut st = "ok".to_string();
    let built = guard(|| ChatTemplate::new(start.clone(), roles.iter().cloned().collect::<HashMap<_, _>>(), end.clone()));
    let tpl = match built {
        Ok(Ok(t)) => Some(t),
        Ok(Err(_)) => None,
        Err(m) => { st = format!("panic:new:{m}"); None }
    };
    let none = json!({"err": true, "txt": []});
    let (out, dec) = match &tpl {
        None => (none.clone(), none.clone()),
        Some(t) => {
            let chat: Vec<ChatMessage> = msgs.iter().map(|(r, x, p)| ChatMessage { role: r.clone(), text: x.clone(), partial: *p }).collect();
            let out = match guard(|| t.format(&chat)) {
                Ok(Ok(s)) => json!({"err": false, "txt": cp.cps(&s)}),
                Ok(Err(_)) => none.clone(),
                Err(m) => { st = format!("panic:format:{m}"); none.clone() }
            };
            // the same chat as JSON (the partial member is left out when false for every second message) through ChatDecode
            let js = Value::Array(msgs.iter().enumerate().map(|(k, (r, x, p))| if !*p && k % 2 == 0 { json!({"role": r, "text": x}) } else { json!({"role": r, "text": x, "partial": p}) }).collect());
            let dec = match guard(|| {
                let f = preprocessing(PreprocessingFnConfig::ChatDecode(Part::Input, t.clone()));
                f(TrainData::new(js.to_string(), Some("t".into())), TextDataInfo::default())
            }) {
                Ok(Ok((d, _))) => json!({"err": false, "txt": cp.cps(d.verif_input())}),
                Ok(Err(_)) => none.clone(),
                Err(m) => { st = format!("panic:chat_decode:{m}"); none.clone() }
            };
            (out, dec)
        }
    };
    vec![json!({"st": st, "tpl": tplv, "newok": tpl.is_some(), "chat": chatv, "out": out, "dec": dec, "case": case})]
}

pub fn gen(seed: u64, n: usize) -> Vec<Value> {
    let mut rng = ChaCha8Rng::seed_from_u64(seed);
    let texts = ["", "hello", "{text}", "ä \"quoted\" \\ \n", "<|user|>", "😀 e\u{0301}"];
    (0..n)
        .map(|_| {
            let tpl = rng.random_range(1..=5);
            let roles: &[&str] = if tpl == 5 { &["user", "assistant", "system", "tool"] } else { &["u", "b", "zz"] };
            let len = rng.random_range(0..6);
            let chat: Vec<Value> = (0..len)
                .map(|k| {
                    let partial = if k == len - 1 { rng.random_bool(0.4) } else { rng.random_bool(0.08) };
                    let role = if rng.random_bool(0.9) { roles[rng.random_range(0..roles.len() - 1)] } else { roles[roles.len() - 1] };
                    let text = texts[rng.random_range(0..texts.len())];
                    json!({"role": role, "text": text, "partial": partial})
                })
                .collect();
            json!({"kind": "chat", "tpl": tpl, "chat": chat})
        })
        .collect()
}
