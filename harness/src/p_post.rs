//! Extension X03: postprocessing() (clip_length, token masking, chain / switch / on_mark / switch_on_mark)
//! and the task input functions of train_task() (generation, conditional generation, classification).
use crate::common::*;
use rand::prelude::*;
use rand_chacha::ChaCha8Rng;
use serde_json::{json, Value};
use std::collections::HashMap;
use std::sync::atomic::AtomicUsize;
use std::sync::Arc;
use text_utils::data::postprocessing::{postprocessing, PostprocessingFnConfig};
use text_utils::data::task::{train_task, TrainTaskConfig};
use text_utils::data::{TextDataInfo, TrainData, TrainItem, TrainTaskInput};
use text_utils::tokenization::{tokenizer, ByteGroups, ByteTokenizerConfig, GroupAggregation, SpecialConfig, TokenizeConfig, TokenizerConfig};

fn tok_cfg(npfx: usize, nsfx: usize) -> TokenizerConfig {
    TokenizerConfig {
        tokenize: TokenizeConfig::Byte(ByteTokenizerConfig { use_graphemes: true, pad_to_multiple_of: None,
            groups: ByteGroups::Bytes, aggregation: GroupAggregation::Mean }),
        special: SpecialConfig { pad: "<pad>".into(), tokens: vec!["<pad>".into(), "<bos>".into(), "<eos>".into(), "<mask>".into()],
            prefix: vec!["<bos>".to_string(); npfx], suffix: vec!["<eos>".to_string(); nsfx] },
    }
}

fn to_cfg(v: &Value, pfx: usize, sfx: usize) -> PostprocessingFnConfig {
    let kids = |v: &Value| -> Vec<PostprocessingFnConfig> { v["kids"].as_array().map(|a| a.iter().map(|k| to_cfg(k, pfx, sfx)).collect()).unwrap_or_default() };
    let strs = |v: &Value| -> Vec<String> { v.as_array().map(|a| a.iter().map(|x| x.as_str().unwrap().to_string()).collect()).unwrap_or_default() };
    match get_str(v, "op") {
        "clip" => PostprocessingFnConfig::ClipLength,
        "mask" => PostprocessingFnConfig::TokenMasking(tok_cfg(pfx, sfx), if get_bool(v, "pz") { 0.0 } else { 0.6 }, 1, 0.5, "<mask>".into()),
        "chain" => PostprocessingFnConfig::Chain(kids(v)),
        "switch" => {
            let cum: Vec<f64> = v["cum"].as_array().unwrap().iter().map(|x| x.as_f64().unwrap() / 1e6).collect();
            let probs: Vec<f64> = cum.iter().enumerate().map(|(k, c)| if k == 0 { *c } else { c - cum[k - 1] }).collect();
            PostprocessingFnConfig::Switch(kids(v), probs)
        }
        "onmark" => PostprocessingFnConfig::OnMark(get_str(v, "key").into(), get_str(v, "val").into(), kids(v)),
        "swmark" => PostprocessingFnConfig::SwitchOnMark(get_str(v, "key").into(), strs(&v["vals"]), kids(v)),
        _ => PostprocessingFnConfig::None,
    }
}

fn near(v: &Value, r: f64) -> bool {
    let own = v.get("cum").and_then(|x| x.as_array()).map(|a| a.iter().any(|c| (c.as_f64().unwrap() / 1e6 - r).abs() < 2e-6)).unwrap_or(false);
    own || v.get("kids").and_then(|x| x.as_array()).map(|a| a.iter().any(|k| near(k, r))).unwrap_or(false)
}

fn input_json(inp: &TrainTaskInput) -> Value {
    match inp {
        TrainTaskInput::Classification { token_ids, label, .. } => json!({"err": false, "ids": token_ids, "labels": [], "tids": [], "label": label}),
        TrainTaskInput::SequenceClassification { token_ids, labels, .. } => json!({"err": false, "ids": token_ids, "labels": labels, "tids": [], "label": 0}),
        TrainTaskInput::Generation { token_ids, labels, .. } => json!({"err": false, "ids": token_ids, "labels": labels, "tids": [], "label": 0}),
        TrainTaskInput::ConditionalGeneration { token_ids, target_token_ids, labels, .. } =>
            json!({"err": false, "ids": token_ids, "labels": labels, "tids": target_token_ids, "label": 0}),
    }
}
fn err_json(how: &str) -> Value {
    json!({"err": true, "how": how, "ids": [], "labels": [], "tids": [], "label": 0})
}

fn exec_post(case: &Value) -> Vec<Value> {
    let (n, l, pfx, sfx) = (get_u(case, "n"), get_u(case, "L"), get_u(case, "pfx"), get_u(case, "sfx"));
    let seed = case.get("seed").and_then(|x| x.as_u64()).unwrap_or(0);
    let item = get_str(case, "item").to_string();
    let marks: HashMap<String, String> = case["marks"].as_array().map(|a| a.iter().map(|kv| (kv[0].as_str().unwrap().to_string(), kv[1].as_str().unwrap().to_string())).collect()).unwrap_or_default();
    let ids0: Vec<u32> = (1..=n as u32).map(|k| 10 + k).collect();
    let lab0: Vec<i32> = (1..=n as i32).map(|k| 100 + k).collect();
    let tids0: Vec<u32> = (1..=n as u32).map(|k| 200 + k).collect();
    let maskid = tokenizer(tok_cfg(pfx, sfx)).ok().and_then(|t| t.token_to_id("<mask>")).unwrap_or(0);
    let r: f64 = ChaCha8Rng::seed_from_u64(seed).random();
    let mut st = "ok".to_string();
    let mut run = || -> Value {
        let f = match guard(|| postprocessing(to_cfg(&case["cfg"], pfx, sfx), Arc::new(AtomicUsize::new(l)))) {
            Ok(f) => f,
            Err(m) => {
                st = format!("panic:build:{m}");
                return err_json("build");
            }
        };
        let input = match item.as_str() {
            "cls" => TrainTaskInput::Classification { token_ids: ids0.clone(), pad_token_id: 0, label: 7 },
            "seq" => TrainTaskInput::SequenceClassification { token_ids: ids0.clone(), pad_token_id: 0, labels: lab0.clone() },
            "cond" => TrainTaskInput::ConditionalGeneration { token_ids: ids0.clone(), pad_token_id: 0, target_token_ids: tids0.clone(), target_pad_token_id: 0, labels: lab0.clone() },
            _ => TrainTaskInput::Generation { token_ids: ids0.clone(), pad_token_id: 0, labels: lab0.clone() },
        };
        let it = TrainItem::new(TrainData::new("x".into(), None), input);
        let info = TextDataInfo { seed, marks: marks.clone(), ..Default::default() };
        match guard(|| f(it, info)) {
            Ok(Ok((it, _))) => input_json(&it.input),
            Ok(Err(_)) => err_json("err"),
            Err(_) => err_json("panic"),
        }
    };
    let o1 = run();
    let o2 = run();
    vec![json!({"st": st, "kind": "post", "cfg": case["cfg"], "marks": case["marks"], "r": (r * 1e6).round() as i64, "near": near(&case["cfg"], r),
                "n": n, "L": l, "pfx": pfx, "sfx": sfx, "maskid": maskid, "item": item, "ids0": ids0, "lab0": lab0, "tids0": tids0,
                "again": o1 == o2, "out": o1, "case": case})]
}

fn exec_task(case: &Value) -> Vec<Value> {
    let al = alphabet("cleanpair");
    let text = |key: &str, slots: &str| -> String {
        case.get(key).and_then(|x| x.as_str()).map(|s| s.to_string()).unwrap_or_else(|| concretise(&case[slots], &al))
    };
    let (inp, tgt) = (text("i", "islots"), text("t", "tslots"));
    let (npfx, nsfx) = (get_u(case, "npfx"), get_u(case, "nsfx"));
    let task = get_str(case, "task").to_string();
    let mask_prefix = get_bool(case, "mask_prefix");
    let sep: Option<String> = match get_u(case, "sep") { 0 => None, 1 => Some(" ".into()), _ => Some("\n=> ".into()) };
    let tok = tokenizer(tok_cfg(npfx, nsfx)).expect("tokenizer");
    let ids = |s: &str| -> Vec<u32> { tok.tokenize(s, false).map(|t| t.token_ids).unwrap_or_default() };
    let sep_s = sep.clone().unwrap_or_default();
    let joined = ids(&format!("{inp}{sep_s}{tgt}"));
    let pfxids = ids(&format!("{inp}{sep_s}"));
    let (inids, tgtids) = (ids(&inp), ids(&tgt));
    let classes: Vec<String> = vec!["a".into(), "ä".into(), "a a".into(), "".into()];
    let cfg = match task.as_str() {
        "gen" => TrainTaskConfig::Generation(mask_prefix, tok_cfg(npfx, nsfx), false, sep.clone()),
        "cond" => TrainTaskConfig::ConditionalGeneration(tok_cfg(npfx, nsfx), false, tok_cfg(npfx, nsfx), false),
        _ => TrainTaskConfig::Classification(tok_cfg(npfx, nsfx), false, classes.clone()),
    };
    let mut st = "ok".to_string();
    let out = match guard(|| {
        let f = train_task(cfg);
        f(&TrainData::new(inp.clone(), Some(tgt.clone())))
    }) {
        Ok(Ok(i)) => input_json(&i),
        Ok(Err(_)) => err_json("err"),
        Err(m) => {
            st = format!("panic:train_task:{m}");
            err_json("panic")
        }
    };
    // classes as small numbers for the specification: index + 1, the target's number or 0
    let cls_ids: Vec<usize> = (1..=classes.len()).collect();
    let target_class = classes.iter().position(|c| *c == tgt).map(|p| p + 1).unwrap_or(0);
    vec![json!({"st": st, "kind": "task", "task": task, "i": inp, "t": tgt, "joined": joined, "pfxids": pfxids, "nsfx": nsfx, "npfx": npfx,
                "mask_prefix": mask_prefix, "inids": inids, "tgtids": tgtids, "classes": cls_ids, "target_class": target_class,
                "out": out, "near": false, "case": case})]
}

pub fn exec(case: &Value) -> Vec<Value> {
    if get_str(case, "kind") == "task" { exec_task(case) } else { exec_post(case) }
}

fn rand_cfg(rng: &mut ChaCha8Rng, depth: usize) -> Value {
    let k = rng.random_range(0..if depth == 0 { 4 } else { 9 });
    let kids = |rng: &mut ChaCha8Rng, n: usize| -> Vec<Value> { (0..n).map(|_| rand_cfg(rng, depth - 1)).collect() };
    match k {
        0 => json!({"op": "none"}),
        1 => json!({"op": "clip"}),
        2 => json!({"op": "mask", "pz": false}),
        3 => json!({"op": "mask", "pz": true}),
        4 | 5 => { let n = rng.random_range(0..4); json!({"op": "chain", "kids": kids(rng, n)}) }
        6 => {
            let n = rng.random_range(1..4usize);
            let mut cum: Vec<i64> = (0..n - 1).map(|_| rng.random_range(1..4) * 250000).collect();
            cum.sort();
            cum.push(1000000);
            json!({"op": "switch", "kids": kids(rng, n), "cum": cum})
        }
        7 => { let v = ["x", "y"][rng.random_range(0..2)]; let n = rng.random_range(0..3); json!({"op": "onmark", "key": "k", "val": v, "kids": kids(rng, n)}) }
        _ => json!({"op": "swmark", "key": "k", "vals": ["x", "y", "w"], "kids": kids(rng, 3)}),
    }
}

pub fn gen(seed: u64, n: usize) -> Vec<Value> {
    let mut rng = ChaCha8Rng::seed_from_u64(seed);
    let pool = ["a", "b", "ä", "e\u{0301}", " ", "€", "😀", "<bos>", "\n"];
    (0..n)
        .map(|i| {
            if i % 3 == 0 {
                let mk = |rng: &mut ChaCha8Rng| -> String { (0..rng.random_range(0..7)).map(|_| pool[rng.random_range(0..pool.len())]).collect() };
                let task = ["gen", "gen", "cond", "cls"][rng.random_range(0..4)];
                let t = if task == "cls" { ["a", "ä", "a a", "", "zz"][rng.random_range(0..5)].to_string() } else { mk(&mut rng) };
                json!({"kind": "task", "task": task, "i": mk(&mut rng), "t": t, "mask_prefix": rng.random_bool(0.5), "sep": rng.random_range(0..3),
                       "npfx": rng.random_range(0..3), "nsfx": rng.random_range(0..3)})
            } else {
                let marks: Vec<Value> = match rng.random_range(0..5) { 0 => vec![], 1 => vec![json!(["k", "x"])], 2 => vec![json!(["k", "y"])], 3 => vec![json!(["k", "w"])], _ => vec![json!(["k", "q"]), json!(["j", "x"])] };
                let item = ["gen", "seq", "cls", "cond"][rng.random_range(0..4)];
                json!({"kind": "post", "cfg": rand_cfg(&mut rng, 2), "marks": marks, "n": rng.random_range(0..14), "L": rng.random_range(0..12),
                       "pfx": rng.random_range(0..3), "sfx": rng.random_range(0..3), "seed": rng.random::<u32>(), "item": item})
            }
        })
        .collect()
}
