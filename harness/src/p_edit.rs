//! C12: edit distance, normalised distance, prefix distance, operations().
use crate::common::*;
use rand::prelude::*;
use rand_chacha::ChaCha8Rng;
use serde_json::{json, Value};
use text_utils::edit::{distance, distances, operations, prefix_distance, EditOperation};

fn one(a0: &str, b0: &str, g: bool, swap: bool, sid: bool) -> Value {
    // both texts live in buffers that held other texts of the same byte length before (see refill_with)
    let (mut ba, mut bb) = (String::with_capacity(a0.len() + 8), String::with_capacity(b0.len() + 8));
    refill_with(&mut ba, a0, |d| { let _ = guard(|| distance(d, "x", g, swap, sid, false)); });
    refill_with(&mut bb, b0, |d| { let _ = guard(|| distance(d, "x", g, swap, sid, false)); });
    let (a, b) = (ba.as_str(), bb.as_str());
    let mut int = Interner::default();
    let va = view_iw(a, g, &mut int);
    let vb = view_iw(b, g, &mut int);
    let mut st = "ok".to_string();
    let mut fail = |what: &str, msg: String| {
        if st == "ok" {
            st = format!("panic:{what}:{msg}");
        }
    };
    let d = guard(|| distance(a, b, g, swap, sid, false)).unwrap_or_else(|m| {
        fail("distance", m);
        -1.0
    });
    let nd = guard(|| distance(a, b, g, swap, sid, true)).unwrap_or_else(|m| {
        fail("ndistance", m);
        -1.0
    });
    let pd = guard(|| prefix_distance(a, b, g, swap, sid, false)).unwrap_or_else(|m| {
        fail("prefix_distance", m);
        -1.0
    });
    let ops = guard(|| operations(a, b, g, swap, sid)).unwrap_or_else(|m| {
        fail("operations", m);
        vec![]
    });
    // the list variant must agree with the scalar one (same record, extra fields)
    let ds = guard(|| distances(&[a, b], &[b, a], g, swap, sid, false))
        .unwrap_or_else(|m| {
            fail("distances", m);
            Ok(vec![])
        })
        .unwrap_or_default();
    let ops: Vec<Value> = ops
        .into_iter()
        .map(|(k, i, j)| {
            let k = match k {
                EditOperation::Insert => "i",
                EditOperation::Delete => "d",
                EditOperation::Replace => "r",
                EditOperation::Swap => "s",
            };
            json!({"k": k, "i": i, "j": j})
        })
        .collect();
    let isint = |x: f64| x.is_finite() && x >= 0.0 && x.fract() == 0.0 && x < 1e6;
    json!({"st": st, "a": va, "b": vb, "g": g, "swap": swap, "sid": sid,
           "d": if isint(d) { d as i64 } else { -1 }, "nd": f6(nd),
           "pd": if isint(pd) { pd as i64 } else { -1 }, "ops": ops,
           "ds": ds.iter().map(|x| if isint(*x) { *x as i64 } else { -1 }).collect::<Vec<_>>(),
           "as": a, "bs": b})
}

/// cases: {"a":[slots],"b":[slots],"swap":..,"sid":..} -> one observation per alphabet x mode,
/// or {"as":..,"bs":..,"g":..,"swap":..,"sid":..} -> one observation.
pub fn exec(case: &Value) -> Vec<Value> {
    let swap = get_bool(case, "swap");
    let sid = get_bool(case, "sid");
    if case.get("as").is_some() {
        return vec![one(get_str(case, "as"), get_str(case, "bs"), get_bool(case, "g"), swap, sid)];
    }
    let mut out = vec![];
    for (alpha, g) in [("ascii", false), ("multi", true), ("cluster", true), ("cluster", false), ("share", true), ("ws2", true)] {
        let al = alphabet(alpha);
        let a = concretise(&case["a"], &al);
        let b = concretise(&case["b"], &al);
        out.push(one(&a, &b, g, swap, sid));
    }
    out
}

pub fn gen(seed: u64, n: usize) -> Vec<Value> {
    let mut rng = ChaCha8Rng::seed_from_u64(seed);
    let pools: Vec<Vec<&str>> = vec![
        vec![" ", "a", "b"],
        vec![" ", "a", "b", "c"],
        vec!["\u{00A0}", " ", "ä", "€", "😀"],
        vec!["\r\n", "e\u{0301}", "🇩🇪", "e", "\u{0301}", " "],
        vec!["\t", "x", "y", "\u{3000}", "字"],
        // pure ASCII with CR LF (one character in grapheme mode): byte-wise fast paths
        vec!["\r\n", "a", "b", " ", "\n", "\r"],
    ];
    let mut out = vec![];
    for i in 0..n {
        let pool = &pools[rng.random_range(0..pools.len())];
        // a few pairs have one long side: lengths and distances that do not fit into 8 bits (the other side is short, so
        // the table stays small; one pair in 8000 - thorough tier only - is long on both sides)
        // one pair per run: tens of thousands of characters against at most two (distances beyond 16 bits, a table of 3 columns)
        if i == 23 {
            let la = rng.random_range(66000..=70000);
            let a: String = (0..la).map(|k| if k % 977 == 0 { "b" } else { "a" }).collect();
            let b = ["", "a", "ba"][rng.random_range(0..3)];
            out.push(json!({"as": a, "bs": b, "g": rng.random_bool(0.5), "swap": rng.random_bool(0.5), "sid": false}));
            continue;
        }
        // two pairs per run: both texts beyond a thousand characters (more than 2^20 matrix cells) with a long common
        // beginning and a short, different end
        if i == 29 || i == 31 {
            let n = rng.random_range(1030..=1100);
            let tail = |rng: &mut ChaCha8Rng| -> String { (0..rng.random_range(0..=5)).map(|_| ["a", "b", " ", "ä"][rng.random_range(0..4)]).collect() };
            let (s, t) = if i == 29 { ("ab".to_string(), "ba".to_string()) } else { (tail(&mut rng), tail(&mut rng)) };
            out.push(json!({"as": format!("{}{}", "x".repeat(n), s), "bs": format!("{}{}", "x".repeat(n), t), "g": rng.random_bool(0.5),
                            "swap": i == 29 || rng.random_bool(0.5), "sid": false}));
            continue;
        }
        let long = i % 250 == 17 || i % 8000 == 2017;
        if long {
            let la = rng.random_range(257..=300);
            let a: Vec<&str> = (0..la).map(|_| pool[rng.random_range(0..pool.len())]).collect();
            let b: Vec<&str> = if i % 8000 == 2017 {
                let mut b = a.clone();
                for _ in 0..rng.random_range(30..=60) {
                    let p = rng.random_range(0..b.len() - 1);
                    match rng.random_range(0..4) {
                        0 => b.insert(p, pool[rng.random_range(0..pool.len())]),
                        1 => { b.remove(p); }
                        2 => b[p] = pool[rng.random_range(0..pool.len())],
                        _ => b.swap(p, p + 1),
                    }
                }
                b
            } else {
                (0..rng.random_range(0..=8)).map(|_| pool[rng.random_range(0..pool.len())]).collect()
            };
            let (a, b) = if rng.random_bool(0.5) { (a, b) } else { (b, a) };
            out.push(json!({"as": a.concat(), "bs": b.concat(), "g": rng.random_bool(0.5), "swap": rng.random_bool(0.5), "sid": false}));
            continue;
        }
        let la = rng.random_range(0..=14);
        let a: Vec<&str> = (0..la).map(|_| pool[rng.random_range(0..pool.len())]).collect();
        // b: either independent or a mutated copy of a (dense matches, transpositions)
        let b: Vec<&str> = if rng.random_bool(0.3) {
            let lb = rng.random_range(0..=14);
            (0..lb).map(|_| pool[rng.random_range(0..pool.len())]).collect()
        } else {
            let mut b = a.clone();
            for _ in 0..rng.random_range(0..=4) {
                let kind = rng.random_range(0..4);
                if kind == 0 || b.is_empty() {
                    let p = rng.random_range(0..=b.len());
                    b.insert(p, pool[rng.random_range(0..pool.len())]);
                } else if kind == 1 {
                    let p = rng.random_range(0..b.len());
                    b.remove(p);
                } else if kind == 2 {
                    let p = rng.random_range(0..b.len());
                    b[p] = pool[rng.random_range(0..pool.len())];
                } else if b.len() >= 2 {
                    let p = rng.random_range(0..b.len() - 1);
                    b.swap(p, p + 1);
                }
            }
            b
        };
        out.push(json!({"as": a.concat(), "bs": b.concat(), "g": rng.random_bool(0.5),
                        "swap": rng.random_bool(0.5), "sid": rng.random_bool(0.5)}));
    }
    out
}
