//! C15: edit_word with the real context-table providers (InsertEdits / ReplaceEdits),
//! DeleteEdits / SwapEdits with harness predicates, chains of edits, direct provider calls.
use crate::common::*;
use rand::prelude::*;
use rand_chacha::ChaCha8Rng;
use serde_json::{json, Value};
use std::borrow::Cow;
use std::collections::{HashMap, HashSet};
use text_utils::corrupt::{edit_word, DeleteEdits, GetEdits, InsertEdits, ReplaceEdits, SwapEdits};
use text_utils::unicode::CharString as CS;

const BOW: u64 = 9001;
const EOW: u64 = 9002;

fn symtab(alpha: &str) -> Vec<&'static str> {
    match alpha {
        // multi-byte letters and grapheme clusters (use with graphemes = true)
        // (the last symbol is one cluster of 261 bytes: a length that does not fit into a byte)
        "cluster" => vec!["ä", "e\u{0301}", "🇩🇪", "字", "q", "r", "ß", "o\u{0308}", "😀", giant_cluster()],
        // pure ASCII with CR LF as one character (use with graphemes = true): byte-wise fast paths
        "crlf" => vec!["a", "\r\n", "c", "b", "x", "y", "z", "u", "v", "w"],
        _ => vec!["a", "b", "c", "d", "x", "y", "z", "u", "v", "w"],
    }
}

fn sym(tab: &[&'static str], id: u64) -> String {
    if id == BOW {
        "<bow>".to_string()
    } else if id == EOW {
        "<eow>".to_string()
    } else {
        tab[(id as usize - 1) % tab.len()].to_string()
    }
}

fn word_of(tab: &[&'static str], ids: &Value) -> String {
    ids.as_array().unwrap().iter().map(|x| sym(tab, x.as_u64().unwrap())).collect()
}

fn ids_of(tab: &[&'static str], s: &str, g: bool) -> Vec<i64> {
    clusters(s, g).into_iter().map(|c| tab.iter().position(|t| *t == c).map(|p| p as i64 + 1).unwrap_or(0)).collect()
}

fn edits_of(tab: &[&'static str], e: &Value) -> (Vec<String>, Vec<f64>) {
    let edits: Vec<String> = e.as_array().unwrap().iter().map(|w| word_of(tab, w)).collect();
    let n = edits.len();
    (edits, (0..n).map(|k| 1.0 + k as f64).collect())
}

/// kind "spell": the chain of edits as the library runs it - `SpellingCorruption` in artificial mode without a character
/// file (deletions and swaps of letters only) on a one-word text; `pone`: character edit probability 1 (as many edits as
/// the word has characters), otherwise 0.5 (one edit up to that many)
fn exec_spell(case: &Value) -> Vec<Value> {
    use text_utils::data::preprocessing::{preprocessing, Part, PreprocessingFnConfig, SpellingCorruptionMode};
    use text_utils::data::{TextDataInfo, TrainData};
    let tab = symtab(get_str(case, "alpha"));
    // `ws`: several words (then without full deletion, so that every word is still there afterwards); else one word `w`
    let words: Vec<String> = match case.get("ws").and_then(|x| x.as_array()) {
        Some(a) => a.iter().map(|w| word_of(&tab, w)).collect(),
        None => vec![word_of(&tab, &case["w"])],
    };
    let word = words.join(" ");
    let pone = get_bool(case, "pone");
    let full = get_bool(case, "full");
    let seed = case.get("seed").and_then(|x| x.as_u64()).unwrap_or(0);
    let r = guard(|| {
        let f = preprocessing(PreprocessingFnConfig::SpellingCorruption(Part::Input, 1.0, full,
            SpellingCorruptionMode::Artificial(if pone { 1.0 } else { 0.5 }, 1.0, None)));
        f(TrainData::new(word.clone(), None), TextDataInfo { seed, ..Default::default() }).map(|(d, _)| d.verif_input().to_string())
    });
    let (st, out) = match r {
        Ok(Ok(o)) => ("ok".to_string(), o),
        Ok(Err(e)) => (format!("err:spelling:{e}"), String::new()),
        Err(m) => (format!("panic:spelling:{m}"), String::new()),
    };
    if words.len() > 1 {
        let outs: Vec<Vec<i64>> = out.split(' ').map(|w| ids_of(&tab, w, true)).collect();
        return vec![json!({"st": st, "kind": "spell", "ws": words.iter().map(|w| ids_of(&tab, w, true)).collect::<Vec<_>>(), "outs": outs, "pone": pone, "full": full,
                           "w": [], "out": [], "tb": {"ins": [], "rep": []}, "seed": seed, "case": case})];
    }
    vec![json!({"st": st, "kind": "spell", "w": ids_of(&tab, &word, true), "out": ids_of(&tab, &out, true), "pone": pone, "full": full, "ws": [], "outs": [],
                "tb": {"ins": [], "rep": []}, "seed": seed, "case": case})]
}

pub fn exec(case: &Value) -> Vec<Value> {
    if get_str(case, "kind") == "spell" {
        return exec_spell(case);
    }
    let alpha = get_str(case, "alpha");
    let tab = symtab(alpha);
    let g = get_bool(case, "g");
    let tb = &case["tb"];
    let insertions: HashMap<(Cow<str>, Cow<str>), (Vec<String>, Vec<f64>)> = tb["ins"].as_array().unwrap().iter()
        .map(|t| ((Cow::Owned(sym(&tab, t["p"].as_u64().unwrap())), Cow::Owned(sym(&tab, t["s"].as_u64().unwrap()))), edits_of(&tab, &t["e"])))
        .collect();
    let replacements: HashMap<(Cow<str>, Cow<str>, Cow<str>), (Vec<String>, Vec<f64>)> = tb["rep"].as_array().unwrap().iter()
        .map(|t| ((Cow::Owned(sym(&tab, t["p"].as_u64().unwrap())), Cow::Owned(sym(&tab, t["s"].as_u64().unwrap())),
                   Cow::Owned(sym(&tab, t["n"].as_u64().unwrap()))), edits_of(&tab, &t["e"])))
        .collect();
    let insert = InsertEdits { insertions };
    let replace = ReplaceEdits { replacements };
    let del: HashSet<String> = tb["del"].as_array().unwrap().iter().map(|x| sym(&tab, x.as_u64().unwrap())).collect();
    let swp: HashSet<String> = tb["swp"].as_array().unwrap().iter().map(|x| sym(&tab, x.as_u64().unwrap())).collect();
    let delete = DeleteEdits { full_delete: get_bool(tb, "fullDelete"), can_delete: move |s: &str| del.contains(s) };
    let swap = SwapEdits { can_swap: move |a: &str, b: &str| swp.contains(a) && swp.contains(b) };
    let kinds: Vec<String> = case["kinds"].as_array().unwrap().iter().map(|x| x.as_str().unwrap().to_string()).collect();
    let has = |k: &str| kinds.iter().any(|x| x == k);
    let word0 = word_of(&tab, &case["w"]);
    let excl0: HashSet<usize> = case["excl"].as_array().unwrap().iter().map(|x| x.as_u64().unwrap() as usize).collect();
    let chain = get_u(case, "chain").max(1);
    let mut out = vec![];
    let seeds: Vec<u64> = case["seeds"].as_array().map(|a| a.iter().map(|x| x.as_u64().unwrap()).collect()).unwrap_or(vec![0]);
    for seed in seeds {
        let mut rng = ChaCha8Rng::seed_from_u64(seed);
        let mut word = word0.clone();
        let mut excl = excl0.clone();
        for step in 0..chain {
            let before_ids = ids_of(&tab, &word, g);
            let mut before_excl: Vec<usize> = excl.iter().copied().collect();
            before_excl.sort();
            let r = guard(|| {
                edit_word(&word, g, &mut rng,
                    if has("i") { Some(&insert) } else { None },
                    if has("d") { Some(&delete) } else { None },
                    if has("r") { Some(&replace) } else { None },
                    if has("s") { Some(&swap) } else { None },
                    Some(excl.clone()))
            });
            match r {
                Ok((w2, e2)) => {
                    let mut e2v: Vec<usize> = e2.iter().copied().collect();
                    e2v.sort();
                    out.push(json!({"st": "ok", "kind": "edit", "w": before_ids, "excl": before_excl, "kinds": kinds, "tb": tb,
                                    "w2": ids_of(&tab, &w2, g), "excl2": e2v, "seed": seed, "step": step, "g": g, "alpha": alpha,
                                    "ws": word, "w2s": w2, "case": case}));
                    word = w2;
                    excl = e2;
                }
                Err(m) => {
                    out.push(json!({"st": format!("panic:edit_word:{m}"), "kind": "edit", "w": before_ids, "excl": before_excl,
                                    "kinds": kinds, "tb": tb, "w2": [], "excl2": [], "seed": seed, "step": step, "g": g,
                                    "alpha": alpha, "ws": word, "w2s": "", "case": case}));
                    break;
                }
            }
        }
    }
    // the providers at word start / end: index 0, last, len, beyond
    if get_bool(case, "providers") && !word0.is_empty() {
        let cs = CS::new(&word0, g);
        let n = cs.len();
        for idx in [0usize, n.saturating_sub(1), n, n + 2] {
            for which in ["i", "r"] {
                let r = guard(|| {
                    if which == "i" { insert.get_edits(&cs, &idx).map(|e| e.0.clone()) } else { replace.get_edits(&cs, &idx).map(|e| e.0.clone()) }
                });
                let (st, got, some) = match r {
                    Ok(Some(e)) => ("ok".to_string(), e.iter().map(|s| json!(ids_of(&tab, s, g))).collect::<Vec<_>>(), true),
                    Ok(None) => ("ok".to_string(), vec![], false),
                    Err(m) => (format!("panic:get_edits:{m}"), vec![], false),
                };
                out.push(json!({"st": st, "kind": "provider", "which": which, "idx": idx, "w": ids_of(&tab, &word0, g), "tb": tb,
                                "some": some, "got": got, "g": g, "alpha": alpha, "case": case}));
            }
        }
    }
    out
}

pub fn gen(seed: u64, n: usize) -> Vec<Value> {
    let mut rng = ChaCha8Rng::seed_from_u64(seed);
    (0..n)
        .map(|i| {
            if i % 15 == 9 {
                // several words in one text: every word starts its chain with nothing protected
                let ws: Vec<Vec<u64>> = (0..rng.random_range(2..=4)).map(|_| (0..rng.random_range(1..=4)).map(|_| rng.random_range(1..=3)).collect()).collect();
                return json!({"kind": "spell", "ws": ws, "alpha": "ascii", "del": [1, 2, 3], "pone": rng.random_bool(0.5), "full": false, "seed": rng.random::<u32>()});
            }
            if i % 5 == 4 {
                // the library's own chain: a word of 1-6 letters with repeats
                let w: Vec<u64> = (0..rng.random_range(1..=6)).map(|_| rng.random_range(1..=3)).collect();
                return json!({"kind": "spell", "w": w, "alpha": "ascii", "del": [1, 2, 3], "pone": rng.random_bool(0.5), "full": rng.random_bool(0.5),
                              "seed": rng.random::<u32>()});
            }
            let len = rng.random_range(0..=7usize);
            let mut syms: Vec<u64> = (1..=10).collect();
            syms.shuffle(&mut rng);
            let w: Vec<u64> = syms[..len].to_vec();
            let excl: Vec<usize> = (0..len).filter(|_| rng.random_bool(0.3)).collect();
            let kinds: Vec<&str> = ["i", "d", "r", "s"].iter().copied().filter(|_| rng.random_bool(0.6)).collect();
            let ctx = |rng: &mut ChaCha8Rng, lo: bool| -> u64 { if rng.random_bool(0.2) { if lo { BOW } else { EOW } } else { rng.random_range(1..=10) } };
            let edit = |rng: &mut ChaCha8Rng| -> Vec<Vec<u64>> {
                (0..rng.random_range(1..=3)).map(|_| (0..rng.random_range(0..=3)).map(|_| rng.random_range(1..=10)).collect()).collect()
            };
            let ins: Vec<Value> = (0..rng.random_range(0..=14)).map(|_| json!({"p": ctx(&mut rng, true), "s": ctx(&mut rng, false), "e": edit(&mut rng)})).collect();
            let rep: Vec<Value> = (0..rng.random_range(0..=14)).map(|_| json!({"p": ctx(&mut rng, true), "s": rng.random_range(1..=10), "n": ctx(&mut rng, false), "e": edit(&mut rng)})).collect();
            // one list per context (the providers keep a hash map keyed by context)
            let mut seen = HashSet::new();
            let ins: Vec<Value> = ins.into_iter().filter(|t| seen.insert((t["p"].as_u64(), t["s"].as_u64()))).collect();
            let mut seen = HashSet::new();
            let rep: Vec<Value> = rep.into_iter().filter(|t| seen.insert((t["p"].as_u64(), t["s"].as_u64(), t["n"].as_u64()))).collect();
            let del: Vec<u64> = (1..=10).filter(|_| rng.random_bool(0.7)).collect();
            let swp: Vec<u64> = (1..=10).filter(|_| rng.random_bool(0.7)).collect();
            let cluster = rng.random_bool(0.5);
            json!({"w": w, "excl": excl, "kinds": kinds, "chain": rng.random_range(1..=5), "seeds": [rng.random::<u32>(), rng.random::<u32>()],
                   "g": cluster || rng.random_bool(0.5), "alpha": if cluster { "cluster" } else { "ascii" }, "providers": true,
                   "tb": {"ins": ins, "rep": rep, "del": del, "swp": swp, "fullDelete": rng.random_bool(0.5)}})
        })
        .collect()
}
