//! Extension X02: the preprocessing pipeline (`data::preprocessing::preprocessing`) with the chain / switch
//! combinators, the whitespace functions, overwrite, mark, prefix / suffix and the substring functions.
use crate::common::*;
use crate::p_ws::Cp;
use rand::prelude::*;
use rand_chacha::ChaCha8Rng;
use serde_json::{json, Value};
use text_utils::data::preprocessing::{preprocessing, Part, PreprocessingFnConfig};
use text_utils::data::{TextDataInfo, TrainData};

fn part(v: &Value) -> Part {
    if get_str(v, "part") == "t" { Part::Target } else { Part::Input }
}

fn txt(v: &Value, al: &[&str]) -> String {
    match &v["txt"] {
        Value::String(s) => s.clone(),
        slots => concretise(slots, al),
    }
}

fn to_cfg(v: &Value, g: bool, al: &[&str]) -> PreprocessingFnConfig {
    let kids = |v: &Value| -> Vec<PreprocessingFnConfig> { v["kids"].as_array().map(|a| a.iter().map(|k| to_cfg(k, g, al)).collect()).unwrap_or_default() };
    match get_str(v, "op") {
        "clean" => PreprocessingFnConfig::Clean(part(v), g),
        "nows" => PreprocessingFnConfig::NoWhitespaces(part(v), g),
        "fullws" => PreprocessingFnConfig::FullWhitespaces(part(v), g),
        "over" => PreprocessingFnConfig::Overwrite(part(v)),
        "mark" => PreprocessingFnConfig::Mark(get_str(v, "key").to_string(), get_str(v, "val").to_string()),
        "pre" => PreprocessingFnConfig::Prefix(part(v), txt(v, al)),
        "suf" => PreprocessingFnConfig::Suffix(part(v), txt(v, al)),
        "csub" => PreprocessingFnConfig::CharSubstring(get_u(v, "max"), g),
        "bsub" => PreprocessingFnConfig::ByteSubstring(get_u(v, "max"), g),
        "chain" => PreprocessingFnConfig::Chain(kids(v)),
        "switch" => {
            let cum: Vec<f64> = v["cum"].as_array().unwrap().iter().map(|x| x.as_f64().unwrap() / 1e6).collect();
            let probs: Vec<f64> = cum.iter().enumerate().map(|(k, c)| if k == 0 { *c } else { c - cum[k - 1] }).collect();
            PreprocessingFnConfig::Switch(kids(v), probs)
        }
        _ => PreprocessingFnConfig::None,
    }
}

/// the configuration as the trace specification reads it: txt fields as character views
fn cfg_view(v: &Value, g: bool, al: &[&str], cp: &mut Cp) -> Value {
    let mut o = v.clone();
    if v.get("txt").is_some() {
        o["txt"] = cp.view(&txt(v, al), g);
    }
    if let Some(k) = v.get("kids").and_then(|x| x.as_array()) {
        o["kids"] = Value::Array(k.iter().map(|c| cfg_view(c, g, al, cp)).collect());
    }
    o
}

fn near(v: &Value, r: f64) -> bool {
    let own = v.get("cum").and_then(|x| x.as_array()).map(|a| a.iter().any(|c| (c.as_f64().unwrap() / 1e6 - r).abs() < 2e-6)).unwrap_or(false);
    own || v.get("kids").and_then(|x| x.as_array()).map(|a| a.iter().any(|k| near(k, r))).unwrap_or(false)
}

pub fn exec(case: &Value) -> Vec<Value> {
    let al = alphabet(if get_str(case, "alpha").is_empty() { "cleanpair" } else { get_str(case, "alpha") });
    let g = get_bool(case, "g");
    let seed = case.get("seed").and_then(|x| x.as_u64()).unwrap_or(0);
    let text = |key: &str, slots: &str| -> String {
        case.get(key).and_then(|x| x.as_str()).map(|s| s.to_string()).unwrap_or_else(|| concretise(&case[slots], &al))
    };
    let (i0, t0) = (text("i", "islots"), text("t", "tslots"));
    let mut cp = Cp::new();
    let (iv, tv) = (cp.view(&i0, g), cp.view(&t0, g));
    let cfgv = cfg_view(&case["cfg"], g, &al, &mut cp);
    let r: f64 = ChaCha8Rng::seed_from_u64(seed).random();
    let mut st = "ok".to_string();
    let mut run = || -> Value {
        let f = match guard(|| preprocessing(to_cfg(&case["cfg"], g, &al))) {
            Ok(f) => f,
            Err(m) => {
                st = format!("panic:build:{m}");
                return json!({"i": [], "t": [], "marks": [], "err": true, "how": "build"});
            }
        };
        let info = TextDataInfo { seed, ..Default::default() };
        match guard(|| f(TrainData::new(i0.clone(), Some(t0.clone())), info)) {
            Ok(Ok((d, info))) => {
                let mut marks: Vec<(String, String)> = info.marks.into_iter().collect();
                marks.sort();
                json!({"i": d.verif_input(), "t": d.verif_target(), "marks": marks.iter().map(|(k, v)| json!([k, v])).collect::<Vec<_>>(), "err": false, "how": ""})
            }
            Ok(Err(_)) => json!({"i": "", "t": "", "marks": [], "err": true, "how": "err"}),
            // the two documented panics of the substring functions (max_chars = 0, no window within the byte budget)
            Err(m) if m.contains("empty range") || m.contains("start < end") => json!({"i": "", "t": "", "marks": [], "err": true, "how": "panic"}),
            Err(m) => {
                st = format!("panic:preprocessing:{m}");
                json!({"i": "", "t": "", "marks": [], "err": true, "how": "panic"})
            }
        }
    };
    let o1 = run();
    let o2 = run();
    let again = o1 == o2;
    let mut out = o1;
    let (oi, ot) = (out["i"].as_str().unwrap_or("").to_string(), out["t"].as_str().unwrap_or("").to_string());
    out["i"] = json!(cp.cps(&oi));
    out["t"] = json!(cp.cps(&ot));
    // ids of the whitespace code points seen (U+0020 is id 1)
    let mut wsids = vec![1i64];
    for s in [&i0, &t0, &oi, &ot] {
        for c in s.chars().filter(|c| c.is_whitespace()) {
            let id = cp.id(c);
            if !wsids.contains(&id) {
                wsids.push(id);
            }
        }
    }
    vec![json!({"st": st, "cfg": cfgv, "g": g, "seed": seed, "i": i0, "t": t0, "iv": iv, "tv": tv, "r": (r * 1e6).round() as i64,
                "near": near(&case["cfg"], r), "out": out, "outs": [oi, ot], "again": again, "wsids": wsids, "case": case})]
}

fn rand_text(rng: &mut ChaCha8Rng, maxlen: usize) -> Vec<&'static str> {
    let pool = ["a", "b", "ä", "e\u{0301}", "€", "😀", "x", "-"];
    (0..rng.random_range(0..=maxlen)).map(|_| pool[rng.random_range(0..pool.len())]).collect()
}

fn respace(rng: &mut ChaCha8Rng, content: &[&str]) -> String {
    let ws = [" ", " ", "  ", "\t", "\u{00A0}", "\n"];
    let mut s = String::new();
    if rng.random_bool(0.15) { s.push_str(ws[rng.random_range(0..ws.len())]); }
    for (k, c) in content.iter().enumerate() {
        if k > 0 && rng.random_bool(0.4) { s.push_str(ws[rng.random_range(0..ws.len())]); }
        s.push_str(c);
    }
    if rng.random_bool(0.15) { s.push_str(ws[rng.random_range(0..ws.len())]); }
    s
}

fn rand_cfg(rng: &mut ChaCha8Rng, depth: usize) -> Value {
    let p = if rng.random_bool(0.5) { "i" } else { "t" };
    let k = rng.random_range(0..if depth == 0 { 10 } else { 13 });
    match k {
        0 => json!({"op": "none"}),
        1 => json!({"op": "clean", "part": p}),
        2 => json!({"op": "nows", "part": p}),
        3 => json!({"op": "fullws", "part": p}),
        4 => json!({"op": "over", "part": p}),
        5 => {
            let (key, val) = (["k", "l"][rng.random_range(0..2)], ["x", "y"][rng.random_range(0..2)]);
            json!({"op": "mark", "key": key, "val": val})
        }
        6 => {
            let t = ["ab ", "x", " "][rng.random_range(0..3)];
            json!({"op": "pre", "part": p, "txt": t})
        }
        7 => {
            let t = [" ä", "b", "  "][rng.random_range(0..3)];
            json!({"op": "suf", "part": p, "txt": t})
        }
        8 => json!({"op": "csub", "max": rng.random_range(1..6)}),
        9 => json!({"op": "bsub", "max": rng.random_range(1..9)}),
        10 | 11 => json!({"op": "chain", "kids": (0..rng.random_range(0..4)).map(|_| rand_cfg(rng, depth - 1)).collect::<Vec<_>>()}),
        _ => {
            let n = rng.random_range(1..4usize);
            let mut cum: Vec<i64> = (0..n - 1).map(|_| rng.random_range(1..4) * 250000).collect();
            cum.sort();
            cum.push(1000000);
            json!({"op": "switch", "kids": (0..n).map(|_| rand_cfg(rng, depth - 1)).collect::<Vec<_>>(), "cum": cum})
        }
    }
}

pub fn gen(seed: u64, n: usize) -> Vec<Value> {
    let mut rng = ChaCha8Rng::seed_from_u64(seed);
    (0..n)
        .map(|_| {
            let content = rand_text(&mut rng, 8);
            let i = respace(&mut rng, &content);
            let t = if rng.random_bool(0.8) { respace(&mut rng, &content) } else { let c2 = rand_text(&mut rng, 8); respace(&mut rng, &c2) };
            json!({"cfg": rand_cfg(&mut rng, 2), "i": i, "t": t, "g": rng.random_bool(0.5), "seed": rng.random::<u32>()})
        })
        .collect()
}
