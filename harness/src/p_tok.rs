//! C01 / C02 / C03 / C04 / C17: byte, char and BPE tokenizers.
//! One case = one tokenizer configuration + a list of texts; one observation
//! record per case.  The record carries the *view* of the configuration
//! (special tokens as names / code-point ids / bytes) and of every text (code
//! points with identity, bytes, whitespace flag, grapheme-cluster starts), and
//! everything the real tokenizer answered.
use crate::common::*;
use rand::prelude::*;
use rand_chacha::ChaCha8Rng;
use serde_json::{json, Value};
use std::collections::HashMap;
use text_utils::tokenization::{
    BPETokenizer, BPETokenizerConfig, ByteGroups, ByteTokenizer, ByteTokenizerConfig, CharTokenizer,
    CharTokenizerConfig, GroupAggregation, MergeOps, SpecialConfig, TokenGroup, TokenizationInfo, Tokenize,
};
use text_utils::utils::SerializeMsgPack;
use unicode_segmentation::UnicodeSegmentation;

/// The documented alphabet of the character tokenizer (view of a constant).
const CHARS: &str = "abcdefghijklmnopqrstuvwxyzABCDEFGHIJKLMNOPQRSTUVWXYZ0123456789\"\"!\"#$%&\'()*+,-./:;<=>?@[\\]^_`{|}~\"\" ";

fn chars_dedup() -> Vec<char> {
    let mut v = vec![];
    for c in CHARS.chars() {
        if !v.contains(&c) {
            v.push(c);
        }
    }
    v
}

fn bytes_json(b: &[u8]) -> Value {
    Value::Array(b.iter().map(|x| json!(*x)).collect())
}

struct CpInt {
    map: HashMap<char, i64>,
}
impl CpInt {
    fn id(&mut self, c: char) -> i64 {
        let n = self.map.len() as i64 + 1;
        *self.map.entry(c).or_insert(n)
    }
}

/// name / code-point ids / bytes of a token spelling
fn tokview(s: &str, int: &mut CpInt) -> Value {
    json!({"n": s, "cps": s.chars().map(|c| int.id(c)).collect::<Vec<_>>(), "b": bytes_json(s.as_bytes())})
}

/// code-point view of a text: identity, bytes, whitespace, cluster start (whole-string
/// segmentation), index in the character tokenizer's alphabet (0 = not in it)
fn textview(s: &str, int: &mut CpInt, alpha: &[char]) -> Value {
    let mut starts = vec![false; s.len() + 1];
    for (i, _) in s.grapheme_indices(true) {
        starts[i] = true;
    }
    Value::Array(
        s.char_indices()
            .map(|(i, c)| {
                let mut buf = [0u8; 4];
                let b = c.encode_utf8(&mut buf).as_bytes().to_vec();
                let ci = alpha.iter().position(|a| *a == c).map(|p| p + 1).unwrap_or(0);
                json!({"i": int.id(c), "b": bytes_json(&b), "w": c.is_whitespace(), "g": starts[i], "ci": ci})
            })
            .collect(),
    )
}

fn groups_json(g: &TokenGroup) -> Value {
    match g {
        TokenGroup::Empty(n) => json!({"t": "e", "n": n, "s": []}),
        TokenGroup::Full(n) => json!({"t": "f", "n": n, "s": []}),
        TokenGroup::Nested(v) => json!({"t": "n", "n": 0, "s": v.iter().map(groups_json).collect::<Vec<_>>()}),
    }
}

const NONE: i64 = 999;

fn run_texts(tok: &dyn Tokenize, texts: &[String], int: &mut CpInt, alpha: &[char], st: &mut String) -> Vec<Value> {
    let mut out = vec![];
    for s in texts {
        let mut fail = |what: &str, m: String| {
            if st == "ok" {
                *st = format!("{what}:{m}");
            }
        };
        let mut ids_of = |ign: bool, fail: &mut dyn FnMut(&str, String)| -> (Vec<u32>, Value) {
            match guard(|| tok.tokenize(s, ign)) {
                Ok(Ok(t)) => {
                    let g = match &t.info {
                        TokenizationInfo::TokenGroups(m) => {
                            let mut v: Vec<_> = m.iter().collect();
                            v.sort_by(|a, b| a.0.cmp(b.0));
                            Value::Array(
                                v.into_iter()
                                    .map(|(name, (groups, agg))| {
                                        json!({"name": name, "agg": if *agg == GroupAggregation::Mean { "mean" } else { "sum" },
                                               "groups": groups.iter().map(groups_json).collect::<Vec<_>>()})
                                    })
                                    .collect(),
                            )
                        }
                        _ => json!([]),
                    };
                    (t.token_ids, g)
                }
                Ok(Err(e)) => {
                    fail("err:tokenize", e.to_string());
                    (vec![], json!([]))
                }
                Err(m) => {
                    fail("panic:tokenize", m);
                    (vec![], json!([]))
                }
            }
        };
        let (ids_sp, groups_sp) = ids_of(false, &mut fail);
        let (ids_ig, groups_ig) = ids_of(true, &mut fail);
        let mut dec = |ids: &[u32], ign: bool, fail: &mut dyn FnMut(&str, String)| -> Value {
            match guard(|| tok.de_tokenize(ids, ign)) {
                Ok(Ok(s)) => bytes_json(s.as_bytes()),
                Ok(Err(_)) => json!([NONE]),
                Err(m) => {
                    fail("panic:de_tokenize", m);
                    json!([NONE])
                }
            }
        };
        // two decodes that fail (an id outside the vocabulary, a truncated UTF-8 sequence) on this thread first: whatever
        // they leave behind must not show in the decodes that follow
        let _ = guard(|| tok.de_tokenize(&[97, 98, 4_000_000_000], false).is_ok());
        let _ = guard(|| tok.de_tokenize(&[0xE2, 0x82], false).is_ok());
        let dec_keep = dec(&ids_sp, false, &mut fail);
        let dec_drop = dec(&ids_sp, true, &mut fail);
        let dec_ig = dec(&ids_ig, true, &mut fail);
        // body only (without prefix / suffix ids), special tokens kept
        let np = tok.num_prefix_tokens();
        let ns = tok.num_suffix_tokens();
        let body: Vec<u32> = if ids_sp.len() >= np + ns { ids_sp[np..ids_sp.len() - ns].to_vec() } else { vec![] };
        let dec_body = dec(&body, false, &mut fail);
        out.push(json!({"s": s, "v": textview(s, int, alpha), "ids": ids_sp, "ids_ig": ids_ig,
                        "dec_keep": dec_keep, "dec_drop": dec_drop, "dec_ig": dec_ig, "dec_body": dec_body,
                        "groups": groups_sp, "groups_ig": groups_ig}));
    }
    out
}

fn special_of(case: &Value) -> SpecialConfig {
    let sp = &case["special"];
    let strs = |k: &str| -> Vec<String> {
        sp[k].as_array().map(|a| a.iter().map(|x| x.as_str().unwrap().to_string()).collect()).unwrap_or_default()
    };
    SpecialConfig { pad: sp["pad"].as_str().unwrap_or("<pad>").to_string(), tokens: strs("tokens"), prefix: strs("prefix"), suffix: strs("suffix") }
}

/// Very long inputs (kind "long"): a text of `repeat` copies of `pattern` (more than 65 535 bytes without whitespace, or
/// with it) through the byte tokenizer and a BPE tokenizer with the given table.  The record only carries what a linear
/// check needs: the text bytes, the ids and the decoded bytes.
fn exec_long(case: &Value) -> Vec<Value> {
    let text: String = get_str(case, "pattern").repeat(get_u(case, "repeat"));
    let special = SpecialConfig { pad: "<pad>".into(), tokens: vec!["<pad>".into(), "<b>".into()], prefix: vec![], suffix: vec![] };
    let tab: Vec<Vec<u8>> = case["tab"].as_array().map(|a| a.iter().map(|e| e.as_str().unwrap().as_bytes().to_vec()).collect()).unwrap_or_default();
    let mut out = vec![];
    for which in ["bpe", "byte"] {
        let tmp = std::env::temp_dir().join(format!("tuverif-long-{}-{:?}.bin", std::process::id(), std::thread::current().id()));
        let built: Result<anyhow::Result<Box<dyn Tokenize>>, String> = if which == "bpe" {
            let ops: MergeOps = tab.iter().cloned().zip(0..tab.len() as u32).collect();
            ops.save(&tmp).expect("cannot write merge file");
            let cfg = BPETokenizerConfig { merge_file: tmp.clone(), max_vocab_size: None, use_graphemes: true };
            guard(|| BPETokenizer::new(cfg, special.clone()).map(|t| Box::new(t) as Box<dyn Tokenize>))
        } else {
            let cfg = ByteTokenizerConfig { use_graphemes: true, pad_to_multiple_of: None, groups: ByteGroups::Bytes, aggregation: GroupAggregation::Mean };
            guard(|| ByteTokenizer::new(cfg, special.clone()).map(|t| Box::new(t) as Box<dyn Tokenize>))
        };
        let _ = std::fs::remove_file(&tmp);
        let mut st = "ok".to_string();
        // number of token groups and sum of their lengths (byte tokenizer, grapheme mode): one group per character
        let mut ngroups: i64 = -1;
        let mut gsum: i64 = -1;
        fn glen(g: &TokenGroup) -> usize { match g { TokenGroup::Empty(n) | TokenGroup::Full(n) => *n, TokenGroup::Nested(v) => v.iter().map(glen).sum() } }
        let (ids, dec, vs) = match built {
            Ok(Ok(tok)) => {
                let ids = match guard(|| tok.tokenize(&text, true)) {
                    Ok(Ok(t)) => {
                        if let TokenizationInfo::TokenGroups(m) = &t.info {
                            if let Some(g) = m.values().next() {
                                ngroups = g.0.len() as i64;
                                gsum = g.0.iter().map(glen).sum::<usize>() as i64;
                            }
                        }
                        t.token_ids
                    }
                    Ok(Err(e)) => { st = format!("err:tokenize:{e}"); vec![] }
                    Err(m) => { st = format!("panic:tokenize:{m}"); vec![] }
                };
                let dec = match guard(|| tok.de_tokenize(&ids, true)) {
                    Ok(Ok(d)) => d.into_bytes(),
                    Ok(Err(e)) => { if st == "ok" { st = format!("err:de_tokenize:{e}"); } vec![] }
                    Err(m) => { if st == "ok" { st = format!("panic:de_tokenize:{m}"); } vec![] }
                };
                (ids, dec, tok.vocab_size())
            }
            Ok(Err(e)) => { st = format!("err:new:{e}"); (vec![], vec![], 0) }
            Err(m) => { st = format!("panic:new:{m}"); (vec![], vec![], 0) }
        };
        out.push(json!({"st": st, "kind": "long", "which": which, "text": text.as_bytes(), "ids": ids, "dec": dec, "vs": vs,
                        "ngroups": ngroups, "gsum": gsum, "nchars": clusters(&text, true).len(),
                        "tab": tab.iter().map(|e| bytes_json(e)).collect::<Vec<_>>(), "case": case}));
    }
    out
}

pub fn exec(case: &Value) -> Vec<Value> {
    if get_str(case, "kind") == "long" {
        return exec_long(case);
    }
    let kind = get_str(case, "kind").to_string();
    let special = special_of(case);
    let mut int = CpInt { map: HashMap::new() };
    // the character tokenizer's vocabulary: the caller's own characters (`vocab`), or the built-in alphabet
    let own: Vec<char> = get_str(case, "vocab").chars().fold(vec![], |mut v, c| { if !v.contains(&c) { v.push(c); } v });
    let alpha = if kind == "char" && !own.is_empty() { own.clone() } else { chars_dedup() };
    let g = get_bool(case, "g");
    // texts: given directly, or as slot sequences enumerated by TLC (Gen_Tok)
    let mut texts: Vec<String> = case["texts"].as_array().map(|a| a.iter().map(|x| x.as_str().unwrap().to_string()).collect()).unwrap_or_default();
    if let Some(sl) = case.get("slots").and_then(|x| x.as_array()) {
        let al = alphabet("tok");
        texts.extend(sl.iter().map(|t| concretise(t, &al)));
    }
    // BPE: byte slots (0 = whitespace); only byte sequences that are valid UTF-8 are texts
    let bpe_bytes: Vec<u8> = match get_str(case, "balpha") {
        "umlaut" => vec![b' ', 0xC3, 0xA4, b'a'],
        "xy" => vec![b'\t', b'x', b'y', b'z'],
        "abcde" => vec![b' ', b'a', b'b', b'c', b'd', b'e'],
        _ => vec![b' ', b'a', b'b', b'c'],
    };
    if let Some(sl) = case.get("bslots").and_then(|x| x.as_array()) {
        for t in sl {
            let bytes: Vec<u8> = t.as_array().unwrap().iter().map(|x| bpe_bytes[x.as_u64().unwrap() as usize]).collect();
            if let Ok(s) = String::from_utf8(bytes) {
                texts.push(s);
            }
        }
    }
    let mut case = case.clone();
    if let Some(ts) = case.get("tabslots").and_then(|x| x.as_array()).cloned() {
        let tab: Vec<Value> = ts.iter().map(|e| Value::Array(e.as_array().unwrap().iter().map(|x| json!(bpe_bytes[x.as_u64().unwrap() as usize])).collect())).collect();
        case["tab"] = Value::Array(tab);
    }
    let case = &case;
    let spv = json!({
        "tokens": special.tokens.iter().map(|t| tokview(t, &mut int)).collect::<Vec<_>>(),
        "pad": special.pad, "prefix": special.prefix, "suffix": special.suffix});
    let mut rec = json!({"st": "ok", "kind": kind, "g": g, "sp": spv, "case": case,
                         "pad_to": get_u(case, "pad_to"), "groups": get_str(case, "groups"), "agg": get_str(case, "agg"),
                         "tab": [], "max_vocab": get_u(case, "max_vocab"), "chars": [], "unk": tokview(get_str(case, "unk"), &mut int),
                         "extras": (0..(if kind == "byte" { get_u(case, "pad_to") } else { 0 })).map(|i| tokview(&format!("<extra_token_{i}>"), &mut int)).collect::<Vec<_>>()});
    let tmp;
    let built: Result<anyhow::Result<Box<dyn Tokenize>>, String> = match kind.as_str() {
        "byte" => {
            let cfg = ByteTokenizerConfig {
                use_graphemes: g,
                pad_to_multiple_of: if get_u(case, "pad_to") == 0 { None } else { Some(get_u(case, "pad_to")) },
                groups: if get_str(case, "groups") == "code_points" { ByteGroups::CodePoints } else { ByteGroups::Bytes },
                aggregation: if get_str(case, "agg") == "sum" { GroupAggregation::Sum } else { GroupAggregation::Mean },
            };
            guard(|| ByteTokenizer::new(cfg, special.clone()).map(|t| Box::new(t) as Box<dyn Tokenize>))
        }
        "char" => {
            let cfg = CharTokenizerConfig { use_graphemes: g, unk_token: get_str(case, "unk").to_string() };
            // `vocab`: a character tokenizer over the caller's own characters (multi-byte ones among them) instead of the
            // built-in ASCII alphabet
            if own.is_empty() {
                rec["chars"] = Value::Array(alpha.iter().map(|c| bytes_json(c.to_string().as_bytes())).collect());
                guard(|| CharTokenizer::new(cfg, special.clone()).map(|t| Box::new(t) as Box<dyn Tokenize>))
            } else {
                rec["chars"] = Value::Array(own.iter().map(|c| bytes_json(c.to_string().as_bytes())).collect());
                let unk = cfg.unk_token.clone();
                guard(|| CharTokenizer::new_vocab_tokenizer(own.clone(), unk, special.clone(), cfg).map(|t| Box::new(t) as Box<dyn Tokenize>))
            }
        }
        _ => {
            let tab: Vec<Vec<u8>> = case["tab"].as_array().unwrap().iter()
                .map(|e| e.as_array().unwrap().iter().map(|b| b.as_u64().unwrap() as u8).collect()).collect();
            rec["tab"] = Value::Array(tab.iter().map(|e| bytes_json(e)).collect());
            let ids: Vec<u32> = case.get("tab_ids").and_then(|x| x.as_array())
                .map(|a| a.iter().map(|x| x.as_u64().unwrap() as u32).collect())
                .unwrap_or_else(|| (0..tab.len() as u32).collect());
            let ops: MergeOps = tab.iter().cloned().zip(ids).collect();
            tmp = std::env::temp_dir().join(format!("tuverif-merges-{}-{:?}.bin", std::process::id(), std::thread::current().id()));
            ops.save(&tmp).expect("cannot write merge file");
            let cfg = BPETokenizerConfig {
                merge_file: tmp.clone(),
                max_vocab_size: if get_u(case, "max_vocab") == 0 { None } else { Some(get_u(case, "max_vocab")) },
                use_graphemes: g,
            };
            let r = guard(|| BPETokenizer::new(cfg, special.clone()).map(|t| Box::new(t) as Box<dyn Tokenize>));
            let _ = std::fs::remove_file(&tmp);
            r
        }
    };
    let tok = match built {
        Ok(Ok(t)) => t,
        Ok(Err(e)) => {
            rec["st"] = json!(format!("err:new:{e}"));
            return vec![rec];
        }
        Err(m) => {
            rec["st"] = json!(format!("panic:new:{m}"));
            return vec![rec];
        }
    };
    let mut st = "ok".to_string();
    let vs = guard(|| tok.vocab_size()).unwrap_or_else(|m| {
        st = format!("panic:vocab_size:{m}");
        0
    });
    let vocab: Vec<Vec<u8>> = match guard(|| tok.get_vocab()) {
        Ok(Ok(v)) => v,
        Ok(Err(e)) => {
            st = format!("err:get_vocab:{e}");
            vec![]
        }
        Err(m) => {
            st = format!("panic:get_vocab:{m}");
            vec![]
        }
    };
    let margin = 16;
    let mut i2t = vec![];
    for id in 0..(vs + margin) as u32 {
        match guard(|| tok.id_to_token(id)) {
            Ok(Some(b)) => i2t.push(bytes_json(&b)),
            Ok(None) => i2t.push(json!([NONE])),
            Err(m) => {
                if st == "ok" {
                    st = format!("panic:id_to_token:{m}");
                }
                i2t.push(json!([NONE]));
            }
        }
    }
    // token_to_id for every UTF-8 token of the vocabulary; single-id decoding of regular ids
    let mut t2i = vec![];
    let mut utf8 = vec![];
    let mut dec1 = vec![];
    for (id, b) in vocab.iter().enumerate() {
        match std::str::from_utf8(b) {
            Ok(s) => {
                utf8.push(true);
                match guard(|| tok.token_to_id(s)) {
                    Ok(Some(x)) => t2i.push(x as i64),
                    Ok(None) => t2i.push(-1),
                    Err(m) => {
                        if st == "ok" {
                            st = format!("panic:token_to_id:{m}");
                        }
                        t2i.push(-1)
                    }
                }
                match guard(|| tok.de_tokenize(&[id as u32], false)) {
                    Ok(Ok(s)) => dec1.push(bytes_json(s.as_bytes())),
                    Ok(Err(_)) => dec1.push(json!([NONE])),
                    Err(m) => {
                        if st == "ok" {
                            st = format!("panic:de_tokenize1:{m}");
                        }
                        dec1.push(json!([NONE]))
                    }
                }
            }
            Err(_) => {
                // a token that is no text on its own (a lone byte >= 0x80): decoding its id may fail, but must not return
                // other bytes than the token's
                utf8.push(false);
                t2i.push(-1);
                match guard(|| tok.de_tokenize(&[id as u32], false)) {
                    Ok(Ok(s)) => dec1.push(bytes_json(s.as_bytes())),
                    Ok(Err(_)) => dec1.push(json!([NONE])),
                    Err(m) => {
                        if st == "ok" {
                            st = format!("panic:de_tokenize1:{m}");
                        }
                        dec1.push(json!([NONE]))
                    }
                }
            }
        }
    }
    rec["vs"] = json!(vs);
    rec["vocab"] = Value::Array(vocab.iter().map(|b| bytes_json(b)).collect());
    rec["i2t"] = Value::Array(i2t);
    rec["t2i"] = json!(t2i);
    rec["utf8"] = json!(utf8);
    rec["dec1"] = Value::Array(dec1);
    rec["pad_id"] = json!(tok.pad_token_id());
    rec["prefix_ids"] = json!(tok.prefix_token_ids());
    rec["suffix_ids"] = json!(tok.suffix_token_ids());
    rec["texts"] = Value::Array(run_texts(tok.as_ref(), &texts, &mut int, &alpha, &mut st));
    rec["st"] = json!(st);
    vec![rec]
}

// ---------------------------------------------------------------------------
// random drivers

fn rand_text(rng: &mut ChaCha8Rng, specials: &[String], maxlen: usize) -> String {
    let pool: Vec<&str> = vec![
        "a", "b", "z", "A", "0", " ", " ", "\t", "\n", "\r\n", "\u{00A0}", "ä", "é", "e\u{0301}", "€", "字", "😀",
        "👨\u{200D}👩\u{200D}👧", "🇩🇪", "\u{200B}", "<", ">", "<p", "p>", "<<", "/", "|", "~", "\u{3000}", "ß", "x\u{0308}",
        // the ends of the byte range: NUL (byte id 0), U+0001, DEL, the last code point (bytes F4 8F BF BF)
        "\u{0}", "\u{1}", "\u{7F}", "\u{10FFFF}",
    ];
    let n = rng.random_range(0..=maxlen);
    let mut s = String::new();
    // one text in sixty changes the byte width of its characters at every position, a few hundred times
    if rng.random_bool(1.0 / 60.0) {
        let m = rng.random_range(260..=340);
        return (0..m).map(|k| if k % 9 == 8 { " " } else if k % 2 == 0 { "a" } else { ["ä", "字", "e\u{0301}", "😀"][k % 4] }).collect();
    }
    // one text in eight is pure ASCII with CR LF (one character in grapheme mode): byte-wise fast paths
    if rng.random_bool(0.125) {
        let ascii = ["a", "b", " ", "\r\n", "\r\n", "\n", "\r", "<", "\t", "0"];
        return (0..n).map(|_| ascii[rng.random_range(0..ascii.len())]).collect();
    }
    for _ in 0..n {
        if !specials.is_empty() && rng.random_bool(0.15) {
            let t = &specials[rng.random_range(0..specials.len())];
            if rng.random_bool(0.25) && t.len() > 1 {
                // near miss: a proper prefix or suffix of the spelling
                let cut = rng.random_range(1..t.len());
                if t.is_char_boundary(cut) {
                    s.push_str(if rng.random_bool(0.5) { &t[..cut] } else { &t[cut..] });
                }
            } else {
                s.push_str(t);
                // keep the grapheme context simple after a special token (see DESIGN.md)
                s.push_str(["a", " ", "<", ""][rng.random_range(0..4)]);
            }
        } else {
            s.push_str(pool[rng.random_range(0..pool.len())]);
        }
    }
    // one text in twenty carries a cluster of 261 bytes (a length that does not fit into a byte)
    if rng.random_bool(0.05) {
        s.push_str(giant_cluster());
        s.push_str(["", "a", " "][rng.random_range(0..3)]);
    }
    s
}

fn rand_special(rng: &mut ChaCha8Rng) -> Value {
    let pools: [&[&str]; 3] = [
        &["<unk>", "<bos>", "<eos>", "<pad>"],
        &["<p>", "<u>", "<b>", "<e>", "<pad>"],
        &["<pad>", "<|sep|>", "[CLS]", "<bos>", "<eos>", "<unk>", "<mask>"],
    ];
    let pool = pools[rng.random_range(0..3)];
    let mut tokens: Vec<String> = pool.iter().map(|s| s.to_string()).collect();
    tokens.shuffle(rng);
    if rng.random_bool(0.3) {
        let d = tokens[rng.random_range(0..tokens.len())].clone();
        let at = rng.random_range(0..=tokens.len());
        tokens.insert(at, d); // duplicates are legal
    }
    let pick = |rng: &mut ChaCha8Rng, n: usize| -> Vec<String> { (0..n).map(|_| tokens[rng.random_range(0..tokens.len())].clone()).collect() };
    let np = [0, 0, 1, 2][rng.random_range(0..4)];
    let ns = [0, 0, 1, 2][rng.random_range(0..4)];
    json!({"tokens": tokens, "pad": "<pad>", "prefix": pick(rng, np), "suffix": pick(rng, ns)})
}

/// a random well-formed merge table over the bytes of `alphabet`
fn rand_table(rng: &mut ChaCha8Rng, alphabet: &[u8], n: usize) -> Vec<Vec<u8>> {
    let mut toks: Vec<Vec<u8>> = alphabet.iter().map(|b| vec![*b]).collect();
    let mut tab: Vec<Vec<u8>> = vec![];
    let mut tries = 0;
    while tab.len() < n && tries < 10 * n + 50 {
        tries += 1;
        // prefer recent entries so that depth >= 2 and overlapping / competing merges are common
        let pick = |rng: &mut ChaCha8Rng, toks: &Vec<Vec<u8>>| -> Vec<u8> {
            if rng.random_bool(0.5) && toks.len() > alphabet.len() {
                toks[rng.random_range(alphabet.len()..toks.len())].clone()
            } else {
                toks[rng.random_range(0..toks.len())].clone()
            }
        };
        let mut e = pick(rng, &toks);
        e.extend(pick(rng, &toks));
        if e.len() <= 8 && !tab.contains(&e) {
            tab.push(e.clone());
            toks.push(e);
        }
    }
    tab
}

pub fn gen(seed: u64, n: usize) -> Vec<Value> {
    let mut rng = ChaCha8Rng::seed_from_u64(seed);
    let mut out = vec![];
    for i in 0..n {
        let special = rand_special(&mut rng);
        let specials: Vec<String> = special["tokens"].as_array().unwrap().iter().map(|x| x.as_str().unwrap().to_string()).collect();
        let g = rng.random_bool(0.5);
        match i % 3 {
            0 => {
                let texts: Vec<String> = (0..12).map(|_| rand_text(&mut rng, &specials, 14)).collect();
                let pad_to = [0usize, 0, 2, 128, 512][rng.random_range(0..5)];
                out.push(json!({"kind": "byte", "special": special, "g": g, "texts": texts,
                    "pad_to": pad_to,
                    "groups": if rng.random_bool(0.5) { "bytes" } else { "code_points" },
                    "agg": if rng.random_bool(0.5) { "mean" } else { "sum" }, "unk": "<unk>"}));
            }
            1 => {
                let texts: Vec<String> = (0..12).map(|_| rand_text(&mut rng, &specials, 14)).collect();
                let unk = ["<unk>", "<u>", "<oov>"][rng.random_range(0..3)];
                let vocab = if rng.random_bool(0.4) { ["aäß€語𝄞 ", "ba", "é字😀x"][rng.random_range(0..3)] } else { "" };
                out.push(json!({"kind": "char", "special": special, "g": g, "texts": texts, "unk": unk, "vocab": vocab}));
            }
            _ => {
                // BPE: a random well-formed table over a small alphabet and words over that alphabet
                let alphas: [&str; 5] = ["ab", "abc", "aä", "ab€", "a\u{0}b"];      // NUL is byte id 0
                let alpha = alphas[rng.random_range(0..5)];
                let mut bytes: Vec<u8> = alpha.as_bytes().to_vec();
                if rng.random_bool(0.5) {
                    bytes.push(b' ');
                }
                bytes.dedup();
                let nt = rng.random_range(1..=40usize);
                let tab = rand_table(&mut rng, &bytes, nt);
                let chars: Vec<char> = alpha.chars().collect();
                let texts: Vec<String> = (0..16)
                    .map(|_| {
                        let len = rng.random_range(0..=16);
                        let mut t: String = (0..len)
                            .map(|_| if rng.random_bool(0.15) { [' ', ' ', ' ', '\t', '\u{00A0}', '\n', '\r', '\u{000B}', '\u{000C}', '\u{0085}', '\u{2028}', '\u{3000}'][rng.random_range(0..12)] } else { chars[rng.random_range(0..chars.len())] })
                            .collect();
                        // one text in five contains the spelling of a special token (plain text when special tokens are
                        // ignored), with whitespace in front of it half of the time
                        if !specials.is_empty() && rng.random_bool(0.2) {
                            let cut = (0..=t.len()).filter(|p| t.is_char_boundary(*p)).nth(rng.random_range(0..=t.chars().count())).unwrap_or(t.len());
                            let sp = &specials[rng.random_range(0..specials.len())];
                            let ws = ["", " ", "\n", "  "][rng.random_range(0..4)];
                            t = format!("{}{}{}{}", &t[..cut], ws, sp, &t[cut..]);
                        }
                        t
                    })
                    .collect();
                let max_vocab = if rng.random_bool(0.3) { 256 + specials.len() + rng.random_range(0..=tab.len()) }
                    else if rng.random_bool(0.15) { 256 + specials.len() + tab.len() + rng.random_range(1..300) }
                    else if rng.random_bool(0.15) { rng.random_range(1..=256 + specials.len()) } else { 0 };
                out.push(json!({"kind": "bpe", "special": special, "g": g, "texts": texts, "unk": "<unk>",
                    "tab": tab, "max_vocab": max_vocab}));
            }
        }
    }
    out
}
