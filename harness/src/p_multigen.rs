//! C07: MultiTrainDataGenerator (sequential / interleaved / weighted).
use crate::common::*;
use rand::prelude::*;
use rand_chacha::ChaCha8Rng;
use serde_json::{json, Value};
use text_utils::data::loading::{GenerationStrategy, MultiTrainDataGenerator, TrainDataGenerator};
use text_utils::data::TrainData;

fn sources(lens: &[usize]) -> Vec<TrainDataGenerator> {
    lens.iter()
        .enumerate()
        .map(|(s, &l)| {
            let v: Vec<anyhow::Result<TrainData>> =
                (0..l).map(|p| Ok(TrainData::new(format!("{} {}", s + 1, p), None))).collect();
            Box::new(v.into_iter()) as TrainDataGenerator
        })
        .collect()
}

fn strategy(s: &str) -> GenerationStrategy {
    match s {
        "sequential" => GenerationStrategy::Sequential,
        "interleaved" => GenerationStrategy::Interleaved,
        _ => GenerationStrategy::Weighted,
    }
}

/// One complete iteration: returns (items as [tag, src_from_payload, pos], ended, status)
fn run(lens: &[usize], strat: &str, seed: u64) -> (Vec<Value>, bool, String) {
    let total: usize = lens.iter().sum();
    let gen = match guard(|| MultiTrainDataGenerator::new(sources(lens), strategy(strat), Some(seed))) {
        Ok(Ok(g)) => g,
        Ok(Err(e)) => return (vec![], false, format!("err:new:{e}")),
        Err(m) => return (vec![], false, format!("panic:new:{m}")),
    };
    let mut gen = gen;
    let mut out = vec![];
    let mut ended = false;
    // a conforming generator ends after `total` items; allow it to overrun a little so
    // that duplicates are seen, but never loop unboundedly here
    for _ in 0..(total + lens.len() + 3) {
        match guard(|| gen.next()) {
            Ok(Some((Ok(d), tag))) => {
                let parts: Vec<usize> = d.verif_input().split(' ').map(|x| x.parse().unwrap_or(9999)).collect();
                out.push(json!([tag + 1, parts[0], parts[1]]));
            }
            Ok(Some((Err(e), _))) => return (out, false, format!("err:item:{e}")),
            Ok(None) => {
                ended = true;
                break;
            }
            Err(m) => return (out, false, format!("panic:next:{m}")),
        }
    }
    (out, ended, "ok".to_string())
}

pub fn exec(case: &Value) -> Vec<Value> {
    let lens: Vec<usize> = case["lens"].as_array().unwrap().iter().map(|x| x.as_u64().unwrap() as usize).collect();
    let strat = get_str(case, "strategy");
    let seed = case.get("seed").and_then(|x| x.as_u64()).unwrap_or(0);
    let (out, ended, st) = run(&lens, strat, seed);
    // same seed again: the result must be reproducible
    let (out2, _, _) = run(&lens, strat, seed);
    vec![json!({"st": st, "lens": lens, "strategy": strat, "seed": seed, "out": out, "out2": out2,
                "ended": ended, "case": case})]
}

pub fn gen(seed: u64, n: usize) -> Vec<Value> {
    let mut rng = ChaCha8Rng::seed_from_u64(seed);
    (0..n)
        .map(|_| {
            let strat = ["sequential", "interleaved", "weighted"][rng.random_range(0..3)];
            let k = rng.random_range(1..=6);
            let lo = if strat == "weighted" { 1 } else { 0 };
            let lens: Vec<usize> = (0..k).map(|_| rng.random_range(lo..=9)).collect();
            json!({"lens": lens, "strategy": strat, "seed": rng.random::<u32>()})
        })
        .collect()
}
