//! C07: MultiTrainDataGenerator (sequential / interleaved / weighted).
use crate::common::*;
use rand::prelude::*;
use rand_chacha::ChaCha8Rng;
use serde_json::{json, Value};
use text_utils::data::loading::{train_data_generator_from_jsonl, GenerationStrategy, MultiTrainDataGenerator, TrainDataGenerator};
use text_utils::data::TrainData;

type Errs = Vec<(usize, usize)>;

fn sources(lens: &[usize], errs: &Errs) -> Vec<TrainDataGenerator> {
    lens.iter()
        .enumerate()
        .map(|(s, &l)| {
            let v: Vec<anyhow::Result<TrainData>> = (0..l)
                .map(|p| if errs.contains(&(s, p)) { Err(anyhow::anyhow!("reader failed at {s} {p}")) } else { Ok(TrainData::new(format!("{} {}", s + 1, p), None)) })
                .collect();
            Box::new(v.into_iter()) as TrainDataGenerator
        })
        .collect()
}

/// the same sources as jsonl files read by the library's own reader; `eol` selects the line
/// ending style: 0 = LF, 1 = CRLF, 2 = LF without a trailing newline at the end of the file
fn file_sources(lens: &[usize], eol: u64, dir: &std::path::Path, errs: &Errs) -> anyhow::Result<Vec<TrainDataGenerator>> {
    let mut out = vec![];
    for (s, &l) in lens.iter().enumerate() {
        let p = dir.join(format!("src{s}.jsonl"));
        let sep = if eol == 1 { "\r\n" } else { "\n" };
        // an error position is a malformed json line
        let mut text: String = (0..l)
            .map(|k| if errs.contains(&(s, k)) { format!("{{\"input\": {sep}") } else { format!("{{\"input\": \"{} {}\"}}{sep}", s + 1, k) })
            .collect();
        if eol == 2 && text.ends_with('\n') {
            text.pop();
        }
        std::fs::write(&p, text)?;
        out.push(train_data_generator_from_jsonl(&p)?);
    }
    Ok(out)
}

fn strategy(s: &str) -> GenerationStrategy {
    match s {
        "sequential" => GenerationStrategy::Sequential,
        "interleaved" => GenerationStrategy::Interleaved,
        _ => GenerationStrategy::Weighted,
    }
}

/// One complete iteration: returns (items as [tag, src_from_payload, pos], ended, status)
fn run(lens: &[usize], strat: &str, seed: u64, files: Option<u64>, errs: &Errs) -> (Vec<Value>, bool, String, i64) {
    let total: usize = lens.iter().sum();
    let dir = std::env::temp_dir().join(format!("tuverif-mg-{}-{:?}", std::process::id(), std::thread::current().id()));
    let srcs = match files {
        None => sources(lens, errs),
        Some(eol) => {
            let _ = std::fs::create_dir_all(&dir);
            match file_sources(lens, eol, &dir, errs) {
                Ok(s) => s,
                Err(e) => return (vec![], false, format!("err:files:{e}"), -1),
            }
        }
    };
    let r = run_with(srcs, total, lens.len(), strat, seed, errs);
    let _ = std::fs::remove_dir_all(&dir);
    r
}

fn run_with(srcs: Vec<TrainDataGenerator>, total: usize, nsrc: usize, strat: &str, seed: u64, errs: &Errs) -> (Vec<Value>, bool, String, i64) {
    // items handed out per source so far: an error item carries no payload, its position is its rank within its source
    let mut seen = vec![0usize; nsrc];
    let lens_len = nsrc;
    let gen = match guard(|| MultiTrainDataGenerator::new(srcs, strategy(strat), Some(seed))) {
        Ok(Ok(g)) => g,
        Ok(Err(e)) => return (vec![], false, format!("err:new:{e}"), -1),
        Err(m) => return (vec![], false, format!("panic:new:{m}"), -1),
    };
    let mut gen = gen;
    let reported = gen.len() as i64;
    let mut out = vec![];
    let mut ended = false;
    // a conforming generator ends after `total` items; allow it to overrun a little so
    // that duplicates are seen, but never loop unboundedly here
    for _ in 0..(total + lens_len + 3) {
        match guard(|| gen.next()) {
            Ok(Some((Ok(d), tag))) => {
                let parts: Vec<usize> = d.verif_input().split(' ').map(|x| x.parse().unwrap_or(9999)).collect();
                out.push(json!([tag + 1, parts[0], parts[1]]));
                if tag < nsrc { seen[tag] += 1; }
            }
            Ok(Some((Err(e), tag))) => {
                // an error item that the case placed there is an item like any other; any other error is a finding
                if tag < nsrc && errs.contains(&(tag, seen[tag])) {
                    out.push(json!([tag + 1, tag + 1, seen[tag]]));
                    seen[tag] += 1;
                } else {
                    return (out, false, format!("err:item:{e}"), reported);
                }
            }
            Ok(None) => {
                ended = true;
                break;
            }
            Err(m) => return (out, false, format!("panic:next:{m}"), reported),
        }
    }
    (out, ended, "ok".to_string(), reported)
}

pub fn exec(case: &Value) -> Vec<Value> {
    let lens: Vec<usize> = case["lens"].as_array().unwrap().iter().map(|x| x.as_u64().unwrap() as usize).collect();
    let strat = get_str(case, "strategy");
    let seed = case.get("seed").and_then(|x| x.as_u64()).unwrap_or(0);
    let files = case.get("files").and_then(|x| x.as_u64());
    let errs: Errs = case.get("errs").and_then(|x| x.as_array()).map(|a| a.iter().map(|e| (e[0].as_u64().unwrap() as usize, e[1].as_u64().unwrap() as usize)).collect()).unwrap_or_default();
    let (out, ended, st, reported) = run(&lens, strat, seed, files, &errs);
    // same seed again: the result must be reproducible
    let (out2, _, _, _) = run(&lens, strat, seed, files, &errs);
    vec![json!({"st": st, "lens": lens, "strategy": strat, "seed": seed, "out": out, "out2": out2,
                "ended": ended, "reported_len": reported, "files": files.map(|x| x as i64).unwrap_or(-1), "case": case})]
}

pub fn gen(seed: u64, n: usize) -> Vec<Value> {
    let mut rng = ChaCha8Rng::seed_from_u64(seed);
    (0..n)
        .map(|i| {
            let strat = ["sequential", "interleaved", "weighted"][rng.random_range(0..3)];
            // three runs have more sources than 8 bits can number
            let k = if i % 500 == 11 { rng.random_range(257..=300) } else { rng.random_range(1..=6) };
            // one run per strategy kind: tens of thousands of empty sources in a row in front of a non-empty one
            if i == 3 || i == 4 {
                let mut lens: Vec<usize> = vec![0; rng.random_range(40000..=50000)];
                lens.push(2);
                if i == 4 { lens.insert(0, 3); }
                return json!({"lens": lens, "strategy": if i == 3 { "sequential" } else { "interleaved" }, "seed": rng.random::<u32>(), "errs": []});
            }
            // very unequal sources (one holds less than a hundredth of the items): weights that round to nothing
            if i % 100 == 7 {
                let mut lens: Vec<usize> = vec![rng.random_range(1..=2), rng.random_range(101..=320)];
                if rng.random_bool(0.5) { lens.reverse(); }
                if rng.random_bool(0.3) { lens.push(rng.random_range(1..=3)); }
                return json!({"lens": lens, "strategy": "weighted", "seed": rng.random::<u32>(), "errs": []});
            }
            if k > 6 {
                let lens: Vec<usize> = (0..k).map(|_| rng.random_range(if strat == "weighted" { 1 } else { 0 }..=2)).collect();
                return json!({"lens": lens, "strategy": strat, "seed": rng.random::<u32>(), "errs": []});
            }
            let lo = if strat == "weighted" { 1 } else { 0 };
            let lens: Vec<usize> = (0..k).map(|_| rng.random_range(lo..=9)).collect();
            let mut errs: Vec<Value> = vec![];
            if rng.random_bool(0.3) {
                for (s, &l) in lens.iter().enumerate() {
                    for p in 0..l {
                        if rng.random_bool(0.15) { errs.push(json!([s, p])); }
                    }
                }
            }
            if rng.random_bool(0.3) {
                json!({"lens": lens, "strategy": strat, "seed": rng.random::<u32>(), "files": rng.random_range(0..3u64), "errs": errs})
            } else {
                json!({"lens": lens, "strategy": strat, "seed": rng.random::<u32>(), "errs": errs})
            }
        })
        .collect()
}
