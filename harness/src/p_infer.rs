//! Extension X05: the inference loader (source scan -> enumerate -> pipe -> result scan -> flatten -> batched ->
//! buffered) driven through the guarded hook `data::verif::inference_loader`.
use crate::common::*;
use rand::prelude::*;
use rand_chacha::ChaCha8Rng;
use serde_json::{json, Value};
use text_utils::data::loading::BatchLimitType;
use text_utils::data::verif::inference_loader;
use text_utils::tokenization::{ByteGroups, ByteTokenizerConfig, GroupAggregation, SpecialConfig, TokenizeConfig, TokenizerConfig};
use text_utils::windows::{windows, WindowConfig};

fn tok_cfg() -> TokenizerConfig {
    TokenizerConfig {
        tokenize: TokenizeConfig::Byte(ByteTokenizerConfig { use_graphemes: true, pad_to_multiple_of: None,
            groups: ByteGroups::Bytes, aggregation: GroupAggregation::Mean }),
        special: SpecialConfig { pad: "<pad>".into(), tokens: vec!["<pad>".into()], prefix: vec![], suffix: vec![] },
    }
}

/// item kinds: n > 0: a text of n ASCII letters; n = 0: the empty text; "src": the source iterator fails here;
/// "pipe": a text on which the window function fails (a 4-byte character under 2-byte windows)
pub fn exec(case: &Value) -> Vec<Value> {
    let wmax = get_u(case, "wmax").clamp(2, 8);
    let wcfg = WindowConfig::Bytes(wmax, get_u(case, "wctx"), true);
    let kinds: Vec<Value> = case["items"].as_array().cloned().unwrap_or_default();
    let mut items: Vec<Result<String, String>> = vec![];
    let mut views = vec![];
    for (k, it) in kinds.iter().enumerate() {
        match it {
            Value::String(s) if s == "src" => {
                items.push(Err(format!("source failed at {k}")));
                views.push(json!({"k": "src", "nw": 0, "sizes": []}));
            }
            Value::String(t) if t == "pipe" => {
                // an 18-byte cluster never fits a window of at most 8 bytes: the window function returns an error
                items.push(Ok("ab👨\u{200D}👩\u{200D}👧".to_string()));
                views.push(json!({"k": "pipe", "nw": 0, "sizes": []}));
            }
            n => {
                // a number, or "t<number>" (TLC enumerates strings only): a text of that many ASCII letters
                let len = n.as_u64().or_else(|| n.as_str().and_then(|t| t[1..].parse().ok())).unwrap_or(0) as usize;
                let s: String = (0..len).map(|j| (b'a' + ((k + j) % 26) as u8) as char).collect();
                // the windows of this text (the window function is the subject of C16), with their token counts
                match windows(&s, &wcfg) {
                    Ok(ws) => {
                        let sizes: Vec<usize> = ws.iter().map(|w| w.str.len()).collect();
                        views.push(json!({"k": "ok", "nw": sizes.len(), "sizes": sizes}));
                    }
                    // the window function rejects this text / configuration: it is a failing item
                    Err(_) => views.push(json!({"k": "pipe", "nw": 0, "sizes": []})),
                }
                items.push(Ok(s));
            }
        }
    }
    let threads = get_u(case, "threads") as u8;
    let ltype = if get_str(case, "ltype") == "padded" { BatchLimitType::PaddedItemSize } else { BatchLimitType::BatchSize };
    let sort = get_bool(case, "sort");
    let limit = get_u(case, "limit");
    let (st, batches, err) = match guard(|| inference_loader(items.clone(), tok_cfg(), false, wcfg.clone(), threads, get_u(case, "buffer"),
                                                             limit, ltype, get_u(case, "prefetch"), sort)) {
        Ok(Ok((b, e))) => ("ok".to_string(), b, e),
        Ok(Err(e)) => (format!("err:build:{e}"), vec![], None),
        Err(m) => (format!("panic:inference_loader:{m}"), vec![], None),
    };
    let bj: Vec<Value> = batches.iter().map(|b| Value::Array(b.iter().map(|it| json!([it.item_idx, it.window_idx, it.tokenization.token_ids.len()])).collect())).collect();
    // which item the reported error names: "source failed at k" carries k; a window error is attributed to the first "pipe" item at or after ...
    let (has_err, err_src) = match &err {
        None => (false, -1i64),
        Some(m) => (true, m.rsplit("source failed at ").next().and_then(|t| if m.contains("source failed at") { t.trim().parse::<i64>().ok() } else { None }).unwrap_or(-2)),
    };
    // shape of the recorded finding of this component: the first failing item is a source error and there are
    // several pipe workers (only the worker that pulled the failing item stops)
    let first_fail = views.iter().map(|v| get_str(v, "k")).find(|k| *k != "ok").unwrap_or("");
    let shape = threads >= 2 && first_fail == "src";
    vec![json!({"st": st, "multi_worker_src_error": shape, "items": views, "threads": threads, "buffer": get_u(case, "buffer"), "limit": limit.max(1), "ltype": get_str(case, "ltype"),
                "prefetch": get_u(case, "prefetch"), "sort": sort, "batches": bj, "err": has_err, "err_src": err_src,
                "err_msg": err.unwrap_or_default(), "case": case})]
}

pub fn gen(seed: u64, n: usize) -> Vec<Value> {
    let mut rng = ChaCha8Rng::seed_from_u64(seed);
    (0..n)
        .map(|_| {
            let len = rng.random_range(0..9);
            let failing = rng.random_bool(0.5);
            let items: Vec<Value> = (0..len)
                .map(|_| if failing && rng.random_bool(0.2) { if rng.random_bool(0.5) { json!("src") } else { json!("pipe") } } else { json!(rng.random_range(0..9)) })
                .collect();
            let ltype = ["count", "padded"][rng.random_range(0..2)];
            let wctx = rng.random_range(0..2);
            let wmax = 2 * wctx + rng.random_range(2..6);
            json!({"items": items, "wmax": wmax, "wctx": wctx, "threads": rng.random_range(0..4), "buffer": rng.random_range(0..4),
                   "limit": rng.random_range(1..8), "ltype": ltype, "prefetch": rng.random_range(1..3), "sort": rng.random_bool(0.3)})
        })
        .collect()
}
