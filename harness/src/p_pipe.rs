//! C05 / C09: the threaded `Pipe` under controlled schedules (spec -> code
//! replay) and free-running recorded executions (code -> spec validation).
//!
//! Events (one JSON object each, in the order of one global log):
//!   Pull{w,x}        upstream `next()` returned item x (x = -1: exhausted); runs inside the pipe's mutex
//!   Call{w,x}        processing function entered for item x
//!   Spin{w,x}        a failed turn check (controlled mode only)
//!   BeforeSend{w,x}  turn check passed
//!   AfterSend{w,x,k} send returned (k = ok)
//!   AfterAdvance{w,x,k}  turn counter stored (x = value read back)
//!   Exit{w}          worker returns
//!   AllExited        the upstream iterator was dropped (last worker gone)
//!   Recv{x} / End / Drop   consumer
//!   Stuck{who}       the controller gave up waiting for an actor (never on conforming code)
use crate::common::*;
use rand::prelude::*;
use rand_chacha::ChaCha8Rng;
use serde_json::{json, Value};
use std::cell::Cell;
use std::sync::{Arc, Condvar, Mutex};
use std::time::Duration;
use text_utils::data::loading::PipelineIterator;
use text_utils::data::Pipeline;
use text_utils::verif::{install, Point};

thread_local! {
    static WORKER: Cell<usize> = const { Cell::new(0) };
    /// the run (Ctl::id) whose pipe spawned this thread; 0 = not yet seen
    static BOUND: Cell<u64> = const { Cell::new(0) };
}

static NEXT_RUN: std::sync::atomic::AtomicU64 = std::sync::atomic::AtomicU64::new(1);

#[derive(Clone, Copy, PartialEq, Debug)]
enum Mode {
    Controlled,
    Free,
}

struct Inner {
    log: Vec<Value>,
    parked: Vec<Option<Point>>,
    arrivals: Vec<u64>,
    grant: Vec<bool>,
    exited: Vec<bool>,
    // consumer thread (controlled mode)
    cons_cmd: Option<char>,
    cons_done_cmds: u64,
    cons_finished: bool,
    all_exited: bool,
    pulls: usize,
    sends_ok: usize,
    recvs: usize,
    closed: bool,
}

struct Ctl {
    id: u64,
    mode: Mode,
    seed: u64,
    jitter: f64,
    m: Mutex<Inner>,
    cv: Condvar,
}

impl Ctl {
    fn new(mode: Mode, w: usize, seed: u64, jitter: f64) -> Arc<Self> {
        Arc::new(Ctl {
            id: NEXT_RUN.fetch_add(1, std::sync::atomic::Ordering::SeqCst),
            mode,
            seed,
            jitter,
            m: Mutex::new(Inner {
                log: vec![],
                parked: vec![None; w + 1],
                arrivals: vec![0; w + 1],
                grant: vec![false; w + 1],
                exited: vec![false; w + 1],
                cons_cmd: None,
                cons_done_cmds: 0,
                cons_finished: false,
                all_exited: false,
                pulls: 0,
                sends_ok: 0,
                recvs: 0,
                closed: false,
            }),
            cv: Condvar::new(),
        })
    }

    fn ev(&self, e: Value) {
        let mut g = self.m.lock().unwrap();
        g.log.push(e);
    }
}

fn pname(p: Point) -> &'static str {
    match p {
        Point::LoopTop => "LoopTop",
        Point::AfterTake => "AfterTake",
        Point::AfterCompute => "AfterCompute",
        Point::Spin => "Spin",
        Point::BeforeSend => "BeforeSend",
        Point::AfterSend => "AfterSend",
        Point::AfterAdvance => "AfterAdvance",
        Point::Exit => "Exit",
    }
}

thread_local! {
    static JRNG: std::cell::RefCell<Option<ChaCha8Rng>> = const { std::cell::RefCell::new(None) };
}

fn jitter(ctl: &Ctl, w: usize) {
    if ctl.jitter <= 0.0 {
        return;
    }
    JRNG.with(|r| {
        let mut r = r.borrow_mut();
        if r.is_none() {
            *r = Some(ChaCha8Rng::seed_from_u64(ctl.seed.wrapping_mul(1000003).wrapping_add(w as u64)));
        }
        let rng = r.as_mut().unwrap();
        let x: f64 = rng.random();
        if x < ctl.jitter * 0.5 {
            std::thread::yield_now();
        } else if x < ctl.jitter {
            std::thread::sleep(Duration::from_micros(rng.random_range(1..150)));
        }
    });
}

/// The hook callback installed into the library.
fn on_point(ctl: &Arc<Ctl>, thread: usize, p: Point, idx: usize, ok: bool) {
    // A worker left over from an earlier, abandoned run (a wedged pipe never lets its threads
    // return) looks the callback up per call and would land in this run's controller.
    let bound = BOUND.with(|c| c.get());
    if bound == 0 {
        BOUND.with(|c| c.set(ctl.id));
    } else if bound != ctl.id {
        std::thread::sleep(Duration::from_millis(2));
        return;
    }
    on_bound_point(ctl, thread, p, idx, ok);
    // the worker loop is over: should the OS thread be reused for a worker of a later pipe (a thread pool), it is
    // that pipe's worker from then on
    if p == Point::Exit {
        BOUND.with(|c| c.set(0));
    }
}

fn on_bound_point(ctl: &Arc<Ctl>, thread: usize, p: Point, idx: usize, ok: bool) {
    let w = thread + 1;
    WORKER.with(|c| c.set(w));
    match ctl.mode {
        Mode::Free => {
            match p {
                Point::LoopTop | Point::AfterTake | Point::AfterCompute | Point::Spin => {}
                _ => ctl.ev(json!({"e": pname(p), "w": w, "x": idx, "k": ok})),
            }
            if p != Point::Spin {
                jitter(ctl, w);
            }
        }
        Mode::Controlled => {
            let mut g = ctl.m.lock().unwrap();
            match p {
                Point::LoopTop | Point::AfterTake | Point::AfterCompute => {}
                _ => g.log.push(json!({"e": pname(p), "w": w, "x": idx, "k": ok})),
            }
            if p == Point::AfterSend && ok {
                g.sends_ok += 1;
            }
            match p {
                Point::Exit => {
                    g.exited[w] = true;
                    g.parked[w] = None;
                    g.arrivals[w] += 1;
                    ctl.cv.notify_all();
                    return;
                }
                // the store and the loop top touch no shared state in between: one action
                Point::AfterAdvance => return,
                _ => {}
            }
            g.parked[w] = Some(p);
            g.arrivals[w] += 1;
            ctl.cv.notify_all();
            while !g.grant[w] {
                g = ctl.cv.wait(g).unwrap();
            }
            g.grant[w] = false;
            g.parked[w] = None;
        }
    }
}

/// Upstream iterator: yields 0..n, logs every pull (runs inside the pipe's mutex),
/// and reports its own drop (= the last worker is gone).
struct Src {
    next: usize,
    n: usize,
    ctl: Arc<Ctl>,
}

impl Iterator for Src {
    type Item = usize;
    fn next(&mut self) -> Option<usize> {
        let w = WORKER.with(|c| c.get());
        let mut g = self.ctl.m.lock().unwrap();
        if self.next < self.n {
            let x = self.next;
            self.next += 1;
            g.pulls += 1;
            g.log.push(json!({"e": "Pull", "w": w, "x": x, "k": true}));
            Some(x)
        } else {
            g.log.push(json!({"e": "Pull", "w": w, "x": self.n, "k": false}));
            None
        }
    }
    // an exact size hint, as ranges, vectors and the library's own ExactSizeGenerator give
    fn size_hint(&self) -> (usize, Option<usize>) {
        let left = self.n.saturating_sub(self.next);
        (left, Some(left))
    }
}

impl Drop for Src {
    fn drop(&mut self) {
        let mut g = self.ctl.m.lock().unwrap();
        g.log.push(json!({"e": "AllExited", "w": 0, "x": 0, "k": true}));
        g.all_exited = true;
        self.ctl.cv.notify_all();
    }
}

fn make_pipeline(ctl: &Arc<Ctl>, fail: Option<usize>, delays: bool) -> Pipeline<usize, usize> {
    make_pipeline_slow(ctl, fail, delays, None)
}

/// `slow`: (item, milliseconds) - one item whose processing takes very long while the consumer
/// waits (a consumer-side time-out must not end the stream)
/// Stack need of the processing function in KiB (0 = none): the function recurses until that much stack is in use.
static DEEP_KIB: std::sync::atomic::AtomicUsize = std::sync::atomic::AtomicUsize::new(0);

#[inline(never)]
fn burn_stack(base: usize, bytes: usize, x: usize) -> usize {
    let pad = [x as u8; 512];
    let here = std::hint::black_box(&pad) as *const _ as usize;
    if base.abs_diff(here) >= bytes {
        return x + pad[17] as usize - (x as u8) as usize;
    }
    std::hint::black_box(burn_stack(base, bytes, x)) + pad[3] as usize - (x as u8) as usize
}

fn make_pipeline_slow(ctl: &Arc<Ctl>, fail: Option<usize>, delays: bool, slow: Option<(usize, u64)>) -> Pipeline<usize, usize> {
    let c = ctl.clone();
    Arc::new(move |x: usize| {
        let w = WORKER.with(|c| c.get());
        c.ev(json!({"e": "Call", "w": w, "x": x, "k": true}));
        if Some(x) == fail {
            panic!("verif: injected processing failure at item {x}");
        }
        if let Some((item, ms)) = slow {
            if item == x {
                std::thread::sleep(Duration::from_millis(ms));
            }
        }
        if delays {
            jitter(&c, w);
            jitter(&c, w);
        }
        let deep = DEEP_KIB.load(std::sync::atomic::Ordering::SeqCst);
        if deep > 0 {
            let mark = 0u8;
            return burn_stack(&mark as *const _ as usize, deep * 1024, x);
        }
        x
    })
}

const STEP_TIMEOUT: Duration = Duration::from_millis(5000);
const BLOCK_PROBE: Duration = Duration::from_millis(15);

/// Controlled run.  `sched` is a list of actor tokens: "w<k>" (one step of worker k),
/// "c" (consumer recv), "x" (consumer drops the iterator).  After the schedule the
/// controller drains: round-robin over all actors until everything has ended.
/// `blocking`: also grant steps that the controller believes will block (probe with a short time-out).
fn run_controlled(w: usize, n: usize, sched: &[String], blocking: bool, drain: bool) -> Value {
    let ctl = Ctl::new(Mode::Controlled, w, 0, 0.0);
    let c2 = ctl.clone();
    install(Some(Arc::new(move |t, p, i, k| on_point(&c2, t, p, i, k))));
    let src = Src { next: 0, n, ctl: ctl.clone() };
    let pipe = src.pipe(make_pipeline(&ctl, None, false), w as u8);
    quiet_panics();
    // consumer thread
    let cc = ctl.clone();
    std::thread::spawn(move || {
        let mut pipe = Some(pipe);
        loop {
            let cmd = {
                let mut g = cc.m.lock().unwrap();
                while g.cons_cmd.is_none() {
                    g = cc.cv.wait(g).unwrap();
                }
                g.cons_cmd.unwrap()
            };
            let mut fin = false;
            match cmd {
                'c' => {
                    let r = pipe.as_mut().unwrap().next();
                    let mut g = cc.m.lock().unwrap();
                    match r {
                        Some(x) => {
                            g.recvs += 1;
                            g.log.push(json!({"e": "Recv", "w": 0, "x": x, "k": true}))
                        }
                        None => {
                            g.log.push(json!({"e": "End", "w": 0, "x": 0, "k": true}));
                            fin = true;
                        }
                    }
                }
                _ => {
                    {
                        let mut g = cc.m.lock().unwrap();
                        g.log.push(json!({"e": "Drop", "w": 0, "x": 0, "k": true}));
                        g.closed = true;
                    }
                    drop(pipe.take());
                    fin = true;
                }
            }
            let mut g = cc.m.lock().unwrap();
            g.cons_cmd = None;
            g.cons_done_cmds += 1;
            if fin {
                g.cons_finished = true;
            }
            cc.cv.notify_all();
            if fin {
                if cmd == 'c' {
                    drop(g);
                    drop(pipe.take());
                }
                return;
            }
        }
    });

    let mut acts: Vec<String> = vec![];
    let mut stuck = false;
    let mut inflight: Vec<bool> = vec![false; w + 1];
    let mut cons_inflight = false;

    // wait until all workers are parked at the loop top
    {
        let mut g = ctl.m.lock().unwrap();
        let mut t0 = Budget::now();
        while (1..=w).any(|k| g.parked[k].is_none() && !g.exited[k]) {
            let (g2, to) = ctl.cv.wait_timeout(g, Duration::from_millis(100)).unwrap();
            g = g2;
            if to.timed_out() && t0.elapsed() > STEP_TIMEOUT {
                g.log.push(json!({"e": "Stuck", "w": 0, "x": 0, "k": false}));
                stuck = true;
                break;
            }
        }
    }

    // one step of an actor; returns the action label or None if not runnable
    let mut step = |tok: &str, acts: &mut Vec<String>, force: bool| -> bool {
        let mut g = ctl.m.lock().unwrap();
        if tok == "c" || tok == "x" {
            if g.cons_finished {
                return false;
            }
            if cons_inflight {
                // a blocked recv: see whether it has completed meanwhile
                if g.cons_cmd.is_none() {
                    cons_inflight = false;
                } else {
                    return false;
                }
            }
            let would_block = tok == "c" && g.sends_ok == g.recvs && !(1..=w).all(|k| g.exited[k]);
            if would_block && !force {
                return false;
            }
            let before = g.cons_done_cmds;
            let log_before = g.log.len();
            g.cons_cmd = Some(if tok == "c" { 'c' } else { 'x' });
            ctl.cv.notify_all();
            let mut t0 = Budget::now();
            let limit = if would_block { BLOCK_PROBE } else { STEP_TIMEOUT };
            while g.cons_done_cmds == before {
                let (g2, _) = ctl.cv.wait_timeout(g, Duration::from_millis(5)).unwrap();
                g = g2;
                if t0.elapsed() > limit {
                    cons_inflight = true;
                    if !would_block {
                        g.log.push(json!({"e": "Stuck", "w": 0, "x": 0, "k": false}));
                    }
                    acts.push("RecvBlocked".to_string());
                    return true;
                }
            }
            let label = g.log[log_before..]
                .iter()
                .rev()
                .find(|e| matches!(e["e"].as_str(), Some("Recv") | Some("End") | Some("Drop")))
                .map(|e| e["e"].as_str().unwrap().to_string())
                .unwrap_or_else(|| "?".to_string());
            acts.push(label);
            return true;
        }
        let k: usize = tok[1..].parse().expect("worker token");
        if k == 0 || k > w || g.exited[k] {
            return false;
        }
        if inflight[k] {
            if g.parked[k].is_some() && !g.grant[k] {
                inflight[k] = false;
            } else {
                return false;
            }
        }
        let Some(at) = g.parked[k] else {
            return false;
        };
        let chan_len = g.sends_ok - g.recvs.min(g.sends_ok);
        let would_block = at == Point::BeforeSend && !g.closed && chan_len >= w;
        if would_block && !force {
            return false;
        }
        let before = g.arrivals[k];
        g.grant[k] = true;
        ctl.cv.notify_all();
        let mut t0 = Budget::now();
        let limit = if would_block { BLOCK_PROBE } else { STEP_TIMEOUT };
        while g.arrivals[k] == before {
            let (g2, _) = ctl.cv.wait_timeout(g, Duration::from_millis(5)).unwrap();
            g = g2;
            if t0.elapsed() > limit {
                inflight[k] = true;
                if !would_block {
                    g.log.push(json!({"e": "Stuck", "w": k, "x": 0, "k": false}));
                }
                acts.push(format!("Blocked({k})"));
                return true;
            }
        }
        let now = if g.exited[k] { Point::Exit } else { g.parked[k].unwrap_or(Point::Exit) };
        let label = match (at, now) {
            (Point::LoopTop, _) => "Take",
            (Point::AfterTake, _) => "Compute",
            (Point::AfterCompute, Point::Spin) | (Point::Spin, Point::Spin) => "Spin",
            (Point::AfterCompute, _) | (Point::Spin, _) => "SpinOk",
            (Point::BeforeSend, _) => "Send",
            (Point::AfterSend, _) => "Advance",
            _ => "?",
        };
        acts.push(format!("{label}({k})"));
        true
    };

    let mut executed: Vec<String> = vec![];
    if !stuck {
        for tok in sched {
            if step(tok, &mut acts, blocking) {
                executed.push(tok.clone());
            }
        }
        if drain {
            // drain: round-robin until everything ended (bounded)
            let cap = 60 * (n + w + 2) * (w + 1);
            let mut steps = 0;
            let mut idle_rounds = 0;
            loop {
                let (fin, allx) = {
                    let g = ctl.m.lock().unwrap();
                    (g.cons_finished, (1..=w).all(|k| g.exited[k]))
                };
                if fin && allx {
                    break;
                }
                let mut any = false;
                for k in 1..=w {
                    if step(&format!("w{k}"), &mut acts, false) {
                        executed.push(format!("w{k}"));
                        any = true;
                        steps += 1;
                    }
                }
                if !fin && step("c", &mut acts, false) {
                    executed.push("c".to_string());
                    any = true;
                    steps += 1;
                }
                if !any {
                    idle_rounds += 1;
                    // blocked actors may complete on their own
                    std::thread::sleep(Duration::from_millis(2));
                    if idle_rounds > 3 {
                        // last resort: forced grants (only reached by non-conforming code)
                        let mut forced = false;
                        for k in 1..=w {
                            if step(&format!("w{k}"), &mut acts, true) {
                                forced = true;
                            }
                        }
                        if !fin && step("c", &mut acts, true) {
                            forced = true;
                        }
                        if !forced && idle_rounds > 200 {
                            ctl.ev(json!({"e": "Stuck", "w": 0, "x": 1, "k": false}));
                            break;
                        }
                    }
                } else {
                    idle_rounds = 0;
                }
                if steps > cap {
                    ctl.ev(json!({"e": "Stuck", "w": 0, "x": 2, "k": false}));
                    break;
                }
            }
            // the upstream wrapper is dropped when the last worker is gone
            let mut g = ctl.m.lock().unwrap();
            let mut t0 = Budget::now();
            while !g.all_exited && t0.elapsed() < STEP_TIMEOUT {
                let (g2, _) = ctl.cv.wait_timeout(g, Duration::from_millis(5)).unwrap();
                g = g2;
            }
        }
    }
    install(None);
    let g = ctl.m.lock().unwrap();
    json!({"st": "ok", "mode": "controlled", "W": w, "N": n, "cap": w, "ev": g.log.clone(),
           "acts": acts, "sched": executed, "drained": drain})
}

/// Free-running run: no controller; random per-item delays and yields at the hook
/// points, a consumer that is sometimes slow, optional drop after `drop_after` items.
fn run_free(w: usize, n: usize, seed: u64, drop_after: Option<usize>, slow: f64, slow_item: Option<(usize, u64)>, idle_ms: u64) -> Value {
    let ctl = Ctl::new(Mode::Free, w, seed, 0.4);
    let c2 = ctl.clone();
    install(Some(Arc::new(move |t, p, i, k| on_point(&c2, t, p, i, k))));
    let src = Src { next: 0, n, ctl: ctl.clone() };
    let mut pipe = src.pipe(make_pipeline_slow(&ctl, None, true, slow_item), w as u8);
    quiet_panics();
    let mut rng = ChaCha8Rng::seed_from_u64(seed ^ 0x5eed);
    let mut got = 0usize;
    let mut dropped = false;
    loop {
        if Some(got) == drop_after {
            // an idle consumer first: let the workers run ahead as far as they can
            std::thread::sleep(Duration::from_millis(idle_ms));
            ctl.ev(json!({"e": "Drop", "w": 0, "x": 0, "k": true}));
            dropped = true;
            break;
        }
        if rng.random::<f64>() < slow {
            std::thread::sleep(Duration::from_micros(rng.random_range(50..1500)));
        }
        match pipe.next() {
            Some(x) => {
                ctl.ev(json!({"e": "Recv", "w": 0, "x": x, "k": true}));
                got += 1;
            }
            None => {
                ctl.ev(json!({"e": "End", "w": 0, "x": 0, "k": true}));
                break;
            }
        }
    }
    drop(pipe);
    let _ = dropped;
    // exit signal: the upstream wrapper is dropped when the last worker ends
    {
        let mut g = ctl.m.lock().unwrap();
        let mut t0 = Budget::now();
        while !g.all_exited && w > 0 {
            let (g2, _) = ctl.cv.wait_timeout(g, Duration::from_millis(10)).unwrap();
            g = g2;
            if t0.elapsed() > Duration::from_secs(10 + slow_item.map(|s| s.1 / 1000).unwrap_or(0)) {
                g.log.push(json!({"e": "Stuck", "w": 0, "x": 3, "k": false}));
                break;
            }
        }
    }
    install(None);
    let g = ctl.m.lock().unwrap();
    json!({"st": "ok", "mode": "free", "W": w, "N": n, "cap": w, "ev": g.log.clone(),
           "acts": [], "sched": [], "seed": seed, "drained": true})
}

/// Tens of thousands of items through a pipe without hooks and without an event log (positions and counters beyond 16
/// bits): the output as maximal runs of consecutive values, the number of calls of the processing function and of
/// distinct items it was called for.
fn run_bulk(w: usize, n: usize, case: &Value) -> Value {
    install(None);
    let calls = Arc::new(std::sync::atomic::AtomicUsize::new(0));
    let seen: Arc<Vec<std::sync::atomic::AtomicBool>> = Arc::new((0..n).map(|_| std::sync::atomic::AtomicBool::new(false)).collect());
    let (c2, s2) = (calls.clone(), seen.clone());
    let f: Pipeline<usize, usize> = Arc::new(move |x: usize| {
        c2.fetch_add(1, std::sync::atomic::Ordering::SeqCst);
        if x < s2.len() {
            s2[x].store(true, std::sync::atomic::Ordering::SeqCst);
        }
        x
    });
    let (tx, rx) = std::sync::mpsc::channel();
    std::thread::spawn(move || {
        let pipe = (0..n).pipe(f, w as u8);
        quiet_panics();
        let mut runs: Vec<(usize, usize)> = vec![];
        for x in pipe {
            match runs.last_mut() {
                Some((a, l)) if *a + *l == x => *l += 1,
                _ => runs.push((x, 1)),
            }
            if runs.len() > 1000 {
                break;
            }
        }
        let _ = tx.send(runs);
    });
    match recv_budget(&rx, Duration::from_secs(60)) {
        Ok(runs) => json!({"st": "ok", "mode": "bulk", "W": w, "N": n, "cap": w, "ended": true,
                           "runs": runs.iter().map(|(a, l)| json!([a, l])).collect::<Vec<_>>(),
                           "calls": calls.load(std::sync::atomic::Ordering::SeqCst),
                           "distinct": seen.iter().filter(|b| b.load(std::sync::atomic::Ordering::SeqCst)).count(),
                           "ev": [], "acts": [], "sched": [], "path": [], "drained": true}),
        Err(_) => json!({"st": "hang", "case": case.clone()}),
    }
}

/// Runs in which the controller gave up waiting (each costs STEP_TIMEOUT and, on a wedged pipe,
/// leaves spinning threads behind).  After a few of them the verdict is settled: stop running.
static STUCK_RUNS: std::sync::atomic::AtomicUsize = std::sync::atomic::AtomicUsize::new(0);
const STUCK_CUTOFF: usize = 6;

fn stuck_cutoff(case: &Value) -> Option<Vec<Value>> {
    if STUCK_RUNS.load(std::sync::atomic::Ordering::SeqCst) >= STUCK_CUTOFF {
        return Some(vec![json!({"st": "notrun", "case": case.clone()})]);
    }
    None
}

fn note_stuck(r: &Value) {
    let stuck = r["ev"].as_array().map(|a| a.iter().any(|e| e["e"] == "Stuck")).unwrap_or(false);
    if stuck {
        STUCK_RUNS.fetch_add(1, std::sync::atomic::Ordering::SeqCst);
    }
}

/// Several pipes alive at the same time in one process (side by side, or one feeding the other): every pipe on its own
/// is a sequential map.  No schedule hooks here (their events carry no pipe identity): one record per pipe with the
/// upstream pulls, the processing calls and what the consumer received.
fn run_multi(w: usize, n: usize, npipes: usize, nested: bool, seed: u64) -> Vec<Value> {
    install(None);
    let ctls: Vec<Arc<Ctl>> = (0..npipes).map(|k| Ctl::new(Mode::Free, w, seed + k as u64, 0.3)).collect();
    let mk = |ctl: &Arc<Ctl>| -> Pipeline<usize, usize> {
        let c = ctl.clone();
        Arc::new(move |x: usize| {
            c.ev(json!({"e": "Call", "w": 0, "x": x, "k": true}));
            jitter(&c, 1);
            x
        })
    };
    let (dtx, drx) = std::sync::mpsc::channel::<()>();
    let ctls2 = ctls.clone();
    let pipelines: Vec<Pipeline<usize, usize>> = ctls.iter().map(mk).collect();
    std::thread::spawn(move || {
        if nested {
            // pipe 0 feeds pipe 1 feeds ...: only the outermost is consumed here, the inner ones by the outer workers
            let src = Src { next: 0, n, ctl: ctls2[0].clone() };
            let mut it: Box<dyn Iterator<Item = usize> + Send> = Box::new(src.pipe(pipelines[0].clone(), w as u8));
            for k in 1..npipes {
                let c = ctls2[k - 1].clone();
                let inner = it.inspect(move |x| c.ev(json!({"e": "Recv", "w": 0, "x": *x, "k": true})));
                let ck = ctls2[k].clone();
                // the upstream of pipe k is the output of pipe k-1: its pulls are logged as pulls of pipe k
                let mut cnt = 0usize;
                let up = inner.inspect(move |_| { ck.ev(json!({"e": "Pull", "w": 0, "x": cnt, "k": true})); cnt += 1; });
                it = Box::new(up.pipe(pipelines[k].clone(), w as u8));
            }
            quiet_panics();
            let last = ctls2[npipes - 1].clone();
            for x in it {
                last.ev(json!({"e": "Recv", "w": 0, "x": x, "k": true}));
            }
            for c in &ctls2 {
                c.ev(json!({"e": "End", "w": 0, "x": 0, "k": true}));
            }
        } else {
            let mut pipes: Vec<_> = ctls2.iter().zip(&pipelines).map(|(c, p)| Some(Src { next: 0, n, ctl: c.clone() }.pipe(p.clone(), w as u8))).collect();
            quiet_panics();
            let mut live = npipes;
            while live > 0 {
                for k in 0..npipes {
                    if let Some(p) = pipes[k].as_mut() {
                        match p.next() {
                            Some(x) => ctls2[k].ev(json!({"e": "Recv", "w": 0, "x": x, "k": true})),
                            None => {
                                ctls2[k].ev(json!({"e": "End", "w": 0, "x": 0, "k": true}));
                                pipes[k] = None;
                                live -= 1;
                            }
                        }
                    }
                }
            }
        }
        let _ = dtx.send(());
    });
    let finished = recv_budget(&drx, Duration::from_secs(20)).is_ok();
    // the upstream wrappers are dropped when the last worker of their pipe ends
    let mut t0 = Budget::now();
    while finished && t0.elapsed() < Duration::from_secs(5) && !ctls.iter().all(|c| nested || c.m.lock().unwrap().all_exited) {
        std::thread::sleep(Duration::from_millis(5));
    }
    ctls.iter()
        .enumerate()
        .map(|(k, c)| {
            let mut g = c.m.lock().unwrap();
            if !finished {
                g.log.push(json!({"e": "Stuck", "w": 0, "x": 8, "k": false}));
            }
            // nested: the inner sources are owned by worker threads of the outer pipes; their exit is not observed here
            if nested && finished && !g.all_exited {
                g.log.push(json!({"e": "AllExited", "w": 0, "x": 0, "k": true}));
            }
            json!({"st": "ok", "mode": "free", "W": w, "N": n, "cap": w, "ev": g.log.clone(), "acts": [], "sched": [], "seed": seed,
                   "drained": true, "multi": k, "path": []})
        })
        .collect()
}

pub fn exec(case: &Value) -> Vec<Value> {
    if let Some(r) = stuck_cutoff(case) {
        return r;
    }
    if get_str(case, "mode") == "multi" {
        let mut rs = run_multi(get_u(case, "W"), get_u(case, "N"), get_u(case, "pipes").max(2), get_bool(case, "nested"),
                               case.get("seed").and_then(|x| x.as_u64()).unwrap_or(0));
        for r in rs.iter_mut() {
            note_stuck(r);
            r["case"] = case.clone();
        }
        return rs;
    }
    let w = get_u(case, "W");
    let n = get_u(case, "N");
    let mode = get_str(case, "mode");
    if mode == "bulk" {
        return vec![run_bulk(w, n, case)];
    }
    let mut r = if mode == "free" {
        let d = case.get("drop_after").and_then(|x| x.as_u64()).map(|x| x as usize);
        let slow = case.get("slow").and_then(|x| x.as_f64()).unwrap_or(0.2);
        let slow_item = case.get("slow_item").and_then(|x| x.as_u64()).map(|k| (k as usize, case.get("slow_ms").and_then(|x| x.as_u64()).unwrap_or(6500)));
        let idle_ms = case.get("idle_ms").and_then(|x| x.as_u64()).unwrap_or(3);
        // a processing function that needs `deep_kib` KiB of stack (well below the default thread stack of 2 MiB)
        DEEP_KIB.store(get_u(case, "deep_kib"), std::sync::atomic::Ordering::SeqCst);
        let r = run_free(w, n, case.get("seed").and_then(|x| x.as_u64()).unwrap_or(0), d, slow, slow_item, idle_ms);
        DEEP_KIB.store(0, std::sync::atomic::Ordering::SeqCst);
        r
    } else {
        let sched: Vec<String> = case["sched"]
            .as_array()
            .map(|a| a.iter().map(|x| x.as_str().unwrap().to_string()).collect())
            .unwrap_or_default();
        let drain = case.get("drain").and_then(|x| x.as_bool()).unwrap_or(true);
        run_controlled(w, n, &sched, get_bool(case, "blocking"), drain)
    };
    note_stuck(&r);
    r["case"] = case.clone();
    if let Some(p) = case.get("path") {
        r["path"] = p.clone();
    } else {
        r["path"] = json!([]);
    }
    vec![r]
}

/// Random actor-sequence schedules (controlled) and free-running configurations.
pub fn gen(seed: u64, n: usize) -> Vec<Value> {
    let mut rng = ChaCha8Rng::seed_from_u64(seed);
    let mut out = vec![];
    for i in 0..n {
        let w = rng.random_range(1..=4usize);
        let nn = rng.random_range(0..=8usize);
        if i % 5 == 4 {
            // free-running
            let drop_after = if rng.random_bool(0.4) { Some(rng.random_range(0..=nn.min(10))) } else { None };
            let big = if rng.random_bool(0.5) { rng.random_range(10..=40usize) } else { nn };
            out.push(json!({"mode": "free", "W": w, "N": big, "seed": rng.random::<u32>(),
                            "drop_after": drop_after, "slow": if rng.random_bool(0.5) { 0.8 } else { 0.1 }}));
            continue;
        }
        let len = rng.random_range(0..(8 * (nn + 2)));
        let p_cons = [0.05, 0.2, 0.5][rng.random_range(0..3)];
        let p_drop = if rng.random_bool(0.5) { 0.03 } else { 0.0 };
        let mut sched = vec![];
        for _ in 0..len {
            let x: f64 = rng.random();
            if x < p_drop {
                sched.push("x".to_string());
            } else if x < p_drop + p_cons {
                sched.push("c".to_string());
            } else {
                sched.push(format!("w{}", rng.random_range(1..=w)));
            }
        }
        out.push(json!({"mode": "controlled", "W": w, "N": nn, "sched": sched,
                        "blocking": rng.random_bool(0.3), "drain": true}));
    }
    out
}

/// Child process for the panic clause of C09: builds a real pipe whose processing
/// function panics at item `fail`, consumes everything.  The library's panic hook
/// is left in place.  Prints what it saw; the parent judges exit/hang.
pub fn child_panic(w: usize, n: usize, fail: usize, delay_ms: u64, prior: u64) -> ! {
    if prior >= 1 {
        // an earlier pipe of the same process runs to completion first (its workers all find their upstream exhausted)
        let c0 = Ctl::new(Mode::Free, w, 2, 0.0);
        let src0 = Src { next: 0, n: 3, ctl: c0.clone() };
        let got0 = src0.pipe(make_pipeline(&c0, None, false), w as u8).count();
        println!("prior stream ended after {got0} items");
    }
    if prior >= 2 {
        // between the two pipes another part of the library takes the process-wide panic hook: train_bpe installs its
        // own (printing) hook.  The pipe built afterwards must end the process on a panic all the same.
        let dir = std::env::temp_dir().join(format!("tuverif-hook-{}", std::process::id()));
        let _ = std::fs::create_dir_all(&dir);
        let inp = dir.join("c.txt");
        std::fs::write(&inp, "ab ab ab\n").unwrap();
        let r = text_utils::tokenization::train_bpe(&[&inp], 320, 63, &dir.join("m.bin"), None, None, 0, false);
        println!("train_bpe in between: {}", r.is_ok());
        let _ = std::fs::remove_dir_all(&dir);
    }
    // prior = 4: an older pipe that is still alive when the failing one is built and is dropped before it (partly consumed)
    let mut older = if prior == 4 {
        let c4 = Ctl::new(Mode::Free, 2, 5, 0.0);
        let src4 = Src { next: 0, n: 50, ctl: c4.clone() };
        let mut p4 = src4.pipe(make_pipeline(&c4, None, false), 2);
        let _ = p4.next();
        Some(p4)
    } else {
        None
    };
    let ctl = Ctl::new(Mode::Free, w, 1, 0.0);
    let src = Src { next: 0, n, ctl: ctl.clone() };
    let c = ctl.clone();
    // the failing item takes `delay_ms` before it panics, so that the other workers get ahead of it
    let pipeline: Pipeline<usize, usize> = Arc::new(move |x: usize| {
        c.ev(json!({"e": "Call", "w": 0, "x": x, "k": true}));
        if x == fail {
            std::thread::sleep(Duration::from_millis(delay_ms));
            panic!("verif: injected processing failure at item {x}");
        }
        x
    });
    let mut pipe = src.pipe(pipeline, w as u8);
    let mut got = 0;
    if let Some(p4) = older.take() {
        drop(p4);
        println!("older pipe dropped first");
    }
    if prior == 3 {
        // a later, smaller pipe while this one is alive: the items in flight must stay below the failing one
        // (look-ahead is at most channel + workers), i.e. fail > 2 w + 2 is expected from the caller
        if pipe.next().is_some() {
            got += 1;
        }
        let c1 = Ctl::new(Mode::Free, 1, 3, 0.0);
        let src1 = Src { next: 0, n: 3, ctl: c1.clone() };
        let got1 = src1.pipe(make_pipeline(&c1, None, false), 1).count();
        println!("later one-thread stream ended after {got1} items");
    }
    for _ in pipe {
        got += 1;
    }
    // the consumer got to the end of the stream although an item's processing function panicked: the process was not
    // ended by the panic (the stream is silently cut short)
    println!("stream ended after {got} items");
    std::process::exit(42)
}

// ---------------------------------------------------------------------------
// Buffered (C09): background producer thread + bounded / rendezvous channel.
// No library hook is needed: the upstream iterator is the schedule point.
//
// Events: PullReq (producer entered next()), Pull{x,k} (next() returned item x / exhausted),
//         Recv{x} / End / Drop (consumer), ProducerExited (upstream iterator dropped), Stuck.

struct BInner {
    log: Vec<Value>,
    req: u64,      // number of times the producer arrived at next()
    grants: u64,   // number of pulls granted
    exited: bool,
    pulls: usize,
    kill: bool, // verdict reached: end a runaway producer
}

struct BCtl {
    free: bool,
    m: Mutex<BInner>,
    cv: Condvar,
}

struct BSrc {
    next: usize,
    n: usize,
    ctl: Arc<BCtl>,
}

impl Iterator for BSrc {
    type Item = usize;
    fn next(&mut self) -> Option<usize> {
        let mut g = self.ctl.m.lock().unwrap();
        if !self.ctl.free {
            g.log.push(json!({"e": "PullReq", "w": 0, "x": self.next, "k": true}));
            g.req += 1;
            self.ctl.cv.notify_all();
            while g.grants < g.req {
                g = self.ctl.cv.wait(g).unwrap();
            }
        }
        if g.kill {
            return None;
        }
        if self.next < self.n {
            let x = self.next;
            self.next += 1;
            g.pulls += 1;
            if g.log.len() < 2000 {
                g.log.push(json!({"e": "Pull", "w": 0, "x": x, "k": true}));
            }
            Some(x)
        } else {
            g.log.push(json!({"e": "Pull", "w": 0, "x": self.next, "k": false}));
            None
        }
    }
}

impl Drop for BSrc {
    fn drop(&mut self) {
        let mut g = self.ctl.m.lock().unwrap();
        g.log.push(json!({"e": "ProducerExited", "w": 0, "x": 0, "k": true}));
        g.exited = true;
        self.ctl.cv.notify_all();
    }
}

fn run_buffered_controlled(cap: usize, n: usize, sched: &[String], blocking: bool) -> Value {
    use text_utils::data::loading::BufferedIterator;
    let ctl = Arc::new(BCtl {
        free: false,
        m: Mutex::new(BInner { log: vec![], req: 0, grants: 0, exited: false, pulls: 0, kill: false }),
        cv: Condvar::new(),
    });
    let src = BSrc { next: 0, n, ctl: ctl.clone() };
    let mut buf = Some(src.buffered(cap));
    // controller's model of the channel
    let mut sent = 0usize; // sends believed completed
    let mut recvd = 0usize;
    let mut holding = false; // producer holds an item whose send has not completed
    let cons_fin = Cell::new(false);
    let mut closed = false;
    let mut acts: Vec<String> = vec![];
    let mut executed: Vec<String> = vec![];

    // wait for a producer arrival (next PullReq) or exit
    let wait_arrival = |want_req: u64, limit: Duration| -> bool {
        let mut g = ctl.m.lock().unwrap();
        let mut t0 = Budget::now();
        while g.req < want_req && !g.exited {
            let (g2, _) = ctl.cv.wait_timeout(g, Duration::from_millis(5)).unwrap();
            g = g2;
            if t0.elapsed() > limit {
                return false;
            }
        }
        true
    };
    let mut stuck = !wait_arrival(1, STEP_TIMEOUT);
    if stuck {
        ctl.m.lock().unwrap().log.push(json!({"e": "Stuck", "w": 0, "x": 0, "k": false}));
    }

    let mut step = |tok: &str, force: bool, buf: &mut Option<text_utils::data::loading::Buffered<usize>>| -> bool {
        match tok {
            "p" => {
                let (req, grants, exited) = {
                    let g = ctl.m.lock().unwrap();
                    (g.req, g.grants, g.exited)
                };
                if exited || req == grants {
                    return false; // producer gone, or still inside send()
                }
                {
                    let mut g = ctl.m.lock().unwrap();
                    g.grants += 1;
                    ctl.cv.notify_all();
                }
                let exhausted = (sent + if holding { 1 } else { 0 }) >= n;
                if exhausted {
                    // next() returns None, the producer thread ends
                    if !wait_arrival(u64::MAX, STEP_TIMEOUT) {
                        ctl.m.lock().unwrap().log.push(json!({"e": "Stuck", "w": 1, "x": 1, "k": false}));
                    }
                    acts.push("PullNone".into());
                    return true;
                }
                // the producer now holds an item and calls send()
                let room = closed || (cap > 0 && sent - recvd < cap);
                if room {
                    if !closed {
                        sent += 1;
                    }
                    if !wait_arrival(req + 1, STEP_TIMEOUT) {
                        ctl.m.lock().unwrap().log.push(json!({"e": "Stuck", "w": 1, "x": 2, "k": false}));
                    }
                } else {
                    holding = true;
                }
                acts.push("Pull".into());
                true
            }
            "c" => {
                if cons_fin.get() {
                    return false;
                }
                let exited = ctl.m.lock().unwrap().exited;
                let available = sent > recvd || holding || exited;
                if !available && !force {
                    return false;
                }
                if !available {
                    // would block forever on conforming code: never forced into
                    return false;
                }
                let req = ctl.m.lock().unwrap().req;
                let r = buf.as_mut().unwrap().next();
                match r {
                    Some(x) => {
                        ctl.m.lock().unwrap().log.push(json!({"e": "Recv", "w": 0, "x": x, "k": true}));
                        recvd += 1;
                        if holding {
                            // the blocked send completes (directly, or into the freed slot)
                            holding = false;
                            sent += 1;
                            if !wait_arrival(req + 1, STEP_TIMEOUT) {
                                ctl.m.lock().unwrap().log.push(json!({"e": "Stuck", "w": 1, "x": 3, "k": false}));
                            }
                        }
                        acts.push("Recv".into());
                    }
                    None => {
                        ctl.m.lock().unwrap().log.push(json!({"e": "End", "w": 0, "x": 0, "k": true}));
                        cons_fin.set(true);
                        acts.push("End".into());
                    }
                }
                true
            }
            _ => {
                if cons_fin.get() {
                    return false;
                }
                let req = ctl.m.lock().unwrap().req;
                ctl.m.lock().unwrap().log.push(json!({"e": "Drop", "w": 0, "x": 0, "k": true}));
                drop(buf.take());
                cons_fin.set(true);
                closed = true;
                if holding {
                    // the blocked send fails; the producer either exits or asks for the next item
                    holding = false;
                    if !wait_arrival(req + 1, STEP_TIMEOUT) {
                        ctl.m.lock().unwrap().log.push(json!({"e": "Stuck", "w": 1, "x": 4, "k": false}));
                    }
                }
                acts.push("Drop".into());
                true
            }
        }
    };
    let _ = blocking;
    if !stuck {
        for tok in sched {
            if step(tok, false, &mut buf) {
                executed.push(tok.clone());
            }
        }
        // drain
        let cap_steps = 20 * (n + 4);
        let mut steps = 0;
        loop {
            let exited = ctl.m.lock().unwrap().exited;
            if cons_fin.get() && exited {
                break;
            }
            let mut any = false;
            if step("p", false, &mut buf) {
                executed.push("p".into());
                any = true;
            }
            if !cons_fin.get() && step("c", false, &mut buf) {
                executed.push("c".into());
                any = true;
            }
            steps += 1;
            if !any {
                std::thread::sleep(Duration::from_millis(2));
            }
            if steps > cap_steps {
                ctl.m.lock().unwrap().log.push(json!({"e": "Stuck", "w": 0, "x": 5, "k": false}));
                stuck = true;
                break;
            }
        }
    }
    let _ = stuck;
    let g = ctl.m.lock().unwrap();
    json!({"st": "ok", "mode": "buffered", "ctl": "controlled", "W": 1, "N": n, "cap": cap, "ev": g.log.clone(),
           "acts": acts, "sched": executed, "drained": true, "path": []})
}

/// Free-running Buffered run; `n` may be "effectively unbounded".
fn run_buffered_free(cap: usize, n: usize, seed: u64, drop_after: Option<usize>, slow: f64) -> Value {
    use text_utils::data::loading::BufferedIterator;
    let ctl = Arc::new(BCtl {
        free: true,
        m: Mutex::new(BInner { log: vec![], req: 0, grants: 0, exited: false, pulls: 0, kill: false }),
        cv: Condvar::new(),
    });
    let src = BSrc { next: 0, n, ctl: ctl.clone() };
    let mut buf = src.buffered(cap);
    let mut rng = ChaCha8Rng::seed_from_u64(seed);
    let mut got = 0usize;
    let mut dropped = false;
    loop {
        if Some(got) == drop_after {
            std::thread::sleep(Duration::from_millis(3));
            dropped = true;
            break;
        }
        if rng.random::<f64>() < slow {
            std::thread::sleep(Duration::from_micros(rng.random_range(50..1500)));
        }
        match buf.next() {
            Some(x) => {
                ctl.m.lock().unwrap().log.push(json!({"e": "Recv", "w": 0, "x": x, "k": true}));
                got += 1;
            }
            None => {
                ctl.m.lock().unwrap().log.push(json!({"e": "End", "w": 0, "x": 0, "k": true}));
                break;
            }
        }
    }
    drop(buf);
    if dropped {
        // logged after the real drop: pulls in between count as "before", which only weakens the check
        ctl.m.lock().unwrap().log.push(json!({"e": "Drop", "w": 0, "x": 0, "k": true}));
    }
    // deterministic exit signal: the upstream iterator is dropped when the producer thread ends
    let mut stuck_pulls = (0usize, 0usize);
    {
        let mut g = ctl.m.lock().unwrap();
        let mut t0 = Budget::now();
        while !g.exited {
            let (g2, _) = ctl.cv.wait_timeout(g, Duration::from_millis(10)).unwrap();
            g = g2;
            if t0.elapsed() > Duration::from_secs(3) {
                let p1 = g.pulls;
                drop(g);
                std::thread::sleep(Duration::from_millis(100));
                g = ctl.m.lock().unwrap();
                stuck_pulls = (p1, g.pulls);
                // keep the log small: the pull events of a runaway producer are summarised
                g.log.push(json!({"e": "Stuck", "w": 0, "x": 6, "k": false}));
                g.kill = true;
                break;
            }
        }
    }
    let g = ctl.m.lock().unwrap();
    // a runaway producer logs millions of pulls: keep the first 200 events and the counts
    let total_pulls = g.pulls;
    let mut ev: Vec<Value> = g.log.iter().take(400).cloned().collect();
    if g.log.len() > 400 {
        ev.push(json!({"e": "Stuck", "w": 0, "x": 7, "k": false}));
    }
    json!({"st": "ok", "mode": "buffered", "ctl": "free", "W": 1, "N": if n > 1_000_000 { 1_000_000 } else { n },
           "cap": cap, "ev": ev, "acts": [], "sched": [], "drained": true, "path": [], "seed": seed,
           "total_pulls": total_pulls.min(1_000_000_000), "still_pulling": [stuck_pulls.0.min(1_000_000_000), stuck_pulls.1.min(1_000_000_000)]})
}

pub fn exec_buffered(case: &Value) -> Vec<Value> {
    if let Some(r) = stuck_cutoff(case) {
        return r;
    }
    let cap = get_u(case, "cap");
    let n = if get_bool(case, "unbounded") { usize::MAX } else { get_u(case, "N") };
    let mut r = if get_str(case, "ctl") == "free" {
        let d = case.get("drop_after").and_then(|x| x.as_u64()).map(|x| x as usize);
        run_buffered_free(cap, n, case.get("seed").and_then(|x| x.as_u64()).unwrap_or(0), d,
                          case.get("slow").and_then(|x| x.as_f64()).unwrap_or(0.2))
    } else {
        let sched: Vec<String> = case["sched"]
            .as_array()
            .map(|a| a.iter().map(|x| x.as_str().unwrap().to_string()).collect())
            .unwrap_or_default();
        run_buffered_controlled(cap, n, &sched, false)
    };
    note_stuck(&r);
    r["case"] = case.clone();
    if let Some(p) = case.get("path") {
        r["path"] = p.clone();
    }
    vec![r]
}

pub fn gen_buffered(seed: u64, n: usize) -> Vec<Value> {
    let mut rng = ChaCha8Rng::seed_from_u64(seed);
    let mut out = vec![];
    for i in 0..n {
        let cap = [0usize, 1, 2, 3, 16][rng.random_range(0..5)];
        if i % 4 == 3 {
            let unb = rng.random_bool(0.5);
            let nn = rng.random_range(0..60usize);
            let drop_after = if unb || rng.random_bool(0.5) { Some(rng.random_range(0..=10usize)) } else { None };
            out.push(json!({"mode": "buffered", "ctl": "free", "cap": cap, "N": nn, "unbounded": unb,
                            "seed": rng.random::<u32>(), "drop_after": drop_after,
                            "slow": if rng.random_bool(0.5) { 0.8 } else { 0.1 }}));
            continue;
        }
        let nn = rng.random_range(0..=8usize);
        let len = rng.random_range(0..(3 * (nn + 2)));
        let p_drop = if rng.random_bool(0.6) { 0.08 } else { 0.0 };
        let p_cons = [0.2, 0.5, 0.7][rng.random_range(0..3)];
        let sched: Vec<String> = (0..len)
            .map(|_| {
                let x: f64 = rng.random();
                if x < p_drop { "x" } else if x < p_drop + p_cons { "c" } else { "p" }.to_string()
            })
            .collect();
        out.push(json!({"mode": "buffered", "ctl": "controlled", "cap": cap, "N": nn, "sched": sched}));
    }
    out
}
