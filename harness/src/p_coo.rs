//! C17 (second half): token_groups_to_sparse_coo_matrix, padding_mask and
//! Batch<TrainItem>::tensorize on batches of byte-tokenizer outputs.
use crate::common::*;
use rand::prelude::*;
use rand_chacha::ChaCha8Rng;
use serde_json::{json, Value};
use text_utils::data::loading::Tensorize;
use text_utils::data::{TensorizedTrainTaskInput, TrainData, TrainItem, TrainTaskInput};
use text_utils::tokenization::{
    BaseTokenize, padding_mask, token_groups_to_sparse_coo_matrix, ByteGroups, ByteTokenizer, ByteTokenizerConfig, GroupAggregation, Grouping,
    SpecialConfig, TokenGroup, TokenizationInfo, Tokenize,
};

fn groups_json(g: &TokenGroup) -> Value {
    match g {
        TokenGroup::Empty(n) => json!({"t": "e", "n": n, "s": []}),
        TokenGroup::Full(n) => json!({"t": "f", "n": n, "s": []}),
        TokenGroup::Nested(v) => json!({"t": "n", "n": 0, "s": v.iter().map(groups_json).collect::<Vec<_>>()}),
    }
}

pub fn exec(case: &Value) -> Vec<Value> {
    let texts: Vec<String> = if let Some(t) = case.get("texts").and_then(|x| x.as_array()) {
        t.iter().map(|x| x.as_str().unwrap().to_string()).collect()
    } else {
        let al = alphabet("tok");
        case["slots"].as_array().unwrap().iter().map(|t| concretise(t, &al)).collect()
    };
    let mean = get_str(case, "agg") != "sum";
    let cfg = ByteTokenizerConfig {
        use_graphemes: get_bool(case, "g"),
        pad_to_multiple_of: None,
        groups: if get_str(case, "groups") == "code_points" { ByteGroups::CodePoints } else { ByteGroups::Bytes },
        aggregation: if mean { GroupAggregation::Mean } else { GroupAggregation::Sum },
    };
    let special = SpecialConfig {
        pad: "<pad>".into(),
        tokens: vec!["<pad>".into(), "<b>".into(), "<e>".into(), "<p>".into()],
        prefix: if get_bool(case, "prefix") { vec!["<b>".into()] } else { vec![] },
        suffix: if get_bool(case, "suffix") { vec!["<e>".into(), "<e>".into()] } else { vec![] },
    };
    let mut st = "ok".to_string();
    let tok = match guard(|| ByteTokenizer::new(cfg, special)) {
        Ok(Ok(t)) => t,
        _ => return vec![json!({"st": "err:new", "case": case})],
    };
    let mut groupings: Vec<Grouping> = vec![];
    let mut means: Vec<bool> = vec![];
    let mut lengths: Vec<usize> = vec![];
    let mut items: Vec<TrainItem> = vec![];
    let mut idlists: Vec<Vec<u32>> = vec![];
    for (k, t) in texts.iter().enumerate() {
        match guard(|| tok.tokenize(t, false)) {
            Ok(Ok(tk)) => {
                if let TokenizationInfo::TokenGroups(m) = &tk.info {
                    if let Some(g) = m.values().next() {
                        // `mixed`: the batch mixes groupings with sum and with mean aggregation (it starts with the
                        // opposite of the configured one and alternates)
                        let agg = if get_bool(case, "mixed") {
                            if (k % 2 == 0) == mean { GroupAggregation::Sum } else { GroupAggregation::Mean }
                        } else {
                            g.1
                        };
                        means.push(agg == GroupAggregation::Mean);
                        groupings.push((g.0.clone(), agg));
                    }
                }
                lengths.push(tk.token_ids.len());
                // labels: one per token, a recognisable pattern
                let labels: Vec<i32> = (0..tk.token_ids.len().saturating_sub(k % 2)).map(|x| (x % 3) as i32).collect();
                idlists.push(tk.token_ids.clone());
                items.push(TrainItem::new(
                    TrainData::new(t.clone(), None),
                    TrainTaskInput::SequenceClassification { token_ids: tk.token_ids, pad_token_id: tok.pad_token_id(), labels },
                ));
            }
            Ok(Err(e)) => st = format!("err:tokenize:{e}"),
            Err(m) => st = format!("panic:tokenize:{m}"),
        }
    }
    let refs: Vec<&Grouping> = groupings.iter().collect();
    let mut rec = json!({"st": st, "mean": mean, "means": means, "texts": texts, "lengths": lengths, "pad_id": tok.pad_token_id(),
        "groups": groupings.iter().map(|(g, _)| g.iter().map(groups_json).collect::<Vec<_>>()).collect::<Vec<_>>(), "case": case});
    if rec["st"] == "ok" {
        match guard(|| token_groups_to_sparse_coo_matrix(&refs, &lengths)) {
            Ok(Ok(coo)) => {
                let (ind, val, size, gl) = coo.verif_parts();
                let n = val.len();
                rec["coo"] = json!({"b": ind[..n].to_vec(), "g": ind[n..2 * n].to_vec(), "t": ind[2 * n..].to_vec(),
                    "w": val.iter().map(|x| (*x as f64 * 1e6).round() as i64).collect::<Vec<_>>(), "size": size, "gl": gl});
                let mask = padding_mask(&gl);
                rec["mask"] = json!({"rows": mask.nrows(), "cols": mask.ncols(), "v": mask.iter().copied().collect::<Vec<bool>>()});
            }
            Ok(Err(e)) => rec["st"] = json!(format!("err:coo:{e}")),
            Err(m) => rec["st"] = json!(format!("panic:coo:{m}")),
        }
    }
    if rec["st"] == "ok" && !items.is_empty() {
        match guard(|| items.tensorize()) {
            Ok(TensorizedTrainTaskInput::SequenceClassification(ids, lens, labels)) => {
                rec["tensor"] = json!({"rows": ids.nrows(), "cols": ids.ncols(), "ids": ids.iter().copied().collect::<Vec<u32>>(),
                    "lens": lens.iter().copied().collect::<Vec<usize>>(), "lrows": labels.nrows(), "lcols": labels.ncols(),
                    "labels": labels.iter().map(|x| *x + 1).collect::<Vec<i32>>(),
                    "in_ids": idlists, "in_labels": items.iter().map(|i| match &i.input {
                        TrainTaskInput::SequenceClassification { labels, .. } => labels.iter().map(|x| *x + 1).collect::<Vec<i32>>(), _ => vec![] }).collect::<Vec<_>>()});
            }
            Ok(_) => rec["st"] = json!("err:tensorize:wrong variant"),
            Err(m) => rec["st"] = json!(format!("panic:tensorize:{m}")),
        }
        // the other task kinds over the same token ids: generation, classification, conditional generation (the targets
        // are the ids of the next text, reversed, padded with a pad id of their own); every padded matrix is recorded as
        // [name, rows, cols, flat, items, pad, lens]; labels are shifted by one (padding -1 becomes 0)
        let n = idlists.len();
        let lab = |k: usize| -> Vec<i32> { (0..idlists[k].len().saturating_sub(k % 2)).map(|x| (x % 3) as i32).collect() };
        let pad = tok.pad_token_id();
        let tpad = pad + 7;
        let targets: Vec<Vec<u32>> = (0..n).map(|k| idlists[(k + 1) % n].iter().rev().copied().collect()).collect();
        let mut others: Vec<Value> = vec![];
        let m2 = |name: &str, (rows, cols, flat): (usize, usize, Vec<u32>), items: &Vec<Vec<u32>>, pad: u32, lens: Vec<usize>| {
            json!({"name": name, "rows": rows, "cols": cols, "flat": flat, "items": items, "pad": pad, "lens": lens, "has_lens": true})
        };
        let l2 = |name: &str, (rows, cols, flat): (usize, usize, Vec<i32>), items: Vec<Vec<i32>>| {
            json!({"name": name, "rows": rows, "cols": cols, "flat": flat.iter().map(|x| *x + 1).collect::<Vec<i32>>(),
                   "items": items.iter().map(|v| v.iter().map(|x| *x + 1).collect::<Vec<i32>>()).collect::<Vec<_>>(), "pad": 0, "lens": [], "has_lens": false})
        };
        let mk = |f: &dyn Fn(usize) -> TrainTaskInput| -> Vec<TrainItem> {
            (0..n).map(|k| TrainItem::new(TrainData::new(texts[k].clone(), None), f(k))).collect()
        };
        let labs: Vec<Vec<i32>> = (0..n).map(lab).collect();
        match guard(|| mk(&|k| TrainTaskInput::Generation { token_ids: idlists[k].clone(), pad_token_id: pad, labels: lab(k) }).tensorize()) {
            Ok(TensorizedTrainTaskInput::Generation(ids, lens, labels)) => {
                others.push(m2("generation_ids", (ids.nrows(), ids.ncols(), ids.iter().copied().collect()), &idlists, pad, lens.iter().copied().collect()));
                others.push(l2("generation_labels", (labels.nrows(), labels.ncols(), labels.iter().copied().collect()), labs.clone()));
            }
            Ok(_) => rec["st"] = json!("err:tensorize:wrong variant"),
            Err(m) => rec["st"] = json!(format!("panic:tensorize_generation:{m}")),
        }
        match guard(|| mk(&|k| TrainTaskInput::Classification { token_ids: idlists[k].clone(), pad_token_id: pad, label: k as i32 }).tensorize()) {
            Ok(TensorizedTrainTaskInput::Classification(ids, lens, labels)) => {
                others.push(m2("classification_ids", (ids.nrows(), ids.ncols(), ids.iter().copied().collect()), &idlists, pad, lens.iter().copied().collect()));
                if labels.iter().copied().collect::<Vec<i32>>() != (0..n as i32).collect::<Vec<i32>>() {
                    rec["st"] = json!("err:tensorize:classification labels");
                }
            }
            Ok(_) => rec["st"] = json!("err:tensorize:wrong variant"),
            Err(m) => rec["st"] = json!(format!("panic:tensorize_classification:{m}")),
        }
        match guard(|| {
            mk(&|k| TrainTaskInput::ConditionalGeneration { token_ids: idlists[k].clone(), pad_token_id: pad, target_token_ids: targets[k].clone(),
                                                           target_pad_token_id: tpad, labels: lab(k) })
            .tensorize()
        }) {
            Ok(TensorizedTrainTaskInput::ConditionalGeneration(ids, lens, tids, tlens, labels)) => {
                others.push(m2("conditional_ids", (ids.nrows(), ids.ncols(), ids.iter().copied().collect()), &idlists, pad, lens.iter().copied().collect()));
                others.push(m2("conditional_target_ids", (tids.nrows(), tids.ncols(), tids.iter().copied().collect()), &targets, tpad, tlens.iter().copied().collect()));
                others.push(l2("conditional_labels", (labels.nrows(), labels.ncols(), labels.iter().copied().collect()), labs.clone()));
            }
            Ok(_) => rec["st"] = json!("err:tensorize:wrong variant"),
            Err(m) => rec["st"] = json!(format!("panic:tensorize_conditional:{m}")),
        }
        rec["others"] = json!(others);
    } else if rec["st"] == "ok" {
        rec["others"] = json!([]);
        rec["tensor"] = json!({"rows": 0, "cols": 0, "ids": [], "lens": [], "lrows": 0, "lcols": 0, "labels": [], "in_ids": [], "in_labels": []});
    }
    vec![rec]
}

pub fn gen(seed: u64, n: usize) -> Vec<Value> {
    let mut rng = ChaCha8Rng::seed_from_u64(seed);
    // "<pad>": the text itself contains the pad token (its id then also occurs inside an item, not only as padding)
    let pool = ["a", "b", " ", "ä", "e\u{0301}", "€", "😀", "🇩🇪", "<p>", "<", "\r\n", "字", "<pad>", "<e>"];
    (0..n)
        .map(|_| {
            let k = rng.random_range(1..=4);
            // one batch in six is pure ASCII with CR LF, one in eighty has a text of several hundred tokens (lengths and
            // group counts that do not fit into 8 bits) next to short ones
            let ascii = ["a", "b", " ", "\r\n", "\r\n", "\n", "<", "<p>", "<pad>"];
            let pure = rng.random_bool(0.17);
            let mut texts: Vec<String> = (0..k).map(|_| (0..rng.random_range(0..=8)).map(|_| if pure { ascii[rng.random_range(0..ascii.len())] } else { pool[rng.random_range(0..pool.len())] }).collect()).collect();
            if rng.random_bool(0.012) {
                let p = rng.random_range(0..texts.len());
                texts[p] = (0..rng.random_range(260..=330)).map(|_| pool[rng.random_range(0..pool.len())]).collect();
            }
            json!({"texts": texts, "mixed": rng.random_bool(0.3), "g": rng.random_bool(0.5), "groups": if rng.random_bool(0.5) { "bytes" } else { "code_points" },
                   "agg": if rng.random_bool(0.5) { "mean" } else { "sum" }, "prefix": rng.random_bool(0.5), "suffix": rng.random_bool(0.5)})
        })
        .collect()
}
