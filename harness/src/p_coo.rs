//! C17 (second half): token_groups_to_sparse_coo_matrix, padding_mask and
//! Batch<TrainItem>::tensorize on batches of byte-tokenizer outputs.
use crate::common::*;
use rand::prelude::*;
use rand_chacha::ChaCha8Rng;
use serde_json::{json, Value};
use text_utils::data::loading::Tensorize;
use text_utils::data::{TensorizedTrainTaskInput, TrainData, TrainItem, TrainTaskInput};
use text_utils::tokenization::{
    BaseTokenize, padding_mask, token_groups_to_sparse_coo_matrix, ByteGroups, ByteTokenizer, ByteTokenizerConfig, GroupAggregation, Grouping,
    SpecialConfig, TokenGroup, TokenizationInfo, Tokenize,
};

fn groups_json(g: &TokenGroup) -> Value {
    match g {
        TokenGroup::Empty(n) => json!({"t": "e", "n": n, "s": []}),
        TokenGroup::Full(n) => json!({"t": "f", "n": n, "s": []}),
        TokenGroup::Nested(v) => json!({"t": "n", "n": 0, "s": v.iter().map(groups_json).collect::<Vec<_>>()}),
    }
}

pub fn exec(case: &Value) -> Vec<Value> {
    let texts: Vec<String> = if let Some(t) = case.get("texts").and_then(|x| x.as_array()) {
        t.iter().map(|x| x.as_str().unwrap().to_string()).collect()
    } else {
        let al = alphabet("tok");
        case["slots"].as_array().unwrap().iter().map(|t| concretise(t, &al)).collect()
    };
    let mean = get_str(case, "agg") != "sum";
    let cfg = ByteTokenizerConfig {
        use_graphemes: get_bool(case, "g"),
        pad_to_multiple_of: None,
        groups: if get_str(case, "groups") == "code_points" { ByteGroups::CodePoints } else { ByteGroups::Bytes },
        aggregation: if mean { GroupAggregation::Mean } else { GroupAggregation::Sum },
    };
    let special = SpecialConfig {
        pad: "<pad>".into(),
        tokens: vec!["<pad>".into(), "<b>".into(), "<e>".into(), "<p>".into()],
        prefix: if get_bool(case, "prefix") { vec!["<b>".into()] } else { vec![] },
        suffix: if get_bool(case, "suffix") { vec!["<e>".into(), "<e>".into()] } else { vec![] },
    };
    let mut st = "ok".to_string();
    let tok = match guard(|| ByteTokenizer::new(cfg, special)) {
        Ok(Ok(t)) => t,
        _ => return vec![json!({"st": "err:new", "case": case})],
    };
    let mut groupings: Vec<Grouping> = vec![];
    let mut means: Vec<bool> = vec![];
    let mut lengths: Vec<usize> = vec![];
    let mut items: Vec<TrainItem> = vec![];
    let mut idlists: Vec<Vec<u32>> = vec![];
    for (k, t) in texts.iter().enumerate() {
        match guard(|| tok.tokenize(t, false)) {
            Ok(Ok(tk)) => {
                if let TokenizationInfo::TokenGroups(m) = &tk.info {
                    if let Some(g) = m.values().next() {
                        // `mixed`: the batch mixes groupings with sum and with mean aggregation (it starts with the
                        // opposite of the configured one and alternates)
                        let agg = if get_bool(case, "mixed") {
                            if (k % 2 == 0) == mean { GroupAggregation::Sum } else { GroupAggregation::Mean }
                        } else {
                            g.1
                        };
                        means.push(agg == GroupAggregation::Mean);
                        groupings.push((g.0.clone(), agg));
                    }
                }
                lengths.push(tk.token_ids.len());
                // labels: one per token, a recognisable pattern
                let labels: Vec<i32> = (0..tk.token_ids.len().saturating_sub(k % 2)).map(|x| (x % 3) as i32).collect();
                idlists.push(tk.token_ids.clone());
                items.push(TrainItem::new(
                    TrainData::new(t.clone(), None),
                    TrainTaskInput::SequenceClassification { token_ids: tk.token_ids, pad_token_id: tok.pad_token_id(), labels },
                ));
            }
            Ok(Err(e)) => st = format!("err:tokenize:{e}"),
            Err(m) => st = format!("panic:tokenize:{m}"),
        }
    }
    let refs: Vec<&Grouping> = groupings.iter().collect();
    let mut rec = json!({"st": st, "mean": mean, "means": means, "texts": texts, "lengths": lengths, "pad_id": tok.pad_token_id(),
        "groups": groupings.iter().map(|(g, _)| g.iter().map(groups_json).collect::<Vec<_>>()).collect::<Vec<_>>(), "case": case});
    if rec["st"] == "ok" {
        match guard(|| token_groups_to_sparse_coo_matrix(&refs, &lengths)) {
            Ok(Ok(coo)) => {
                let (ind, val, size, gl) = coo.verif_parts();
                let n = val.len();
                rec["coo"] = json!({"b": ind[..n].to_vec(), "g": ind[n..2 * n].to_vec(), "t": ind[2 * n..].to_vec(),
                    "w": val.iter().map(|x| (*x as f64 * 1e6).round() as i64).collect::<Vec<_>>(), "size": size, "gl": gl});
                let mask = padding_mask(&gl);
                rec["mask"] = json!({"rows": mask.nrows(), "cols": mask.ncols(), "v": mask.iter().copied().collect::<Vec<bool>>()});
            }
            Ok(Err(e)) => rec["st"] = json!(format!("err:coo:{e}")),
            Err(m) => rec["st"] = json!(format!("panic:coo:{m}")),
        }
    }
    if rec["st"] == "ok" && !items.is_empty() {
        match guard(|| items.tensorize()) {
            Ok(TensorizedTrainTaskInput::SequenceClassification(ids, lens, labels)) => {
                rec["tensor"] = json!({"rows": ids.nrows(), "cols": ids.ncols(), "ids": ids.iter().copied().collect::<Vec<u32>>(),
                    "lens": lens.iter().copied().collect::<Vec<usize>>(), "lrows": labels.nrows(), "lcols": labels.ncols(),
                    "labels": labels.iter().map(|x| *x + 1).collect::<Vec<i32>>(),
                    "in_ids": idlists, "in_labels": items.iter().map(|i| match &i.input {
                        TrainTaskInput::SequenceClassification { labels, .. } => labels.iter().map(|x| *x + 1).collect::<Vec<i32>>(), _ => vec![] }).collect::<Vec<_>>()});
            }
            Ok(_) => rec["st"] = json!("err:tensorize:wrong variant"),
            Err(m) => rec["st"] = json!(format!("panic:tensorize:{m}")),
        }
    } else if rec["st"] == "ok" {
        rec["tensor"] = json!({"rows": 0, "cols": 0, "ids": [], "lens": [], "lrows": 0, "lcols": 0, "labels": [], "in_ids": [], "in_labels": []});
    }
    vec![rec]
}

pub fn gen(seed: u64, n: usize) -> Vec<Value> {
    let mut rng = ChaCha8Rng::seed_from_u64(seed);
    let pool = ["a", "b", " ", "ä", "e\u{0301}", "€", "😀", "🇩🇪", "<p>", "<", "\r\n", "字"];
    (0..n)
        .map(|_| {
            let k = rng.random_range(1..=4);
            let texts: Vec<String> = (0..k).map(|_| (0..rng.random_range(0..=8)).map(|_| pool[rng.random_range(0..pool.len())]).collect()).collect();
            json!({"texts": texts, "mixed": rng.random_bool(0.3), "g": rng.random_bool(0.5), "groups": if rng.random_bool(0.5) { "bytes" } else { "code_points" },
                   "agg": if rng.random_bool(0.5) { "mean" } else { "sum" }, "prefix": rng.random_bool(0.5), "suffix": rng.random_bool(0.5)})
        })
        .collect()
}
