//! Extension X08: unicode::normalize, the Normalize preprocessing and the JsonDecode preprocessing, public API only.
//! Texts are slot sequences over the closed alphabet of spec/Norm.tla; results go back as slots (99 = a code point
//! outside the alphabet) or, for JSON, as code points.
use crate::common::*;
use rand::prelude::*;
use rand_chacha::ChaCha8Rng;
use serde_json::{json, Value};
use text_utils::data::preprocessing::{preprocessing, Part, PreprocessingFnConfig};
use text_utils::data::{TextDataInfo, TrainData};
use text_utils::unicode::{normalize, Normalization};

const ALPHA: [char; 14] = ['e', '\u{0301}', '\u{00E9}', 'a', '\u{00E1}', 'i', '\u{00ED}', 'f', '\u{FB01}', '\u{00B4}', ' ', '\u{0327}', '\r', '\n'];

fn text(v: &Value) -> String {
    v.as_array().map(|a| a.iter().map(|x| ALPHA[x.as_u64().unwrap() as usize - 1]).collect()).unwrap_or_default()
}
fn slots(s: &str) -> Vec<usize> {
    s.chars().map(|c| ALPHA.iter().position(|a| *a == c).map(|p| p + 1).unwrap_or(99)).collect()
}
fn cps(s: &str) -> Vec<u32> {
    s.chars().map(|c| c as u32).collect()
}
fn scheme(s: &str) -> Normalization {
    match s { "nfc" => Normalization::NFC, "nfd" => Normalization::NFD, "nfkc" => Normalization::NFKC, _ => Normalization::NFKD }
}

/// the JSON literal as written: pieces -> text
fn literal(lit: &Value) -> String {
    let piece = |p: &Value| -> String {
        match get_str(p, "k") {
            "c" | "u" if get_str(p, "k") == "c" => char::from_u32(get_u(p, "n") as u32).unwrap().to_string(),
            "u" => format!("\\u{:04x}", get_u(p, "n")),
            "e" => match get_str(p, "x") { "n" => "\\n", "t" => "\\t", "q" => "\\\"", "b" => "\\\\", _ => "\\/" }.to_string(),
            "nl" => "\n".to_string(),
            "bad" => "\\x".to_string(),
            _ => "\"".to_string(),
        }
    };
    let mut s = String::new();
    if get_bool(lit, "open") { s.push('"'); }
    for p in lit["body"].as_array().unwrap() { s.push_str(&piece(p)); }
    if get_bool(lit, "close") { s.push('"'); }
    for p in lit["trail"].as_array().unwrap() { s.push_str(&piece(p)); }
    s
}

pub fn exec(case: &Value) -> Vec<Value> {
    let kind = get_str(case, "kind");
    let part = if get_str(case, "part") == "target" { Part::Target } else { Part::Input };
    let rec = if kind == "norm" {
        let t = text(&case["t"]);
        let g = get_bool(case, "g");
        let sch = get_str(case, "scheme");
        guard(|| {
            let out = normalize(&t, scheme(sch), g);
            let out2 = normalize(&out, scheme(sch), g);
            let f = preprocessing(PreprocessingFnConfig::Normalize(Part::Input, scheme(sch), g));
            let pre = match f(TrainData::new(t.clone(), None), TextDataInfo::default()) {
                Ok((d, _)) => json!({"ok": true, "input": slots(d.verif_input()), "target": slots(d.verif_target())}),
                Err(_) => json!({"ok": false, "input": [], "target": []}),
            };
            json!({"st": "ok", "kind": kind, "t": case["t"], "scheme": sch, "g": g, "out": slots(&out), "out2": slots(&out2), "pre": pre})
        })
    } else {
        let lit = literal(&case["lit"]);
        let p2 = part.clone();
        guard(|| {
            let f = preprocessing(PreprocessingFnConfig::JsonDecode(p2));
            let res = match f(TrainData::new(lit.clone(), None), TextDataInfo::default()) {
                Ok((d, _)) => json!({"ok": true, "input": cps(d.verif_input()), "target": cps(d.verif_target())}),
                Err(_) => json!({"ok": false, "input": [], "target": []}),
            };
            json!({"st": "ok", "kind": kind, "lit": case["lit"], "part": get_str(case, "part"), "src": cps(&lit), "res": res})
        })
    };
    vec![rec.unwrap_or_else(|m| json!({"st": format!("panic:{kind}:{m}"), "kind": kind, "case": case}))]
}

pub fn gen(seed: u64, n: usize) -> Vec<Value> {
    let mut rng = ChaCha8Rng::seed_from_u64(seed);
    let pieces = [json!({"k": "c", "n": 97, "x": ""}), json!({"k": "c", "n": 228, "x": ""}), json!({"k": "c", "n": 32, "x": ""}), json!({"k": "c", "n": 128512, "x": ""}),
                  json!({"k": "e", "n": 0, "x": "n"}), json!({"k": "e", "n": 0, "x": "t"}), json!({"k": "e", "n": 0, "x": "q"}), json!({"k": "e", "n": 0, "x": "b"}),
                  json!({"k": "e", "n": 0, "x": "s"}), json!({"k": "u", "n": 233, "x": ""}), json!({"k": "u", "n": 8364, "x": ""}), json!({"k": "nl", "n": 0, "x": ""}),
                  json!({"k": "bad", "n": 0, "x": ""}), json!({"k": "q", "n": 0, "x": ""})];
    (0..n)
        .map(|i| {
            if i % 2 == 0 {
                let t: Vec<usize> = (0..rng.random_range(0..=12)).map(|_| rng.random_range(1..=14)).collect();
                let sch = ["nfc", "nfd", "nfkc", "nfkd"][rng.random_range(0..4)];
                json!({"kind": "norm", "t": t, "scheme": sch, "g": rng.random_bool(0.5), "part": "input"})
            } else {
                let ok = rng.random_bool(0.6);
                let body: Vec<Value> = (0..rng.random_range(0..=10)).map(|_| pieces[if ok { rng.random_range(0..11) } else { rng.random_range(0..pieces.len()) }].clone()).collect();
                let (open, close) = (ok || rng.random_bool(0.7), ok || rng.random_bool(0.7));
                let trail = if ok || rng.random_bool(0.7) { json!([]) } else { json!([pieces[0].clone()]) };
                let part = if rng.random_bool(0.5) { "input" } else { "target" };
                json!({"kind": "json", "lit": {"open": open, "body": body, "close": close, "trail": trail}, "part": part})
            }
        })
        .collect()
}
