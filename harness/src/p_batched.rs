//! C06: Batched (four modes) and find_subsequences_of_max_size_k.
use crate::common::*;
use rand::prelude::*;
use rand_chacha::ChaCha8Rng;
use serde_json::{json, Value};
use text_utils::data::loading::{BatchLimitType, BatchedIterator, ItemSize};
use text_utils::utils::find_subsequences_of_max_size_k;

#[derive(Clone, Debug)]
struct It {
    id: usize,
    sz: usize,
}
impl ItemSize for It {
    fn size(&self) -> usize {
        self.sz
    }
}

fn ltype(s: &str) -> BatchLimitType {
    if s == "count" {
        BatchLimitType::BatchSize
    } else {
        BatchLimitType::PaddedItemSize
    }
}

/// Sizes from 1000 on stand for sizes beyond 32 bits: the library sees 2^32 + (size - 1000), the record keeps the size of
/// the case.  The map keeps the order of the sizes and the outcome of every comparison the batching makes (count x largest
/// size against limit and limit x prefetch, all far below 1000), so the model decides the same on both.
const BIG: usize = 1000;
fn real_size(s: usize) -> usize {
    if s >= BIG { (1usize << 32) + (s - BIG) } else { s }
}

fn run(sizes: &[usize], sort: bool, shuffle: bool, pf: usize, limit: usize, lt: &str, seed: u64) -> (Vec<Value>, bool, String) {
    let wide = sizes.iter().any(|&s| s >= BIG && s < BIG + 100) && limit < BIG / 8;
    let items: Vec<It> = sizes.iter().enumerate().map(|(i, &s)| It { id: i + 1, sz: if wide { real_size(s) } else { s } }).collect();
    let n = items.len();
    let mut it = items.into_iter().batched(sort, shuffle, pf, limit, ltype(lt), Some(seed));
    let mut out = vec![];
    let mut ended = false;
    for _ in 0..(n + 3) {
        match guard(|| it.next()) {
            Ok(Some(b)) => out.push(Value::Array(b.iter().map(|x| json!({"id": x.id, "sz": sizes[x.id - 1]})).collect())),
            Ok(None) => {
                ended = true;
                break;
            }
            Err(m) => return (out, false, format!("panic:next:{m}")),
        }
    }
    (out, ended, "ok".into())
}

pub fn exec(case: &Value) -> Vec<Value> {
    let sizes: Vec<usize> = case["sizes"].as_array().unwrap().iter().map(|x| x.as_u64().unwrap() as usize).collect();
    if get_str(case, "kind") == "subseq" {
        let k = get_u(case, "k");
        let lt = get_str(case, "ltype").to_string();
        let lt2 = lt.clone();
        let r = guard(|| {
            find_subsequences_of_max_size_k(&sizes, k, |sub| {
                if lt2 == "count" {
                    sub.len()
                } else {
                    sub.len() * sub.iter().copied().max().unwrap_or(0)
                }
            })
        });
        let (st, w) = match r {
            Ok(w) => ("ok".to_string(), w),
            Err(m) => (format!("panic:subseq:{m}"), vec![]),
        };
        return vec![json!({"st": st, "kind": "subseq", "sizes": sizes, "k": k, "ltype": lt,
                           "windows": w.iter().map(|(a, b)| json!([a, b])).collect::<Vec<_>>(), "case": case})];
    }
    let sort = get_bool(case, "sort");
    let shuffle = get_bool(case, "shuffle");
    let pf = get_u(case, "pf");
    let limit = get_u(case, "limit");
    let lt = get_str(case, "ltype");
    let seed = case.get("seed").and_then(|x| x.as_u64()).unwrap_or(0);
    // "unlimited": the limit handed to the library is 2^40 (far beyond every stream, and times the prefetch factor still
    // far from overflow); the record carries the case's limit 5 * 10^8 (TLC integers are 32-bit and the model multiplies by the prefetch factor), which also exceeds every stream
    let used = if get_bool(case, "unlimited") { 1usize << 40 } else { limit };
    let (b1, ended, st) = run(&sizes, sort, shuffle, pf, used, lt, seed);
    let (b2, _, _) = run(&sizes, sort, shuffle, pf, used, lt, seed);
    vec![json!({"st": st, "kind": "batched", "sizes": sizes, "sort": sort, "shuffle": shuffle, "pf": pf,
                "limit": limit, "ltype": lt, "seed": seed, "batches": b1, "batches2": b2, "ended": ended,
                "case": case})]
}

pub fn gen(seed: u64, n: usize) -> Vec<Value> {
    let mut rng = ChaCha8Rng::seed_from_u64(seed);
    (0..n)
        .map(|i| {
            let len = rng.random_range(0..=40);
            let maxs = [1usize, 3, 8, 20][rng.random_range(0..4)];
            let sizes: Vec<usize> = (0..len).map(|_| rng.random_range(0..=maxs)).collect();
            if i % 6 == 5 {
                let short: Vec<usize> = sizes.iter().take(12).copied().collect();
                return json!({"kind": "subseq", "sizes": short, "k": rng.random_range(0..=30),
                              "ltype": if rng.random_bool(0.5) { "count" } else { "padded" }});
            }
            let limit = [0usize, 1, 2, 3, 5, 8, 16, 33, 64][rng.random_range(0..9)];
            if i % 25 == 3 {
                // sizes and limits beyond 8 and 16 bits (item sizes of tens of thousands of tokens, limits of hundreds of thousands)
                let big: Vec<usize> = (0..rng.random_range(0..=12)).map(|_| [0usize, 1, 255, 256, 300, 65535, 65536, 70000][rng.random_range(0..8)]).collect();
                let limit = [255usize, 256, 65535, 65536, 140000, 300000][rng.random_range(0..6)];
                return json!({"kind": "batched", "sizes": big, "sort": rng.random_bool(0.5), "shuffle": rng.random_bool(0.5),
                              "pf": rng.random_range(0..=3), "limit": limit, "ltype": "padded", "seed": rng.random::<u32>()});
            }
            if i % 25 == 5 || i == 1 {
                // "no limit": one batch with everything, for both limit types
                return json!({"kind": "batched", "sizes": sizes, "sort": rng.random_bool(0.5), "shuffle": rng.random_bool(0.5),
                              "pf": rng.random_range(0..=3), "limit": 500000000u64, "unlimited": true,
                              "ltype": if rng.random_bool(0.5) { "count" } else { "padded" }, "seed": rng.random::<u32>()});
            }
            if i % 25 == 6 {
                // item sizes beyond 32 bits (written 1000 + k, see real_size) among small ones, limits far below
                let wide: Vec<usize> = (0..rng.random_range(2..=9)).map(|_| if rng.random_bool(0.35) { 1000 + rng.random_range(0..4usize) } else { rng.random_range(0..=5) }).collect();
                let lim = [4usize, 9, 16, 40][rng.random_range(0..4)];
                return json!({"kind": "batched", "sizes": wide, "sort": rng.random_bool(0.5), "shuffle": rng.random_bool(0.5),
                              "pf": rng.random_range(0..=4), "limit": lim, "ltype": "padded", "seed": rng.random::<u32>()});
            }
            if i % 25 == 4 {
                // many items per batch: counts beyond 8 bits
                let many: Vec<usize> = (0..rng.random_range(250..=600)).map(|_| rng.random_range(0..=2)).collect();
                let lim = [255usize, 256, 300, 700][rng.random_range(0..4)];
                return json!({"kind": "batched", "sizes": many, "sort": rng.random_bool(0.5), "shuffle": false,
                              "pf": 1, "limit": lim, "ltype": "count", "seed": rng.random::<u32>()});
            }
            json!({"kind": "batched", "sizes": sizes, "sort": rng.random_bool(0.5), "shuffle": rng.random_bool(0.5),
                   "pf": rng.random_range(0..=4), "limit": limit,
                   "ltype": if rng.random_bool(0.5) { "count" } else { "padded" }, "seed": if rng.random_bool(0.1) { 0 } else { rng.random::<u32>() }})
        })
        .collect()
}
