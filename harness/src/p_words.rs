//! C18: match_words / edited_words.  C13: correction metrics.
use crate::common::*;
use rand::prelude::*;
use rand_chacha::ChaCha8Rng;
use serde_json::{json, Value};
use std::collections::HashMap;
use text_utils::edit::edited_words;
use text_utils::metrics::{
    accuracy, binary_f1, mean_edit_distance, mean_normalized_edit_distance, spelling_correction_f1, verif_spelling_counts,
    whitespace_correction_f1, F1Info, WhitespaceCorrectionMode,
};
use text_utils::text::match_words;

// slot 7: "x y" with the blank replaced by a letter (a prediction that merges two words by writing a character)
const WORDS: [&str; 7] = ["x", "X", "y", "xy", "Y", "zz", "xxy"];
/// the same shape with non-ASCII letters (case pairs outside ASCII, a letter whose upper case is two letters)
const WORDS_UNI: [&str; 7] = ["ü", "Ü", "ж", "üж", "Ж", "ßß", "üüж"];
/// case pairs whose lower case has another UTF-8 length: U+023A (2 bytes) / U+2C65 (3 bytes), Kelvin sign (3 bytes) / k (1 byte)
const WORDS_UNI2: [&str; 7] = ["\u{2C65}", "\u{023A}", "k", "\u{2C65}k", "\u{212A}", "ßß", "\u{2C65}\u{2C65}k"];
const SEPS: [&str; 4] = [" ", "\t", "\n", "  "];

struct WInt {
    exact: HashMap<String, i64>,
    lower: HashMap<String, i64>,
}
impl WInt {
    fn new() -> Self {
        WInt { exact: HashMap::new(), lower: HashMap::new() }
    }
    fn view(&mut self, text: &str) -> Value {
        Value::Array(
            text.split_ascii_whitespace()
                .map(|w| {
                    let n = self.exact.len() as i64 + 1;
                    let i = *self.exact.entry(w.to_string()).or_insert(n);
                    let n = self.lower.len() as i64 + 1;
                    let l = *self.lower.entry(w.to_lowercase()).or_insert(n);
                    json!({"i": i, "l": l})
                })
                .collect(),
        )
    }
}

fn text_from(case: &Value, key: &str, sep: usize) -> String {
    if let Some(s) = case.get(key).and_then(|x| x.as_str()) {
        return s.to_string();
    }
    let slots_key = format!("{key}slots");
    let ws: Vec<&str> = case[slots_key.as_str()].as_array().unwrap().iter().map(|x| match get_str(case, "walpha") { "uni" => WORDS_UNI, "uni2" => WORDS_UNI2, _ => WORDS }[x.as_u64().unwrap() as usize - 1]).collect();
    ws.join(SEPS[sep % SEPS.len()])
}

pub fn exec_match(case: &Value) -> Vec<Value> {
    let sep = get_u(case, "sep");
    let a = text_from(case, "a", sep);
    let b = text_from(case, "b", sep + 1);
    let fold = get_bool(case, "fold");
    let mut wi = WInt::new();
    let va = wi.view(&a);
    let vb = wi.view(&b);
    let mut st = "ok".to_string();
    let (m, al, bl) = guard(|| match_words(&a, &b, fold)).unwrap_or_else(|e| { st = format!("panic:match_words:{e}"); (vec![], 0, 0) });
    let (mcs, _, _) = guard(|| match_words(&a, &b, false)).unwrap_or_else(|e| { if st == "ok" { st = format!("panic:match_words:{e}"); } (vec![], 0, 0) });
    let (ea, eb) = guard(|| edited_words(&a, &b)).unwrap_or_else(|e| { if st == "ok" { st = format!("panic:edited_words:{e}"); } (Default::default(), Default::default()) });
    let mut ea: Vec<usize> = ea.into_iter().collect();
    ea.sort();
    let mut eb: Vec<usize> = eb.into_iter().collect();
    eb.sort();
    vec![json!({"st": st, "a": va, "b": vb, "fold": fold, "as": a, "bs": b,
                "m": m.iter().map(|(x, y)| json!([x, y])).collect::<Vec<_>>(), "alen": al, "blen": bl,
                "mcs": mcs.iter().map(|(x, y)| json!([x, y])).collect::<Vec<_>>(), "ea": ea, "eb": eb, "case": case})]
}

pub fn gen_match(seed: u64, n: usize) -> Vec<Value> {
    let mut rng = ChaCha8Rng::seed_from_u64(seed);
    (0..n)
        .map(|i| {
            // words may contain whitespace that is not ASCII (match_words splits on ASCII whitespace only)
            let pool = ["the", "The", "a", "A", "cat", "CAT", "dog", "x", "", "é", "É", "über", "Über", "ÜBER", "ж", "Ж", "10\u{a0}km", "a\u{3000}b", "x\u{2028}",
                        "\u{212A}m", "km", "\u{023A}", "\u{2C65}", "STRA\u{1E9E}E", "straße",
                        // words that are the tail of another word ("together" / "to gether")
                        "together", "gether", "to", "at", "og",
                        // Greek: a capital sigma at the end of a word is a final sigma in lower case
                        "\u{039F}\u{0394}\u{039F}\u{03A3}", "\u{03BF}\u{03B4}\u{03BF}\u{03C2}", "\u{03BF}\u{03B4}\u{03BF}\u{03C3}"];
            // twin pairs that differ only in where a line feed ends the first text: ("x\ny", "z") and ("x", "y\nz")
            if i % 100 == 30 || i % 100 == 31 {
                let ws = ["x", "y", "z", "y", "x"];
                let k = (i / 100) % 3;
                let (a, b) = if i % 100 == 30 { (format!("{}\n{}", ws[k], ws[k + 1]), ws[k + 2].to_string()) }
                             else { (ws[k].to_string(), format!("{}\n{}", ws[k + 1], ws[k + 2])) };
                return json!({"a": a, "b": b, "fold": (i / 300) % 2 == 0});
            }
            // a few pairs have 63, 64 or 65 words (the width of a machine word) on one or both sides
            if i % 60 == 9 {
                let la = [63usize, 64, 64, 65][rng.random_range(0..4)];
                let a: Vec<String> = (0..la).map(|k| format!("w{}", k % 50)).collect();
                let mut b = if rng.random_bool(0.5) { a.clone() } else { (0..rng.random_range(1..=64usize)).map(|k| format!("w{}", (k * 7) % 50)).collect() };
                for _ in 0..3 {
                    if !b.is_empty() { let p = rng.random_range(0..b.len()); b[p] = "other".to_string(); }
                }
                let (a, b) = if rng.random_bool(0.5) { (a, b) } else { (b, a) };
                return json!({"a": a.join(" "), "b": b.join(" "), "fold": rng.random_bool(0.5)});
            }
            // one pair per run has more distinct words than 16 bits can number (the other text is tiny: the table stays small)
            if i == 7 {
                let n = 65537 + rng.random_range(0..40usize);
                let a: Vec<String> = (0..n).map(|k| format!("w{k}")).collect();
                let b = if rng.random_bool(0.5) { format!("w{} w0", n - 1) } else { format!("w0 w{} w65535", n - 1) };
                return json!({"a": a.join(" "), "b": b, "fold": rng.random_bool(0.5)});
            }
            // one pair in sixty is long (more than a hundred words) with a displaced block: a word far from the diagonal
            if rng.random_bool(1.0 / 150.0) {
                // both blocks end up more than 64 positions away from the diagonal
                let n = rng.random_range(150..=180usize);
                let a: Vec<String> = (0..n).map(|k| format!("w{k}")).collect();
                let cut = rng.random_range(n / 2 - 5..=n / 2 + 5);
                let mut b: Vec<String> = a[cut..].to_vec();
                b.extend_from_slice(&a[..cut]);
                if rng.random_bool(0.5) { b.insert(0, "moved".to_string()); }
                return json!({"a": a.join(" "), "b": b.join(" "), "fold": rng.random_bool(0.5)});
            }
            let mk = |rng: &mut ChaCha8Rng| -> String {
                let len = rng.random_range(0..=12);
                (0..len).map(|_| pool[rng.random_range(0..pool.len())]).filter(|w| !w.is_empty()).collect::<Vec<_>>().join(SEPS[rng.random_range(0..4)])
            };
            let a = mk(&mut rng);
            let b = if rng.random_bool(0.5) { mk(&mut rng) } else {
                let mut ws: Vec<&str> = a.split_ascii_whitespace().collect();
                for _ in 0..rng.random_range(0..=3) {
                    if ws.is_empty() || rng.random_bool(0.4) { let p = rng.random_range(0..=ws.len()); ws.insert(p, pool[rng.random_range(0..8)]); }
                    else { let p = rng.random_range(0..ws.len()); ws.remove(p); }
                }
                ws.join(" ")
            };
            json!({"a": a, "b": b, "fold": rng.random_bool(0.5)})
        })
        .collect()
}

// ---------------------------------------------------------------------------
// C13 metrics

fn f3(t: (f64, f64, f64)) -> Value {
    json!({"f": f6(t.0), "p": f6(t.1), "r": f6(t.2)})
}

fn seqs(case: &Value, key: &str) -> Vec<String> {
    case[key].as_array().unwrap().iter().map(|t| {
        if let Some(s) = t.as_str() { s.to_string() } else if case.get("alpha").is_some() {
            // character slots of a concretisation alphabet (slot 1 = space)
            concretise(t, &alphabet(get_str(case, "alpha")))
        } else {
            // a sequence of word slots (0 = empty word list); `lead`: behind a first word of three characters of two code
            // points each (with use_graphemes the character indices then differ from the code-point indices)
            let ws = t.as_array().unwrap().iter().map(|x| WORDS[x.as_u64().unwrap() as usize - 1]).collect::<Vec<_>>().join(" ");
            if get_bool(case, "lead") { format!("q\u{301}q\u{301}q\u{301} {ws}").trim_end().to_string() } else { ws }
        }
    }).collect()
}

pub fn exec_metrics(case: &Value) -> Vec<Value> {
    // the edit-distance cases are run over an ASCII and over a multi-byte alphabet
    if get_str(case, "kind") == "med" && case.get("malpha").is_none() {
        let mut out = vec![];
        // ("shareq": characters that share their first code point and have no precomposed form)
        for al in ["ascii", "multi", "shareq"] {
            let mut c = case.clone();
            c["malpha"] = json!(al);
            out.extend(exec_metrics(&c));
        }
        return out;
    }
    let kind = get_str(case, "kind");
    let mut st = "ok".to_string();
    let mut fail = |what: &str, m: String| { if st == "ok" { st = format!("panic:{what}:{m}"); } };
    let bn = case.get("bn").and_then(|x| x.as_u64()).unwrap_or(1);
    let bd = case.get("bd").and_then(|x| x.as_u64()).unwrap_or(1).max(1);
    let beta = bn as f64 / bd as f64;
    let g = get_bool(case, "g");
    let rec = match kind {
        "spelling" | "whitespace" => {
            let inp = seqs(case, "input");
            let pred = seqs(case, "pred");
            let tgt = seqs(case, "target");
            let mut wi = WInt::new();
            let iv: Vec<Value> = inp.iter().map(|s| wi.view(s)).collect();
            let pv: Vec<Value> = pred.iter().map(|s| wi.view(s)).collect();
            let tv: Vec<Value> = tgt.iter().map(|s| wi.view(s)).collect();
            let mut out = json!({"kind": kind, "bn": bn, "bd": bd, "g": g, "n": inp.len(), "iv": iv, "pv": pv, "tv": tv,
                                 "input": inp, "pred": pred, "target": tgt});
            if kind == "spelling" {
                let counts: Vec<Value> = (0..inp.len()).map(|k| {
                    match guard(|| verif_spelling_counts(&inp[k], &pred[k], &tgt[k], g)) {
                        Ok((e, tp, fp, fn_)) => json!({"ok": true, "e": e, "tp": tp, "fp": fp, "fn": fn_}),
                        Err(m) => { fail("spelling_counts", m); json!({"ok": false, "e": false, "tp": 0, "fp": 0, "fn": 0}) }
                    }
                }).collect();
                out["counts"] = Value::Array(counts);
                for (name, avg) in [("micro", false), ("seqavg", true)] {
                    out[name] = match guard(|| spelling_correction_f1(&inp, &pred, &tgt, beta, avg, g)) {
                        Ok(Ok((t, _))) => json!({"res": "ok", "v": f3(t)}),
                        Ok(Err(_)) => json!({"res": "err", "v": f3((0., 0., 0.))}),
                        Err(m) => { fail("spelling_correction_f1", m); json!({"res": "panic", "v": f3((0., 0., 0.))}) }
                    };
                }
            } else {
                let mode_s = get_str(case, "mode");
                let mode = || match mode_s { "insertions" => WhitespaceCorrectionMode::Insertions, "deletions" => WhitespaceCorrectionMode::Deletions,
                                            _ => WhitespaceCorrectionMode::InsertionsAndDeletions };
                out["mode"] = json!(mode_s);
                // character views for the whitespace operations of Ws.tla
                let mut cp = crate::p_ws::Cp::new();
                // the texts as the metric prepares them: cleaned, then NFKC
            let prep = |s: &str| text_utils::unicode::normalize(&text_utils::text::clean(s, true), text_utils::unicode::Normalization::NFKC, true);
                out["icv"] = Value::Array(inp.iter().map(|s| cp.view(&prep(s), g)).collect());
                out["pcv"] = Value::Array(pred.iter().map(|s| cp.view(&prep(s), g)).collect());
                out["tcv"] = Value::Array(tgt.iter().map(|s| cp.view(&prep(s), g)).collect());
                let mut counts = json!([]);
                for (name, avg) in [("micro", false), ("seqavg", true)] {
                    out[name] = match guard(|| whitespace_correction_f1(&inp, &pred, &tgt, beta, avg, mode(), g)) {
                        Ok(Ok((t, infos))) => {
                            counts = Value::Array(infos.iter().map(|i| match i {
                                F1Info::WhitespaceCorrectionInfo((a, b, c)) => json!({"ok": true, "tp": a.len(), "fp": b.len(), "fn": c.len()}),
                                _ => json!({"ok": false, "tp": 0, "fp": 0, "fn": 0}),
                            }).collect());
                            json!({"res": "ok", "v": f3(t)})
                        }
                        Ok(Err(_)) => json!({"res": "err", "v": f3((0., 0., 0.))}),
                        Err(m) => { fail("whitespace_correction_f1", m); json!({"res": "panic", "v": f3((0., 0., 0.))}) }
                    };
                }
                out["counts"] = counts;
            }
            out
        }
        "binary" => {
            let p: Vec<bool> = case["p"].as_array().unwrap().iter().map(|x| x.as_bool().unwrap()).collect();
            let t: Vec<bool> = case["t"].as_array().unwrap().iter().map(|x| x.as_bool().unwrap()).collect();
            let r = match guard(|| binary_f1(&p, &t, beta)) {
                Ok(Ok(t3)) => json!({"res": "ok", "v": f3(t3)}),
                Ok(Err(_)) => json!({"res": "err", "v": f3((0., 0., 0.))}),
                Err(m) => { fail("binary_f1", m); json!({"res": "panic", "v": f3((0., 0., 0.))}) }
            };
            let ps: Vec<String> = p.iter().map(|b| b.to_string()).collect();
            let ts: Vec<String> = t.iter().map(|b| b.to_string()).collect();
            let acc = match guard(|| accuracy(&ps, &ts)) {
                Ok(Ok(a)) => json!({"res": "ok", "v": f6(a)}),
                Ok(Err(_)) => json!({"res": "err", "v": f6(0.)}),
                Err(m) => { fail("accuracy", m); json!({"res": "panic", "v": f6(0.)}) }
            };
            json!({"kind": kind, "bn": bn, "bd": bd, "p": p, "t": t, "f1": r, "acc": acc})
        }
        _ => {
            // mean (normalised) edit distance over strings of the "ascii" alphabet or (malpha = "multi") of 2-4 byte letters
            let al = alphabet(match get_str(case, "malpha") { "multi" => "multi", "shareq" => "shareq", _ => "ascii" });
            let a: Vec<String> = case["a"].as_array().unwrap().iter().map(|t| concretise(t, &al)).collect();
            let b: Vec<String> = case["b"].as_array().unwrap().iter().map(|t| concretise(t, &al)).collect();
            let mut int = Interner::default();
            // the texts as the metric prepares them: cleaned, then NFKC
            let prep = |s: &str| text_utils::unicode::normalize(&text_utils::text::clean(s, true), text_utils::unicode::Normalization::NFKC, true);
            let av: Vec<Value> = a.iter().map(|s| view_iw(&prep(s), g, &mut int)).collect();
            let bv: Vec<Value> = b.iter().map(|s| view_iw(&prep(s), g, &mut int)).collect();
            let med = match guard(|| mean_edit_distance(&a, &b, g)) {
                Ok(Ok(x)) => json!({"res": "ok", "v": f6(x)}), Ok(Err(_)) => json!({"res": "err", "v": f6(0.)}),
                Err(m) => { fail("mean_edit_distance", m); json!({"res": "panic", "v": f6(0.)}) } };
            let mned = match guard(|| mean_normalized_edit_distance(&a, &b, g)) {
                Ok(Ok(x)) => json!({"res": "ok", "v": f6(x)}), Ok(Err(_)) => json!({"res": "err", "v": f6(0.)}),
                Err(m) => { fail("mean_normalized_edit_distance", m); json!({"res": "panic", "v": f6(0.)}) } };
            json!({"kind": "med", "g": g, "a": a, "b": b, "av": av, "bv": bv, "med": med, "mned": mned})
        }
    };
    let mut rec = rec;
    rec["st"] = json!(st);
    rec["case"] = case.clone();
    vec![rec]
}

pub fn gen_metrics(seed: u64, n: usize) -> Vec<Value> {
    let mut rng = ChaCha8Rng::seed_from_u64(seed);
    let betas = [(1u64, 2u64), (1, 1), (2, 1), (0, 1)];
    (0..n)
        .map(|i| {
            let (bn, bd) = betas[rng.random_range(0..4)];
            match i % 4 {
                0 | 1 => {
                    // spelling: word sequences with deleted / added / merged / split / changed words
                    let k = rng.random_range(0..=5);
                    let mut input = vec![]; let mut pred = vec![]; let mut target = vec![];
                    for _ in 0..k {
                        let len = rng.random_range(0..=6);
                        let tgt: Vec<&str> = (0..len).map(|_| WORDS[rng.random_range(0..WORDS.len())]).collect();
                        let mutate = |rng: &mut ChaCha8Rng, base: &Vec<&str>| -> String {
                            if rng.random_bool(0.1) { return String::new(); }
                            let mut ws: Vec<String> = base.iter().map(|s| s.to_string()).collect();
                            for _ in 0..rng.random_range(0..=2) {
                                let c = rng.random_range(0..5);
                                if ws.is_empty() || c == 0 { let p = rng.random_range(0..=ws.len()); ws.insert(p, WORDS[rng.random_range(0..WORDS.len())].to_string()); }
                                else if c == 1 { let p = rng.random_range(0..ws.len()); ws.remove(p); }
                                else if c == 2 { let p = rng.random_range(0..ws.len()); ws[p] = WORDS[rng.random_range(0..WORDS.len())].to_string(); }
                                else if c == 3 && ws.len() >= 2 { let p = rng.random_range(0..ws.len() - 1); let m = ws.remove(p + 1); ws[p].push_str(&m); }
                                else { let p = rng.random_range(0..ws.len()); if ws[p].chars().count() >= 2 { let w = ws[p].clone(); let (l, r) = w.split_at(1); ws[p] = l.to_string(); ws.insert(p + 1, r.to_string()); } }
                            }
                            ws.join(" ")
                        };
                        let inp = mutate(&mut rng, &tgt);
                        let inp_words: Vec<&str> = inp.split(' ').filter(|w| !w.is_empty()).collect();
                        let prd = match rng.random_range(0..4) { 0 => tgt.join(" "), 1 => inp.clone(), 2 => mutate(&mut rng, &tgt), _ => mutate(&mut rng, &inp_words) };
                        input.push(inp); pred.push(prd); target.push(tgt.join(" "));
                    }
                    json!({"kind": "spelling", "input": input, "pred": pred, "target": target, "bn": bn, "bd": bd, "g": rng.random_bool(0.5)})
                }
                2 => {
                    // whitespace: three respacings of the same content
                    let k = rng.random_range(0..=4);
                    let mut input = vec![]; let mut pred = vec![]; let mut target = vec![];
                    for _ in 0..k {
                        let len = rng.random_range(0..=8);
                        let content: Vec<&str> = (0..len).map(|_| ["a", "b", "ä", "c"][rng.random_range(0..4)]).collect();
                        let respace = |rng: &mut ChaCha8Rng| -> String {
                            let mut s = String::new();
                            for (k, c) in content.iter().enumerate() { if k > 0 && rng.random_bool(0.4) { s.push(' '); } s.push_str(c); }
                            if rng.random_bool(0.2) { format!(" {s}  ") } else { s }
                        };
                        input.push(respace(&mut rng)); pred.push(respace(&mut rng)); target.push(respace(&mut rng));
                    }
                    // one case in eight: the prediction (or the target) of one sequence stops early or has another letter - an
                    // error for the whitespace metric, never a panic
                    if k > 0 && rng.random_bool(0.125) {
                        let j = rng.random_range(0..k);
                        let which = if rng.random_bool(0.7) { &mut pred } else { &mut target };
                        let mut cs: Vec<char> = which[j].chars().collect();
                        if rng.random_bool(0.6) { let cut = rng.random_range(0..=cs.len()); cs.truncate(cut); } else { cs.push('z'); }
                        which[j] = cs.into_iter().collect();
                    }
                    let mode = ["insertions", "deletions", "both"][rng.random_range(0..3)];
                    json!({"kind": "whitespace", "input": input, "pred": pred, "target": target, "bn": bn, "bd": bd, "g": rng.random_bool(0.5), "mode": mode})
                }
                _ => {
                    if rng.random_bool(0.5) {
                        let len = rng.random_range(0..=10);
                        let p: Vec<bool> = (0..len).map(|_| rng.random_bool(0.5)).collect();
                        let t: Vec<bool> = (0..len).map(|_| rng.random_bool(0.5)).collect();
                        json!({"kind": "binary", "p": p, "t": t, "bn": bn, "bd": bd})
                    } else {
                        let k = rng.random_range(0..=4);
                        let mk = |rng: &mut ChaCha8Rng| -> Vec<Vec<u64>> { (0..k).map(|_| (0..rng.random_range(0..=6)).map(|_| rng.random_range(1..=3)).collect()).collect() };
                        json!({"kind": "med", "a": mk(&mut rng), "b": mk(&mut rng), "g": rng.random_bool(0.5)})
                    }
                }
            }
        })
        .collect()
}
