//! Extension X01: CharString (len / get / sub / get_char_byte_lengths / split) and the substring
//! enumerations possible_character_substrings / possible_byte_substrings, public API only.
use crate::common::*;
use rand::prelude::*;
use rand_chacha::ChaCha8Rng;
use serde_json::{json, Value};
use text_utils::text::{possible_byte_substrings, possible_character_substrings};
use text_utils::unicode::CharString;

/// (offset of `part` inside `whole`, length) - `part` must be a sub-slice of `whole`
fn off(whole: &str, part: &str) -> (usize, usize) {
    if part.is_empty() {
        return (0, 0);
    }
    let o = (part.as_ptr() as usize).wrapping_sub(whole.as_ptr() as usize);
    if o > whole.len() {
        // not a slice of the text at all: report an impossible offset
        return (1 << 20, part.len());
    }
    (o, part.len())
}

pub fn exec(case: &Value) -> Vec<Value> {
    let s: String = if let Some(s) = case.get("s").and_then(|x| x.as_str()) {
        s.to_string()
    } else {
        concretise(&case["slots"], &alphabet(get_str(case, "alpha")))
    };
    let g = get_bool(case, "g");
    let lens: Vec<usize> = clusters(&s, g).iter().map(|c| c.len()).collect();
    let n = lens.len();
    let mut st = "ok".to_string();
    let mut note = |r: Result<(), String>, what: &str| {
        if let Err(m) = r {
            if st == "ok" {
                st = format!("panic:{what}:{m}");
            }
        }
    };
    let cs = match guard(|| CharString::new(&s, g)) {
        Ok(c) => c,
        Err(m) => return vec![json!({"st": format!("panic:new:{m}"), "case": case})],
    };
    let len = cs.len();
    let cbl = guard(|| cs.get_char_byte_lengths()).unwrap_or_default();
    let split: Vec<usize> = guard(|| CharString::split(&s, g).map(|p| p.len()).collect::<Vec<_>>()).unwrap_or_default();
    let mut gets = vec![];
    for i in 0..n + 2 {
        match guard(|| cs.get(i)) {
            Ok(Some(p)) => {
                let (o, l) = off(&s, p);
                gets.push(json!([i, 1, o, l]));
            }
            Ok(None) => gets.push(json!([i, 0, 0, 0])),
            Err(m) => note(Err(m), "get"),
        }
    }
    // sub(a, b) for every a <= b <= n + 2 (short texts) or a seeded sample (long texts)
    let mut pairs: Vec<(usize, usize)> = vec![];
    if n <= 8 {
        for a in 0..=n + 1 {
            for b in a..=n + 2 {
                pairs.push((a, b));
            }
        }
    } else {
        let mut rng = ChaCha8Rng::seed_from_u64(n as u64 * 7919 + s.len() as u64);
        for _ in 0..40 {
            let a = rng.random_range(0..=n + 1);
            pairs.push((a, rng.random_range(a..=n + 2)));
        }
    }
    let mut subs = vec![];
    for (a, b) in pairs {
        match guard(|| cs.sub(a, b)) {
            Ok(p) => {
                let (o, l) = off(&s, p);
                subs.push(json!([a, b, o, l]));
            }
            Err(m) => note(Err(m), "sub"),
        }
    }
    let wins = |v: Vec<(usize, usize, usize)>| -> Vec<Value> { v.into_iter().map(|(a, b, c)| json!([a, b, c])).collect() };
    let mut csub = vec![];
    for max in 0..=n + 1 {
        match guard(|| possible_character_substrings(&s, max, g)) {
            Ok(v) => csub.push(json!({"max": max, "st": "ok", "wins": wins(v)})),
            Err(m) => csub.push(json!({"max": max, "st": format!("panic:{m}"), "wins": []})),
        }
    }
    let total: usize = lens.iter().sum();
    let mut bsub = vec![];
    for max in 0..=(total + 1).min(12) {
        match guard(|| possible_byte_substrings(&s, max, g)) {
            Ok(v) => bsub.push(json!({"max": max, "st": "ok", "wins": wins(v)})),
            Err(m) => bsub.push(json!({"max": max, "st": format!("panic:{m}"), "wins": []})),
        }
    }
    vec![json!({"st": st, "s": s, "g": g, "lens": lens, "len": len, "cbl": cbl, "split": split, "gets": gets, "subs": subs,
                "csub": csub, "bsub": bsub, "case": case})]
}

pub fn gen(seed: u64, n: usize) -> Vec<Value> {
    let mut rng = ChaCha8Rng::seed_from_u64(seed);
    let pool = ["a", "b", " ", "ä", "ß", "€", "字", "😀", "🇩🇪", "e\u{0301}", "👨\u{200D}👩\u{200D}👧", "\r\n", "\t", "\u{0301}", "न", "म", "स्", "ते"];
    // short texts with one cluster of 261 bytes (lengths that do not fit into a byte)
    let with_giant = ["a", "ä", " ", giant_cluster(), "😀"];
    let ascii = ["a", "b", " ", "\r\n", "\t", "z", "\r", "\n"];
    (0..n)
        .map(|_| {
            if rng.random_bool(0.05) {
                let s: String = (0..rng.random_range(1..=5)).map(|_| with_giant[rng.random_range(0..with_giant.len())]).collect();
                return json!({"s": s, "g": true});
            }
            let len = rng.random_range(0..=30);
            let pure = rng.random_bool(0.25);
            let s: String = (0..len)
                .map(|_| if pure { ascii[rng.random_range(0..ascii.len())] } else { pool[rng.random_range(0..pool.len())] })
                .collect();
            json!({"s": s, "g": rng.random_bool(0.5)})
        })
        .collect()
}
