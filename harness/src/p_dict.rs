//! C20: Dictionary::create / save / load / get_closest on small corpora.
use crate::common::*;
use rand::prelude::*;
use rand_chacha::ChaCha8Rng;
use serde_json::{json, Value};
use text_utils::dictionary::{Dictionary, DictionaryDistanceMeasure};

// slot -> character; kinds: s = space, l = letter, p = punctuation
// slot 7 (word mode only) is the spacing acute accent U+00B4, whose NFKC form is a blank followed by the combining acute:
// in the cleaned, normalised text it is a word separator followed by a letter-like symbol (id 7 = U+0301)
// slot 8 is a letter of two code points without a precomposed form (Devanagari ka + vowel sign i, both alphabetic): one
// character in the character modes
const CH: [(&str, &str); 8] = [(" ", "s"), ("x", "l"), ("y", "l"), ("z", "l"), ("-", "p"), ("ä", "l"), ("\u{00B4}", "l"), ("\u{0915}\u{093F}", "l")];
const BOW: i64 = 9001;
const EOW: i64 = 9002;

fn line_of(slots: &Value) -> String {
    slots.as_array().unwrap().iter().map(|x| CH[x.as_u64().unwrap() as usize - 1].0).collect()
}
fn line_view(slots: &Value) -> Value {
    Value::Array(slots.as_array().unwrap().iter().flat_map(|x| {
        let s = x.as_u64().unwrap() as usize;
        if s == 7 { vec![json!({"i": 1, "k": "s"}), json!({"i": 7, "k": "l"})] } else { vec![json!({"i": s, "k": CH[s - 1].1})] }
    }).collect())
}
/// a dictionary key back to symbol ids ("<bow>" / "<eow>" markers and the joining spaces of 3-grams)
fn token_ids(key: &str, mode: &str) -> Vec<i64> {
    let idof = |c: &str| -> i64 {
        if c == "<bow>" { BOW } else if c == "<eow>" { EOW } else if c == "\u{0301}" { 7 } else { CH.iter().position(|(s, _)| *s == c).map(|p| p as i64 + 1).unwrap_or(0) }
    };
    if mode == "char3" {
        key.split(' ').map(idof).collect()
    } else {
        clusters(key, true).into_iter().map(idof).collect()
    }
}

pub fn exec(case: &Value) -> Vec<Value> {
    let lines: Vec<String> = case["lines"].as_array().unwrap().iter().map(line_of).collect();
    let mode = get_str(case, "mode").to_string();
    let opt = |k: &str| -> Option<usize> { case.get(k).and_then(|x| x.as_i64()).and_then(|v| if v < 0 { None } else { Some(v as usize) }) };
    // `huge`: a max_size far beyond any vocabulary (usize::MAX / 32; the record carries the case's 2^31 - 1, TLC integers are
    // 32-bit): the same dictionary as without a limit
    let max_size = if get_bool(case, "huge") { Some(usize::MAX / 32) } else { opt("max_size") };
    let max_seq = opt("max_seq");
    let dir = std::env::temp_dir().join(format!("tuverif-dict-{}-{:?}", std::process::id(), std::thread::current().id()));
    let _ = std::fs::create_dir_all(&dir);
    // two files: the first `split` lines, then the rest
    let split = get_u(case, "split").min(lines.len());
    // the file that is read first has the name that sorts last (the order of the list counts, not the order of the names)
    let f1 = dir.join("z-first.txt");
    let f2 = dir.join("a-second.txt");
    // the first file ends without a line terminator (its last line is a line all the same, not the start of the next file's first)
    // (an empty last line only exists with its terminator)
    let first: String = if lines[..split].last().map(|l| l.is_empty()).unwrap_or(true) {
        lines[..split].iter().map(|l| format!("{l}\n")).collect()
    } else {
        lines[..split].join("\n")
    };
    std::fs::write(&f1, first).unwrap();
    std::fs::write(&f2, lines[split..].iter().map(|l| format!("{l}\n")).collect::<String>()).unwrap();
    let mut out = vec![];
    for threads in case["threads"].as_array().map(|a| a.iter().map(|x| x.as_u64().unwrap() as u8).collect::<Vec<_>>()).unwrap_or(vec![0]) {
        let r = guard(|| Dictionary::create(&[&f1, &f2], max_size, max_seq, threads, mode != "word", if mode == "char3" { 3 } else { 1 }, false));
        let mut st = "ok".to_string();
        let mut items: Vec<Value> = vec![];
        let mut reloaded: Vec<Value> = vec![];
        let mut freq_sum = 0usize;
        let mut closest: Vec<Value> = vec![];
        let mut reload_sum = 0usize;
        match r {
            Ok(Ok(d)) => {
                let mut it: Vec<(String, usize)> = d.items().map(|(k, v)| (k.clone(), *v)).collect();
                it.sort();
                items = it.iter().map(|(k, v)| json!({"t": token_ids(k, &mode), "f": v})).collect();
                freq_sum = d.freq_sum;
                let p = dir.join("dict.txt");
                match guard(|| d.save(&p).and_then(|_| Dictionary::load(&p))) {
                    Ok(Ok(d2)) => {
                        let mut it2: Vec<(String, usize)> = d2.items().map(|(k, v)| (k.clone(), *v)).collect();
                        it2.sort();
                        reloaded = it2.iter().map(|(k, v)| json!({"t": token_ids(k, &mode), "f": v})).collect();
                        reload_sum = d2.freq_sum;
                    }
                    Ok(Err(e)) => st = format!("err:saveload:{e}"),
                    Err(m) => st = format!("panic:saveload:{m}"),
                }
                if mode == "word" {
                    for q in case["queries"].as_array().cloned().unwrap_or_default() {
                        let qs = line_of(&q);
                        for (measure, normalized) in [(DictionaryDistanceMeasure::EditDistance, false), (DictionaryDistanceMeasure::NormalizedEditDistance, true)] {
                            match guard(|| d.get_closest(&qs, measure)) {
                                Ok(Some((term, freq, _))) => closest.push(json!({"q": q, "norm": normalized, "found": true, "t": token_ids(&term, &mode), "f": freq})),
                                Ok(None) => closest.push(json!({"q": q, "norm": normalized, "found": false, "t": [], "f": 0})),
                                Err(m) => { if st == "ok" { st = format!("panic:get_closest:{m}"); } }
                            }
                        }
                    }
                }
            }
            Ok(Err(e)) => st = format!("err:create:{e}"),
            Err(m) => st = format!("panic:create:{m}"),
        }
        out.push(json!({"st": st, "mode": mode, "threads": threads, "max_size": max_size.map(|x| x as i64).unwrap_or(-1),
                        "max_seq": max_seq.map(|x| x as i64).unwrap_or(-1), "lines": case["lines"].as_array().unwrap().iter().map(line_view).collect::<Vec<_>>(),
                        "items": items, "freq_sum": freq_sum, "reloaded": reloaded, "reload_sum": reload_sum, "closest": closest,
                        "text": lines, "case": case}));
    }
    let _ = std::fs::remove_dir_all(&dir);
    out
}

pub fn gen(seed: u64, n: usize) -> Vec<Value> {
    let mut rng = ChaCha8Rng::seed_from_u64(seed);
    (0..n)
        .enumerate()
        .map(|(k, _)| {
            // one case in fifty is a corpus of several hundred lines: with a handful of lines the first worker thread has
            // drained the file before the others start, so nothing is ever merged across workers
            // one corpus per run counts a word more than 65 536 times (4800 lines of 14 occurrences), next to a rare one
            if k == 3 {
                let mut lines: Vec<Vec<u64>> = (0..4800).map(|_| (0..14).flat_map(|_| [2u64, 1]).collect()).collect();
                lines.push(vec![3, 1, 3, 1, 4]);
                let ms = [-1i64, 1, 2][rng.random_range(0..3)];
                let md = ["word", "char1"][rng.random_range(0..2)];
                return json!({"lines": lines, "max_size": ms, "max_seq": -1, "mode": md,
                              "threads": [0, 3], "split": 2400, "queries": [[2]]});
            }
            let nl = if k % 50 == 7 { rng.random_range(300..=600) } else { rng.random_range(0..=8) };
            let lines: Vec<Vec<u64>> = (0..nl)
                .map(|_| (0..rng.random_range(0..=12)).map(|_| [1u64, 1, 2, 2, 3, 3, 4, 5, 6, 8][rng.random_range(0..10)]).collect())
                .collect();
            let queries: Vec<Vec<u64>> = (0..3).map(|_| (0..rng.random_range(0..=4)).map(|_| rng.random_range(2..=4u64)).collect()).collect();
            let ms = [-1i64, 0, 1, 2, 3, 5, 50, 2147483647][rng.random_range(0..8)];
            let mq = if nl > 8 { [-1i64, 250][rng.random_range(0..2)] } else { [-1i64, -1, 0, 1, 2, 5][rng.random_range(0..6)] };
            let mode = ["word", "char1", "char3"][rng.random_range(0..3)];
            json!({"lines": lines, "max_size": ms, "huge": ms == 2147483647, "max_seq": mq, "mode": mode, "threads": [0, 1, 2, 4], "split": rng.random_range(0..=nl), "queries": queries})
        })
        .collect()
}
