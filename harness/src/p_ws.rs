//! C10 / C11 / C14: clean, word_boundaries, remove, full, operations, repair,
//! whitespace corruption and the whitespace-correction task labels.
use crate::common::*;
use rand::prelude::*;
use rand_chacha::ChaCha8Rng;
use serde_json::{json, Value};
use std::collections::HashMap;
use text_utils::data::preprocessing::{preprocessing, Part, PreprocessingFnConfig};
use text_utils::data::task::{train_task, TrainTaskConfig};
use text_utils::data::{TextDataInfo, TrainData, TrainTaskInput};
use text_utils::text::{clean, word_boundaries};
use text_utils::tokenization::{ByteGroups, ByteTokenizerConfig, GroupAggregation, SpecialConfig, TokenizeConfig, TokenizerConfig};
use text_utils::whitespace::{full, operations, remove, repair, Operation};

/// code points are interned; U+0020 is always id 1
pub struct Cp {
    map: HashMap<char, i64>,
}
impl Cp {
    pub fn new() -> Self {
        let mut map = HashMap::new();
        map.insert(' ', 1);
        Cp { map }
    }
    pub fn id(&mut self, c: char) -> i64 {
        let n = self.map.len() as i64 + 1;
        *self.map.entry(c).or_insert(n)
    }
    pub fn cps(&mut self, s: &str) -> Vec<i64> {
        s.chars().map(|c| self.id(c)).collect()
    }
    /// cluster view: [c: code-point ids, w: all whitespace, m: mixed, s: is U+0020, n: bytes]
    pub fn view(&mut self, s: &str, g: bool) -> Value {
        Value::Array(
            clusters(s, g)
                .into_iter()
                .map(|c| {
                    let all = c.chars().all(char::is_whitespace);
                    let any = c.chars().any(char::is_whitespace);
                    json!({"c": self.cps(c), "w": all, "m": any && !all, "s": c == " ", "n": c.len()})
                })
                .collect(),
        )
    }
}

fn op_str(o: &Operation) -> &'static str {
    match o {
        Operation::Keep => "k",
        Operation::Insert => "i",
        Operation::Delete => "d",
    }
}
fn op_of(s: &str) -> Operation {
    match s {
        "i" => Operation::Insert,
        "d" => Operation::Delete,
        _ => Operation::Keep,
    }
}

fn text_of(case: &Value, key: &str, slots_key: &str) -> String {
    if let Some(s) = case.get(key).and_then(|x| x.as_str()) {
        return s.to_string();
    }
    let al = alphabet(get_str(case, "alpha"));
    concretise(&case[slots_key], &al)
}

/// Puts `s` into the caller's buffer after the buffer held - at the same address, with the same byte length - a text of
/// another structure (single-byte letters) that was looked at in the same segmentation mode: whatever was remembered
/// about that text must not be used for `s`.
fn refill(buf: &mut String, s: &str, g: bool) {
    buf.clear();
    buf.push_str(&"x".repeat(s.len()));
    let _ = guard(|| clean(buf, g));
    buf.clear();
    buf.push_str(s);
}

pub fn exec(case: &Value) -> Vec<Value> {
    let kind = get_str(case, "kind");
    let g = get_bool(case, "g");
    let (mut b1, mut b2) = (String::with_capacity(1024), String::with_capacity(1024));
    let mut cp = Cp::new();
    let mut st = "ok".to_string();
    let mut fail = |what: &str, m: String| {
        if st == "ok" {
            st = format!("panic:{what}:{m}");
        }
    };
    let rec = match kind {
        "clean" => {
            let s0 = text_of(case, "s", "slots");
            refill(&mut b1, &s0, g);
            let s = b1.as_str();
            let v = cp.view(s, g);
            let cl = guard(|| clean(s, g)).unwrap_or_else(|m| { fail("clean", m); String::new() });
            let cl2 = guard(|| clean(&cl, g)).unwrap_or_else(|m| { fail("clean2", m); String::new() });
            let wb = guard(|| word_boundaries(s, g)).unwrap_or_else(|m| { fail("word_boundaries", m); vec![] });
            let rm = guard(|| remove(s, g)).unwrap_or_else(|m| { fail("remove", m); String::new() });
            let fu = guard(|| full(s, g)).unwrap_or_else(|m| { fail("full", m); String::new() });
            json!({"kind": kind, "g": g, "s": s, "v": v, "clean": cp.cps(&cl), "clean2": cp.cps(&cl2),
                   "wb": wb.iter().map(|(a, z)| json!([a, z])).collect::<Vec<_>>(),
                   "remove": cp.cps(&rm), "full": cp.cps(&fu)})
        }
        "cleanlong" => {
            // tens of thousands of characters (positions beyond 16 bits, blocks of any internal chunking): `words` words of
            // `wlen` copies of `unit`, separated by `sep`, behind one leading blank
            let unit = get_str(case, "unit");
            let sep = get_str(case, "sep");
            let word = unit.repeat(get_u(case, "wlen"));
            let s = format!(" {}", vec![word; get_u(case, "words")].join(sep));
            let flags = |t: &str| -> Vec<bool> { clusters(t, g).iter().map(|c| c.chars().all(char::is_whitespace)).collect() };
            let cl = guard(|| clean(&s, g)).unwrap_or_else(|m| { fail("clean", m); String::new() });
            let wb = guard(|| word_boundaries(&s, g)).unwrap_or_else(|m| { fail("word_boundaries", m); vec![] });
            let rm = guard(|| remove(&s, g)).unwrap_or_else(|m| { fail("remove", m); String::new() });
            let fu = guard(|| full(&s, g)).unwrap_or_else(|m| { fail("full", m); String::new() });
            json!({"kind": kind, "g": g, "nbytes": s.len(), "ws": flags(&s), "cleanws": flags(&cl), "removews": flags(&rm), "fullws": flags(&fu),
                   "wb": wb.iter().map(|(a, z)| json!([a, z])).collect::<Vec<_>>()})
        }
        "corruptlong" => {
            // hundreds of thousands of characters with one probability 0: "never" must hold at every one of them.  The record
            // carries the word ends (number of non-whitespace characters in front of every whitespace run) of text and output.
            use text_utils::data::preprocessing::{preprocessing, Part, PreprocessingFnConfig};
            use text_utils::data::{TextDataInfo, TrainData};
            let wlen = get_u(case, "wlen").max(1);
            let text = vec!["ab".repeat(wlen / 2 + 1)[..wlen].to_string(); get_u(case, "words")].join(" ");
            let (iw, dw) = (case["iw"].as_f64().unwrap_or(0.0), case["dw"].as_f64().unwrap_or(0.0));
            let seed = case.get("seed").and_then(|x| x.as_u64()).unwrap_or(0);
            let ends = |t: &str| -> Vec<usize> {
                let (mut n, mut out, mut in_ws) = (0usize, vec![], false);
                for c in t.chars() {
                    if c.is_whitespace() { if !in_ws { out.push(n); } in_ws = true; } else { n += 1; in_ws = false; }
                }
                out
            };
            let out = match guard(|| {
                let f = preprocessing(PreprocessingFnConfig::WhitespaceCorruption(Part::Input, iw, dw, g));
                f(TrainData::new(text.clone(), None), TextDataInfo { seed, ..Default::default() }).map(|(d, _)| d.verif_input().to_string())
            }) {
                Ok(Ok(o)) => o,
                Ok(Err(e)) => { fail("corrupt", format!("err:{e}")); String::new() }
                Err(m) => { fail("corrupt", m); String::new() }
            };
            let same = out.chars().filter(|c| !c.is_whitespace()).eq(text.chars().filter(|c| !c.is_whitespace()));
            let cls = |p: f64| if p <= 0.0 { "zero" } else if p >= 1.0 { "one" } else { "mid" };
            json!({"kind": kind, "g": g, "n": text.chars().count(), "tends": ends(&text), "oends": ends(&out), "same_content": same,
                   "iw": cls(iw), "dw": cls(dw), "seed": seed})
        }
        "pair" => {
            let (f0, t0) = (text_of(case, "from", "fslots"), text_of(case, "to", "tslots"));
            refill(&mut b1, &f0, g);
            refill(&mut b2, &t0, g);
            let (f, t) = (b1.clone(), b2.clone());
            let ops = guard(|| operations(&b1, &b2, g));
            let (ops_ok, ops_v): (bool, Vec<Operation>) = match ops {
                Ok(Ok(o)) => (true, o),
                Ok(Err(_)) => (false, vec![]),
                Err(m) => { fail("operations", m); (false, vec![]) }
            };
            let rep = if ops_ok {
                match guard(|| repair(&b1, &ops_v, g)) {
                    Ok(Ok(s)) => json!({"ok": true, "cps": cp.cps(&s)}),
                    Ok(Err(_)) => json!({"ok": false, "cps": []}),
                    Err(m) => { fail("repair", m); json!({"ok": false, "cps": []}) }
                }
            } else {
                json!({"ok": false, "cps": []})
            };
            json!({"kind": kind, "g": g, "from": f, "to": t, "fv": cp.view(&f, g), "tv": cp.view(&t, g),
                   "ops_ok": ops_ok, "ops": ops_v.iter().map(op_str).collect::<Vec<_>>(), "repair": rep})
        }
        "repair" => {
            let s = text_of(case, "s", "slots");
            let ops: Vec<Operation> = case["ops"].as_array().unwrap().iter().map(|x| op_of(x.as_str().unwrap())).collect();
            refill(&mut b1, &s, g);
            let rep = match guard(|| repair(&b1, &ops, g)) {
                Ok(Ok(r)) => json!({"ok": true, "cps": cp.cps(&r)}),
                Ok(Err(_)) => json!({"ok": false, "cps": []}),
                Err(m) => { fail("repair", m); json!({"ok": false, "cps": []}) }
            };
            // a length mismatch must be an error, not a panic
            let mut longer = ops.clone();
            longer.push(Operation::Keep);
            let mism = match guard(|| repair(&s, &longer, g)) {
                Ok(Ok(_)) => "ok",
                Ok(Err(_)) => "err",
                Err(m) => { fail("repair_mismatch", m); "panic" }
            };
            json!({"kind": kind, "g": g, "s": s, "v": cp.view(&s, g), "ops": ops.iter().map(op_str).collect::<Vec<_>>(),
                   "repair": rep, "mismatch": mism})
        }
        _ => {
            // whitespace corruption through the public preprocessing constructor
            let text = text_of(case, "text", "slots");
            // probabilities: floats, or the integer codes 0 / 1 / 5 (= 0.5) of the TLC-enumerated cases
            let prob = |v: &Value| -> f64 {
                if let Some(i) = v.as_u64() { if i == 5 { 0.5 } else { i as f64 } } else { v.as_f64().unwrap_or(0.0) }
            };
            let iw = prob(&case["iw"]);
            let dw = prob(&case["dw"]);
            let seed = case.get("seed").and_then(|x| x.as_u64()).unwrap_or(0);
            // `other`: the same seed in a different item context (another source file, marks set): the output is a
            // function of (text, seed) only
            let run_in = |text: &str, other: bool| -> Result<(String, String), String> {
                let f = preprocessing(PreprocessingFnConfig::WhitespaceCorruption(Part::Input, iw, dw, g));
                let info = if other {
                    TextDataInfo { seed, file_idx: 3, marks: [("lang".to_string(), "de".to_string())].into_iter().collect() }
                } else {
                    TextDataInfo { seed, ..Default::default() }
                };
                match guard(|| f(TrainData::new(text.to_string(), None), info)) {
                    Ok(Ok((d, _))) => Ok((d.verif_input().to_string(), d.verif_target().to_string())),
                    Ok(Err(e)) => Err(format!("err:{e}")),
                    Err(m) => Err(format!("panic:corrupt:{m}")),
                }
            };
            let run = |text: &str| run_in(text, false);
            // the same text through the corruption of the other segmentation mode first (on this thread, result unused):
            // what is remembered about the text there must not show here
            let _ = guard(|| {
                let f = preprocessing(PreprocessingFnConfig::WhitespaceCorruption(Part::Input, iw, dw, !g));
                f(TrainData::new(text.to_string(), None), TextDataInfo { seed, ..Default::default() }).is_ok()
            });
            let (out, tgt) = run(&text).unwrap_or_else(|m| { fail("corrupt", m); (String::new(), String::new()) });
            // the library's own operations / repair on (corrupted input, original text)
            let lib: Value = match guard(|| operations(&out, &text, g).and_then(|ops| repair(&out, &ops, g))) {
                Ok(Ok(s)) => json!({"ok": true, "cps": cp.cps(&s)}),
                Ok(Err(_)) => json!({"ok": false, "cps": []}),
                Err(m) => { fail("operations_repair", m); json!({"ok": false, "cps": []}) }
            };
            let (out2, _) = run(&text).unwrap_or_default();
            let (out3, _) = run_in(&text, true).unwrap_or_default();
            // labels of the whitespace-correction task for (corrupted input, original target)
            // 0-2 prefix tokens and 0-1 suffix tokens, by seed: the labels of the characters sit between as many -1
            let (npfx, nsfx) = ((seed % 3) as usize, ((seed / 3) % 2) as usize);
            let tok_cfg = TokenizerConfig {
                tokenize: TokenizeConfig::Byte(ByteTokenizerConfig { use_graphemes: g, pad_to_multiple_of: None,
                    groups: ByteGroups::Bytes, aggregation: GroupAggregation::Mean }),
                special: SpecialConfig { pad: "<pad>".into(), tokens: vec!["<pad>".into(), "<bos>".into(), "<eos>".into()],
                    prefix: vec!["<bos>".to_string(); npfx], suffix: vec!["<eos>".to_string(); nsfx] },
            };
            let labels: Value = match guard(|| {
                let task = train_task(TrainTaskConfig::WhitespaceCorrection(g, tok_cfg));
                task(&TrainData::new(out.clone(), Some(text.clone())))
            }) {
                Ok(Ok(TrainTaskInput::SequenceClassification { labels, token_ids, .. })) => json!({"ok": true, "labels": labels, "ntok": token_ids.len()}),
                Ok(Ok(_)) => json!({"ok": false, "labels": [], "ntok": 0}),
                Ok(Err(_)) => json!({"ok": false, "labels": [], "ntok": 0}),
                Err(m) => { fail("task", m); json!({"ok": false, "labels": [], "ntok": 0}) }
            };
            // shape of a recorded finding: two characters of the text that are separated only by whitespace would form one
            // grapheme cluster - or would be cut differently - if they stood next to each other (regional indicators, Hangul jamo, ...)
            let fusable = g && {
                let cl: Vec<&str> = clusters(&text, true).into_iter().filter(|c| !c.chars().all(char::is_whitespace)).collect();
                cl.windows(2).any(|w| clusters(&format!("{}{}", w[0], w[1]), true) != vec![w[0], w[1]])
            };
            let cls = |p: f64| if p <= 0.0 { "zero" } else if p >= 1.0 { "one" } else { "mid" };
            json!({"kind": "corrupt", "g": g, "fusable": fusable, "text": text, "tv": cp.view(&text, g), "ov": cp.view(&out, g),
                   "out": out, "same_again": out == out2 && out == out3, "target_cps": cp.cps(&tgt), "text_cps": cp.cps(&text),
                   "iw": cls(iw), "dw": cls(dw), "seed": seed, "task": labels, "npfx": npfx, "nsfx": nsfx, "nbytes": out.len(), "lib": lib})
        }
    };
    let mut rec = rec;
    rec["st"] = json!(st);
    rec["case"] = case.clone();
    vec![rec]
}

fn rand_ws_text(rng: &mut ChaCha8Rng, maxlen: usize, clean_only: bool) -> String {
    let ws: Vec<&str> = if clean_only { vec![" "] } else {
        vec![" ", " ", "\t", "\n", "\r\n", "\u{00A0}", "\u{3000}", "\u{2003}", "\u{000B}", "\u{0085}", "\u{1680}", "\u{2028}", "\u{205F}"]
    };
    let mut nw: Vec<&str> = vec!["a", "b", "c", "ä", "e\u{0301}", "€", "字", "😀", "🇩🇪", "\u{200B}", "x", "-", ".", "\u{FEFF}", "👨\u{200D}👩",
                                      "\u{1F1E9}", "\u{1F1EA}", "\u{1100}", "\u{1161}", giant_cluster()];
    let mut ws = ws;
    // one text in three is pure ASCII (byte-wise fast paths), with every ASCII White_Space character
    if rng.random_bool(0.34) {
        nw = vec!["a", "b", "c", "x", "-", ".", "Z", "0", "\u{001C}", "\u{001F}", "\u{007F}", "\u{0000}"];
        if !clean_only {
            ws = vec![" ", " ", "\t", "\n", "\r\n", "\r", "\u{000B}", "\u{000C}"];
        }
    }
    // one text in twenty-five is long (60-100 characters of changing byte widths: dozens of runs of equal width)
    let n = if rng.random_bool(0.04) { rng.random_range(60..=100) } else { rng.random_range(0..=maxlen) };
    let mut s = String::new();
    let mut last_ws = true;
    for i in 0..n {
        let want_ws = rng.random_bool(0.3);
        if want_ws && !(clean_only && (last_ws || i == n - 1)) {
            s.push_str(ws[rng.random_range(0..ws.len())]);
            last_ws = true;
        } else {
            s.push_str(nw[rng.random_range(0..nw.len())]);
            last_ws = false;
        }
    }
    if clean_only { s.trim().to_string() } else { s }
}

pub fn gen(seed: u64, n: usize) -> Vec<Value> {
    let mut rng = ChaCha8Rng::seed_from_u64(seed);
    let mut out = vec![];
    for i in 0..n {
        let g = rng.random_bool(0.5);
        match i % 4 {
            0 if i == 12 => {
                // one text per run of tens of thousands of characters: clusters of two code points everywhere, CR LF or an
                // ideographic space between the words
                // (cluster lengths of 3, 8 and 1 / 2 bytes: wherever a block of the text ends, some cluster lies across it)
                for (unit, sep) in [("e\u{0301}", "\r\n"), ("\u{1F1E9}\u{1F1EA}", "\u{3000}"), ("a", " \r\n")] {
                    let (wlen, words) = (rng.random_range(15..=25), rng.random_range(600..=1000));
                    out.push(json!({"kind": "cleanlong", "unit": unit, "sep": sep, "wlen": wlen, "words": words, "g": true}));
                    out.push(json!({"kind": "cleanlong", "unit": unit, "sep": sep, "wlen": wlen, "words": words, "g": false}));
                }
            }
            0 => {
                // a few texts change the byte width of their characters at every position, several hundred times
                if i % 400 == 8 {
                    let n = rng.random_range(300..=420);
                    let s: String = (0..n).map(|k| if k % 7 == 6 { [" ", "\u{00A0}", "\u{3000}"][k % 3] } else if k % 2 == 0 { "a" } else { ["ä", "字", "e\u{0301}"][k % 3] }).collect();
                    out.push(json!({"kind": "clean", "s": s, "g": g}));
                } else {
                    out.push(json!({"kind": "clean", "s": rand_ws_text(&mut rng, 24, false), "g": g}));
                }
            }
            1 => {
                // two clean respacings of the same content
                let base = rand_ws_text(&mut rng, 16, true);
                let content: Vec<&str> = clusters(&base, true).into_iter().filter(|c| *c != " ").collect();
                let respace = |rng: &mut ChaCha8Rng| -> String {
                    let mut s = String::new();
                    for (k, c) in content.iter().enumerate() {
                        if k > 0 && rng.random_bool(0.4) { s.push(' '); }
                        s.push_str(c);
                    }
                    s
                };
                out.push(json!({"kind": "pair", "from": respace(&mut rng), "to": respace(&mut rng), "g": g}));
            }
            2 => {
                let s = rand_ws_text(&mut rng, 14, false);
                let len = clusters(&s, g).len();
                let ops: Vec<&str> = (0..len).map(|_| ["k", "k", "i", "d"][rng.random_range(0..4)]).collect();
                out.push(json!({"kind": "repair", "s": s, "ops": ops, "g": g}));
            }
            _ if i == 7 || i == 11 => {
                // two long texts per run: one with delete probability 0, one with insert probability 0
                let (iw, dw) = if i == 7 { (0.5, 0.0) } else { (0.0, 0.5) };
                out.push(json!({"kind": "corruptlong", "wlen": if i == 7 { 2 } else { 12 }, "words": if i == 7 { 130000 } else { 25000 }, "iw": iw, "dw": dw,
                                "seed": rng.random::<u32>(), "g": false}));
            }
            _ => {
                let p = [0.0, 0.3, 1.0];
                let (mut iw, mut dw) = (p[rng.random_range(0..3)], p[rng.random_range(0..3)]);
                if iw == 0.0 && dw == 0.0 { if rng.random_bool(0.5) { iw = 0.5 } else { dw = 0.5 } }
                out.push(json!({"kind": "corrupt", "text": rand_ws_text(&mut rng, 20, true), "iw": iw, "dw": dw,
                                "seed": rng.random::<u32>(), "g": g}));
            }
        }
    }
    out
}
