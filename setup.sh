#!/bin/sh
# Builds the harness once against /repo (offline). Checks rebuild incrementally.
set -e
cd "$(dirname "$0")/harness"
[ -f Cargo.lock ] || cp /repo/Cargo.lock Cargo.lock
CARGO_NET_OFFLINE=true cargo build --offline 2>&1 | tail -3
